//! C15 — serialization fails cleanly under I/O faults instead of corrupting or panicking.
//!
//! Engine E4 (fault-sequence enumeration) realised as E1 sections whose cases are
//! (object, fault script) resp. (object, batch of fault scripts):
//!
//!  * `write_single`   every object: fault-free run + EVERY single deviation at EVERY write-call index
//!  * `write_pairs`    every object with <= P write calls: ALL pairs of deviations (one case per first deviation)
//!  * `write_triples`  every object with <= T write calls: ALL triples of deviations
//!  * `write_uniform`  every object: writers that accept at most k bytes on EVERY call (k = 1..7), alone and
//!                     combined with one failure / interruption / zero-write at every call index
//!  * `read_trunc`     every object x per-call read limit {1,3,8,unlimited}: EVERY truncation offset 0..len-1
//!                     (must be Err), and the complete stream (must restore the object exactly)
//!  * `read_faults`    every object x read limit: complete stream with one Interrupted / one hard error at EVERY
//!                     read-call index; for short encodings additionally every (truncation offset, Interrupted index)
//!  * `big_write`      production-size objects (encodings that cross 4 KiB, 32 KiB, 64 KiB, 1 MiB; N up to 8192, up to 18 primes,
//!                     sizes 2..4, containers of up to 1024 entries, vectors of 4095 / 4096 / 4097 / 8193 words): writers
//!                     accepting {unlimited, 1, 7, 4096} bytes per call x one deviation at the first, the last, every 2^k-th
//!                     call, every header / border call and every bulk call, short counts {1, e-1, 4095, 4096, 4097}; short
//!                     accept + deviation at the retry for bulk calls
//!  * `big_read`       the same objects x read limits {1, 7, 4096, unlimited}: every truncation offset within the first and
//!                     the last 256 bytes and at every 2^k and 4096 j boundary +- 1; one Interrupted / hard error / short
//!                     delivery at the selected read calls
//!
//! A writer deviation at call index i is one of: accept only k of the offered bytes (1 <= k <= 7, k < offered),
//! fail with ErrorKind::Other, fail with ErrorKind::Interrupted (to be retried per the `Write` contract), return
//! Ok(0). Call indices count every call to `Write::write`, including the retries caused by earlier deviations; the
//! set of deviations available at a later index is derived from the recorded trace of the run with the earlier
//! deviations applied, so every enumerated script really takes effect.

use crate::engine::*;
use crate::he::{self, Kit, ParamSpec, Scheme};
use heathcliff::app::matmul::cipher3d::{Cipher3d, Plain3d};
use heathcliff::app::matmul::{Cipher1d, Cipher2d, Plain1d, Plain2d};
use heathcliff::app::rns_plain::{
    RnspCiphertext, RnspGaloisKeys, RnspHeContext, RnspPublicKey, RnspRelinKeys, RnspSerializableWithHeContext,
};
use heathcliff::{
    Ciphertext, EncryptionParameters, ExpandSeed, GaloisKeys, HeContext, KSwitchKeys, KeyGenerator, Modulus, ParmsID, Plaintext,
    PolynomialSerializer, PublicKey, RelinKeys, SecretKey, Serializable, SerializableWithHeContext, PARMS_ID_ZERO,
};
use serde::{Deserialize, Serialize};
use std::cell::RefCell;
use std::collections::BTreeMap;
use std::io::{self, ErrorKind, Read, Write};
use std::rc::Rc;
use std::sync::Arc;
use std::time::Duration;

pub fn describe(rep: &Report) {
    rep.set_rule(
        "case = (object kind + explicit parameter set, fault script prefix, extension depth): the check runs the prefix script and every \
         extension of it by `depth` further deviations at every later call index (traces_validated_against_impl counts the individual fault \
         scripts executed on the real serializers). Read cases = (object, per-call read limit, mode) and loop over every truncation offset / \
         fault index. non-trivial = at least one script of the case actually injected a fault (short accept, error, interruption, zero \
         write, truncation).",
    );
    rep.assume("the reference encoding of an object is what the same serializer writes into a plain Vec<u8> (format correctness is C14's subject); its length must equal the returned count and serialized_size");
    rep.assume("restored objects are compared field-wise (data words, sizes, ids, scale bits, factor, form) with the original, seeded objects with expand_seed(original); for the selected-terms formats the reference is the fault-free deserialization");
    rep.assume("objects are taken at the smallest parameter sets (N = 4/8/16, 1-3 primes of 1-3 bytes; thorough adds 4- and 8-byte primes and N = 16 keys); encodings 1 B .. ~5 KB");
    rep.assume("an Err result is accepted for every faulty writer (the statement allows 'or returns an error'), also for writers that only short-accept or interrupt; Ok is accepted only with the complete reference encoding in the sink and the exact byte count");
    rep.assume("streams are only truncated or delayed, never altered: corrupted (bit-flipped) encodings are outside this property (by reading: a corrupted length field reaches Vec::with_capacity / indexing unchecked, a corrupted parms id reaches get_context_data(..).unwrap())");
    rep.assume("the fault-injecting sink never holds more than the reference encoding and both streams panic after 2*len+64 calls, so a looping (de)serializer is reported (writes-beyond-encoding / unbounded-writes / unbounded-reads) instead of exhausting memory; the address space is limited to 8 GiB and a process abort inside a case (allocation failure) is turned into a VIOLATION with a replay file by a SIGABRT handler");
    rep.assume("big_write / big_read: the fault family is derived from the recorded call trace of the serializer under test, so it follows the call granularity of the code (byte-wise today, block-wise after a buffering change); it is complete for traces of <= 768 calls and otherwise restricted to the first / last 32, the 2^k-th (+-1) calls of three lists (all calls, calls where the offered length changes, calls offering > 8 bytes); truncation offsets are restricted to the first / last 256 bytes and the 2^k and 4096 j boundaries +- 1. A short delivery by a reader is legal reader behaviour: the object must still be restored");
    rep.assume("failing scripts are reduced (drop the cap, drop single deviations) before the violation key is formed; key = direction : source-file family of the entry point : symptom : remaining fault kinds : bytes offered at the first fault");
}

// ------------------------------------------------------------------------------------------
// fault scripts
// ------------------------------------------------------------------------------------------

#[derive(Serialize, Deserialize, Clone, Copy, Debug, PartialEq, Eq, Hash)]
pub enum Act {
    /// accept only this many of the offered bytes (effective only if smaller than the offer)
    Accept(u8),
    /// Err(ErrorKind::Other)
    Fail,
    /// Err(ErrorKind::Interrupted): nothing was written, the caller is expected to retry
    Interrupted,
    /// Ok(0) on a non-empty buffer
    Zero,
}

#[derive(Serialize, Deserialize, Clone, Copy, Debug, PartialEq, Eq, Hash)]
pub struct Dev {
    pub call: usize,
    pub act: Act,
}

#[derive(Serialize, Deserialize, Clone, Debug, Default, PartialEq, Eq, Hash)]
pub struct WScript {
    /// every call accepts at most this many bytes
    #[serde(default)]
    pub cap: Option<u8>,
    /// deviations, ascending call index
    #[serde(default)]
    pub devs: Vec<Dev>,
}

pub struct FaultyWriter<'a> {
    script: &'a WScript,
    pub sink: Vec<u8>,
    call: usize,
    /// offered length per call
    pub trace: Vec<u32>,
    /// bytes already in the sink at each call
    pub starts: Vec<u32>,
    /// number of calls whose behaviour differed from "accept everything"
    pub effective: u32,
    /// bytes offered at the first such call
    pub first_offer: u32,
    /// length of the reference encoding: the sink never grows beyond it
    max_sink: usize,
    /// the serializer offered bytes beyond the complete encoding (they were refused with an error)
    pub overrun: bool,
}

/// message of the panic the fault-injecting streams raise when a (de)serializer keeps calling them without end
const BOUND_MSG: &str = "C15-HARNESS call bound exceeded";

impl<'a> FaultyWriter<'a> {
    /// `ref_len`: length of the complete encoding. Memory use is bounded: the sink holds at most `ref_len` bytes and
    /// at most 2*ref_len + 64 calls are recorded (every legitimate call either transfers a byte or is one of the few
    /// deviations), after which the writer panics instead of letting a looping serializer run away.
    pub fn new(script: &'a WScript, ref_len: usize) -> Self {
        FaultyWriter {
            script,
            sink: Vec::with_capacity(ref_len),
            call: 0,
            trace: Vec::with_capacity(64),
            starts: Vec::with_capacity(64),
            effective: 0,
            first_offer: 0,
            max_sink: ref_len,
            overrun: false,
        }
    }
    fn hit(&mut self, offered: usize) {
        if self.effective == 0 {
            self.first_offer = offered as u32;
        }
        self.effective += 1;
    }
}

impl Write for FaultyWriter<'_> {
    fn write(&mut self, buf: &[u8]) -> io::Result<usize> {
        let idx = self.call;
        self.call += 1;
        if idx > 2 * self.max_sink + 64 {
            panic!("{BOUND_MSG}: {} write calls for an encoding of {} bytes", idx, self.max_sink);
        }
        self.trace.push(buf.len() as u32);
        self.starts.push(self.sink.len() as u32);
        if buf.is_empty() {
            return Ok(0);
        }
        let mut n = buf.len();
        let mut short = false;
        if let Some(c) = self.script.cap {
            if (c as usize) < n {
                n = c as usize;
                short = true;
            }
        }
        for d in self.script.devs.iter() {
            if d.call == idx {
                match d.act {
                    Act::Accept(k) => {
                        if (k as usize) < n {
                            n = k as usize;
                            short = true;
                        }
                    }
                    Act::Fail => {
                        self.hit(buf.len());
                        return Err(io::Error::new(ErrorKind::Other, "injected write failure"));
                    }
                    Act::Interrupted => {
                        self.hit(buf.len());
                        return Err(io::Error::new(ErrorKind::Interrupted, "injected interruption"));
                    }
                    Act::Zero => {
                        self.hit(buf.len());
                        return Ok(0);
                    }
                }
            }
        }
        if short {
            self.hit(buf.len());
        }
        if self.sink.len() + n > self.max_sink {
            self.overrun = true;
            return Err(io::Error::new(ErrorKind::Other, "sink full: more bytes than the complete encoding"));
        }
        self.sink.extend_from_slice(&buf[..n]);
        Ok(n)
    }
    fn flush(&mut self) -> io::Result<()> {
        Ok(())
    }
}

#[derive(Serialize, Deserialize, Clone, Copy, Debug, PartialEq, Eq, Hash)]
pub enum RAct {
    Interrupted,
    Fail,
}

pub struct FaultyReader<'a> {
    data: &'a [u8],
    /// the stream ends here
    end: usize,
    pub pos: usize,
    /// at most this many bytes per call (0 = unlimited)
    limit: usize,
    pub call: usize,
    dev: Option<(usize, RAct)>,
    pub effective: u32,
}

impl<'a> FaultyReader<'a> {
    pub fn new(data: &'a [u8], end: usize, limit: usize, dev: Option<(usize, RAct)>) -> Self {
        FaultyReader { data, end, pos: 0, limit, call: 0, dev, effective: 0 }
    }
}

impl Read for FaultyReader<'_> {
    fn read(&mut self, buf: &mut [u8]) -> io::Result<usize> {
        let idx = self.call;
        self.call += 1;
        if idx > 2 * self.data.len() + 64 {
            panic!("{BOUND_MSG}: {} read calls on a stream of {} bytes", idx, self.end);
        }
        if buf.is_empty() {
            return Ok(0);
        }
        if let Some((c, a)) = self.dev {
            if c == idx {
                self.effective += 1;
                return Err(match a {
                    RAct::Interrupted => io::Error::new(ErrorKind::Interrupted, "injected interruption"),
                    RAct::Fail => io::Error::new(ErrorKind::Other, "injected read failure"),
                });
            }
        }
        let mut n = buf.len().min(self.end - self.pos);
        if self.limit != 0 {
            n = n.min(self.limit);
        }
        buf[..n].copy_from_slice(&self.data[self.pos..self.pos + n]);
        self.pos += n;
        Ok(n)
    }
}

// ------------------------------------------------------------------------------------------
// objects
// ------------------------------------------------------------------------------------------

#[derive(Serialize, Deserialize, Clone, Copy, Debug, PartialEq, Eq, Hash)]
pub enum Kind {
    U64,
    Usize,
    U8,
    Bool,
    F64,
    VecU64,
    ParmsId,
    Modulus,
    VecModulus,
    Params,
    Plain,
    SecretKey,
    Ct,
    CtFull,
    CtTerms,
    PublicKey,
    KSwitchKeys,
    RelinKeys,
    GaloisKeys,
    Poly,
    Plain1d,
    Plain2d,
    Plain3d,
    Cipher1d,
    Cipher2d,
    Cipher3d,
    Cipher1dTerms,
    Cipher2dTerms,
    Cipher3dTerms,
    RnspCt,
    RnspCtFull,
    RnspCtTerms,
    RnspVecCt,
    RnspPublicKey,
    RnspRelinKeys,
    RnspGaloisKeys,
}

/// One serializable object, self-contained (explicit primes).
#[derive(Serialize, Deserialize, Clone, Debug, PartialEq, Eq, Hash)]
pub struct ObjSpec {
    pub kind: Kind,
    pub spec: ParamSpec,
    /// seeded form (symmetric ciphertext / keys created with save_seed)
    #[serde(default)]
    pub seeded: bool,
    /// kind-specific: scalar value index, ciphertext size (2/3), plaintext form, container shape, galois key set
    #[serde(default)]
    pub variant: u8,
    /// production-size sections only: container length / vector length / plaintext coefficient count (0 = the shape
    /// selected by `variant`); not serialized when 0, so the documents of the small objects are unchanged
    #[serde(default, skip_serializing_if = "is_zero_u32")]
    pub len: u32,
}

fn is_zero_u32(x: &u32) -> bool {
    *x == 0
}

type SerFn = Box<dyn Fn(&mut dyn Write) -> io::Result<usize>>;
type DeFn = Box<dyn Fn(&mut dyn Read) -> io::Result<u64>>;

pub struct Obj {
    ser: SerFn,
    /// deserialize and return the fingerprint of the restored object
    de: DeFn,
    /// serialized_size as reported by the library
    size: usize,
    /// fingerprint the restored object must have (None: the fault-free deserialization defines it)
    ref_fp: Option<u64>,
}

fn ser_s<T: Serializable>(x: &T, mut w: &mut dyn Write) -> io::Result<usize> {
    Serializable::serialize(x, &mut w)
}
fn de_s<T: Serializable>(mut r: &mut dyn Read) -> io::Result<T> {
    <T as Serializable>::deserialize(&mut r)
}
fn ser_c<T: SerializableWithHeContext>(x: &T, ctx: &HeContext, mut w: &mut dyn Write) -> io::Result<usize> {
    SerializableWithHeContext::serialize(x, ctx, &mut w)
}
fn de_c<T: SerializableWithHeContext>(ctx: &HeContext, mut r: &mut dyn Read) -> io::Result<T> {
    <T as SerializableWithHeContext>::deserialize(ctx, &mut r)
}
fn ser_r<T: RnspSerializableWithHeContext>(x: &T, ctx: &RnspHeContext, mut w: &mut dyn Write) -> io::Result<usize> {
    RnspSerializableWithHeContext::serialize(x, ctx, &mut w)
}
fn de_r<T: RnspSerializableWithHeContext>(ctx: &RnspHeContext, mut r: &mut dyn Read) -> io::Result<T> {
    <T as RnspSerializableWithHeContext>::deserialize(ctx, &mut r)
}

fn obj_s<T: Serializable + 'static>(x: T, fp: fn(&T) -> u64) -> Obj {
    let size = Serializable::serialized_size(&x);
    let r = fp(&x);
    Obj { ser: Box::new(move |w| ser_s(&x, w)), de: Box::new(move |r| de_s::<T>(r).map(|y| fp(&y))), size, ref_fp: Some(r) }
}

/// `reference` = what the restored object must look like (the expanded original for seeded objects)
fn obj_c<T: SerializableWithHeContext + 'static>(x: T, reference: &T, ctx: &Arc<HeContext>, fp: fn(&T) -> u64) -> Obj {
    let size = SerializableWithHeContext::serialized_size(&x, ctx);
    let r = fp(reference);
    let (c1, c2) = (ctx.clone(), ctx.clone());
    Obj { ser: Box::new(move |w| ser_c(&x, &c1, w)), de: Box::new(move |r| de_c::<T>(&c2, r).map(|y| fp(&y))), size, ref_fp: Some(r) }
}

fn obj_r<T: RnspSerializableWithHeContext + 'static>(x: T, reference: &T, ctx: &RnspHeContext, fp: fn(&T) -> u64) -> Obj {
    let size = RnspSerializableWithHeContext::serialized_size(&x, ctx);
    let r = fp(reference);
    let (c1, c2) = (ctx.clone(), ctx.clone());
    Obj { ser: Box::new(move |w| ser_r(&x, &c1, w)), de: Box::new(move |r| de_r::<T>(&c2, r).map(|y| fp(&y))), size, ref_fp: Some(r) }
}

// fingerprints -----------------------------------------------------------------------------

fn fp_u64(x: &u64) -> u64 {
    h64(x)
}
fn fp_usize(x: &usize) -> u64 {
    h64(x)
}
fn fp_u8(x: &u8) -> u64 {
    h64(x)
}
fn fp_bool(x: &bool) -> u64 {
    h64(x)
}
fn fp_f64(x: &f64) -> u64 {
    h64(&x.to_bits())
}
fn fp_vec_u64(x: &Vec<u64>) -> u64 {
    h64(x)
}
fn fp_parms_id(x: &ParmsID) -> u64 {
    h64(x)
}
fn fp_modulus(x: &Modulus) -> u64 {
    h64(&x.value())
}
fn fp_vec_modulus(x: &Vec<Modulus>) -> u64 {
    h64(&x.iter().map(|m| m.value()).collect::<Vec<_>>())
}
fn fp_params(p: &EncryptionParameters) -> u64 {
    h64(&(
        p.scheme() as u8,
        p.poly_modulus_degree(),
        p.coeff_modulus().iter().map(|m| m.value()).collect::<Vec<_>>(),
        p.plain_modulus().value(),
        p.use_special_prime_for_encryption(),
        *p.parms_id(),
    ))
}
fn fp_pt(p: &Plaintext) -> u64 {
    he::pt_fingerprint(p)
}
fn fp_sk(s: &SecretKey) -> u64 {
    fp_pt(s.as_plaintext())
}
fn fp_ct(c: &Ciphertext) -> u64 {
    he::ct_fingerprint(c)
}
fn fp_pk(p: &PublicKey) -> u64 {
    fp_ct(p.as_ciphertext())
}
fn fp_ks(k: &KSwitchKeys) -> u64 {
    h64(&(*k.parms_id(), k.keys().iter().map(|v| v.iter().map(fp_pk).collect::<Vec<_>>()).collect::<Vec<_>>()))
}
fn fp_rk(k: &RelinKeys) -> u64 {
    fp_ks(k.as_kswitch_keys())
}
fn fp_gk(k: &GaloisKeys) -> u64 {
    fp_ks(k.as_kswitch_keys())
}
fn fp_p1(p: &Plain1d) -> u64 {
    h64(&(1u8, p.data.iter().map(fp_pt).collect::<Vec<_>>()))
}
fn fp_p2(p: &Plain2d) -> u64 {
    h64(&(2u8, p.data.iter().map(fp_p1).collect::<Vec<_>>()))
}
fn fp_p3(p: &Plain3d) -> u64 {
    h64(&(3u8, p.data.iter().map(fp_p2).collect::<Vec<_>>()))
}
fn fp_c1(p: &Cipher1d) -> u64 {
    h64(&(1u8, p.data.iter().map(fp_ct).collect::<Vec<_>>()))
}
fn fp_c2(p: &Cipher2d) -> u64 {
    h64(&(2u8, p.data.iter().map(fp_c1).collect::<Vec<_>>()))
}
fn fp_c3(p: &Cipher3d) -> u64 {
    h64(&(3u8, p.data.iter().map(fp_c2).collect::<Vec<_>>()))
}
fn fp_rct(c: &RnspCiphertext) -> u64 {
    h64(&c.components.iter().map(fp_ct).collect::<Vec<_>>())
}
fn fp_rvec(c: &Vec<RnspCiphertext>) -> u64 {
    h64(&c.iter().map(fp_rct).collect::<Vec<_>>())
}
fn fp_rpk(c: &RnspPublicKey) -> u64 {
    h64(&c.components.iter().map(fp_pk).collect::<Vec<_>>())
}
fn fp_rrk(c: &RnspRelinKeys) -> u64 {
    h64(&c.components.iter().map(fp_rk).collect::<Vec<_>>())
}
fn fp_rgk(c: &RnspGaloisKeys) -> u64 {
    h64(&c.components.iter().map(fp_gk).collect::<Vec<_>>())
}

/// seeded objects are restored in expanded form
fn expanded<T: ExpandSeed + Clone>(x: &T, ctx: &HeContext) -> T {
    if x.contains_seed() {
        x.clone().expand_seed(ctx)
    } else {
        x.clone()
    }
}

const SEED_FLAG: u64 = u64::MAX;
const SEED_WORDS: usize = 8;
/// second plain modulus of the RNS-plaintext wrappers
const RNSP_T2: u64 = 13;

struct World {
    kit: Kit,
    seed: u64,
    tag: u64,
}

impl World {
    fn new(spec: &ParamSpec, seed: u64, tag: u64) -> Result<World, String> {
        he::env_real(seed, tag);
        let kit = guard(|| Kit::new(spec)).map_err(|p| format!("context/keygen panicked: {p}"))??;
        Ok(World { kit, seed, tag })
    }
    fn fill(&self, what: u64, i: usize) -> u64 {
        h64(&(self.seed, self.tag, what, i))
    }
    fn scheme(&self) -> Scheme {
        self.kit.spec.scheme
    }

    /// synthetic ciphertext at the first data level: residues below the primes, scheme-typical metadata
    fn ct(&self, what: u64, size: usize, seeded: bool) -> Result<Ciphertext, String> {
        let id = self.kit.levels()[0];
        let q = self.kit.moduli_at(&id);
        let n = self.kit.n();
        let k = q.len();
        let size = if seeded { 2 } else { size };
        let mut data = vec![0u64; size * k * n];
        for p in 0..size {
            for j in 0..k {
                for i in 0..n {
                    let idx = (p * k + j) * n + i;
                    data[idx] = self.fill(what, idx) % q[j];
                }
            }
        }
        data[0] = q[0] - 1;
        data[n * k - 1] = 0;
        if seeded {
            if n * k < SEED_WORDS + 1 {
                return Err("polynomial too small to hold a seed".into());
            }
            let base = n * k;
            data[base] = SEED_FLAG;
            for i in 0..SEED_WORDS {
                data[base + 1 + i] = self.fill(what ^ 0x5eed, i);
            }
        }
        let (scale, cf, ntt) = match self.scheme() {
            Scheme::BFV => (1.0, 1, false),
            Scheme::BGV => (1.0, 5 % self.kit.t().max(2), true),
            Scheme::CKKS => (1572864.0, 1, true),
        };
        Ok(Ciphertext::from_members(size, k, n, data, id, scale, cf.max(1), ntt))
    }

    /// for BFV/BGV a genuine symmetric (seeded) encryption when `seeded`, otherwise the synthetic one
    fn ct_any(&self, what: u64, size: usize, seeded: bool) -> Result<Ciphertext, String> {
        if seeded && self.scheme() != Scheme::CKKS && what % 2 == 0 {
            let p = self.kit.plain(&[1, 2, 3]);
            let c = guard(|| self.kit.enc.encrypt_symmetric_new(&p)).map_err(|p| format!("encrypt_symmetric panicked: {p}"))?;
            if !c.contains_seed() {
                return Err("symmetric encryption did not keep its seed".into());
            }
            return Ok(c);
        }
        self.ct(what, size, seeded)
    }

    fn pt(&self, what: u64, ntt_form: bool) -> Plaintext {
        let mut p = Plaintext::new();
        if ntt_form {
            let id = self.kit.levels()[0];
            let q = self.kit.moduli_at(&id);
            let n = self.kit.n();
            let data: Vec<u64> = (0..n * q.len()).map(|i| self.fill(what, i) % q[i / n]).collect();
            p.set_coeff_count(data.len());
            *p.data_mut() = data;
            p.set_parms_id(id);
            p.set_scale(1024.0);
        } else {
            let t = self.kit.t().max(2);
            let len = 1 + (what as usize % 3);
            p.resize(len);
            for i in 0..len {
                p.data_mut()[i] = self.fill(what, i) % t;
            }
        }
        p
    }

    fn cts(&self, count: usize, seeded: bool) -> Result<Vec<Ciphertext>, String> {
        (0..count).map(|i| self.ct_any(100 + i as u64, 2 + i % 2, seeded)).collect()
    }
    fn pts(&self, count: usize) -> Vec<Plaintext> {
        (0..count).map(|i| self.pt(200 + i as u64, i % 2 == 1)).collect()
    }
}

/// container shapes: nested lengths, flattened consumption of `items`
fn shape1<T: Clone>(variant: u8, items: &[T]) -> Vec<T> {
    match variant {
        0 => vec![],
        _ => items[..2].to_vec(),
    }
}
fn shape2<T: Clone>(variant: u8, items: &[T]) -> Vec<Vec<T>> {
    match variant {
        0 => vec![],
        1 => vec![items[..2].to_vec()],
        _ => vec![vec![items[0].clone()], vec![], items[1..3].to_vec()],
    }
}
fn shape3<T: Clone>(variant: u8, items: &[T]) -> Vec<Vec<Vec<T>>> {
    match variant {
        0 => vec![],
        1 => vec![vec![vec![items[0].clone()]]],
        _ => vec![vec![vec![items[0].clone()], vec![]], vec![], vec![items[1..3].to_vec()]],
    }
}

/// `len` > 0 (production-size sections): exactly `len` items; rows of 8 (the last one partial), planes of 4 rows
fn shape1l<T: Clone>(len: u32, variant: u8, items: &[T]) -> Vec<T> {
    if len == 0 {
        return shape1(variant, items);
    }
    items[..len as usize].to_vec()
}
fn shape2l<T: Clone>(len: u32, variant: u8, items: &[T]) -> Vec<Vec<T>> {
    if len == 0 {
        return shape2(variant, items);
    }
    items[..len as usize].chunks(8).map(|r| r.to_vec()).collect()
}
fn shape3l<T: Clone>(len: u32, variant: u8, items: &[T]) -> Vec<Vec<Vec<T>>> {
    if len == 0 {
        return shape3(variant, items);
    }
    shape2l(len, variant, items).chunks(4).map(|p| p.to_vec()).collect()
}

fn terms_for(n: usize) -> Vec<usize> {
    vec![0, 2, n - 1]
}

/// `len` > 0 (production-size sections): `len` evenly spread term indices
fn terms_for_l(n: usize, len: u32) -> Vec<usize> {
    if len == 0 {
        return terms_for(n);
    }
    let len = (len as usize).min(n);
    (0..len).map(|i| i * n / len).collect()
}

pub fn build(o: &ObjSpec, seed: u64) -> Result<Obj, String> {
    let tag = h64(&serde_json::to_string(o).unwrap_or_default());
    let v = o.variant;
    // context-free kinds first
    match o.kind {
        Kind::U64 => return Ok(obj_s([0u64, u64::MAX, 0x0102_0304_0506_0708][v as usize % 3], fp_u64)),
        Kind::Usize => return Ok(obj_s([0usize, 3, usize::MAX][v as usize % 3], fp_usize)),
        Kind::U8 => return Ok(obj_s([0u8, 1, 0xA5][v as usize % 3], fp_u8)),
        Kind::Bool => return Ok(obj_s(v % 2 == 1, fp_bool)),
        Kind::F64 => return Ok(obj_s([0.0f64, -1.5, f64::from_bits(0x7ff8_0000_0000_0001)][v as usize % 3], fp_f64)),
        Kind::VecU64 => {
            let count = if o.len > 0 { o.len as usize } else { v as usize };
            let x: Vec<u64> = (0..count).map(|i| h64(&(seed, tag, i))).collect();
            return Ok(obj_s(x, fp_vec_u64));
        }
        Kind::ParmsId => return Ok(obj_s([h64(&(seed, 1u8)), 0, u64::MAX, h64(&(seed, 2u8))] as ParmsID, fp_parms_id)),
        Kind::Modulus => return Ok(obj_s(Modulus::new(o.spec.q[v as usize % o.spec.q.len()]), fp_modulus)),
        Kind::VecModulus => return Ok(obj_s(o.spec.q.iter().map(|&q| Modulus::new(q)).collect::<Vec<_>>(), fp_vec_modulus)),
        Kind::Params => return Ok(obj_s(o.spec.parms(), fp_params)),
        _ => {}
    }
    let w = World::new(&o.spec, seed, tag)?;
    let ctx = w.kit.ctx.clone();
    let n = o.spec.n;
    match o.kind {
        Kind::Plain if o.len > 0 && v == 0 => {
            // coefficient form with exactly `len` coefficients below t
            let t = w.kit.t().max(2);
            let mut p = Plaintext::new();
            p.resize(o.len as usize);
            for i in 0..o.len as usize {
                p.data_mut()[i] = w.fill(7, i) % t;
            }
            Ok(obj_s(p, fp_pt))
        }
        Kind::Plain => Ok(obj_s(w.pt(7, v == 1), fp_pt)),
        Kind::SecretKey => Ok(obj_s(w.kit.sk.clone(), fp_sk)),
        Kind::Ct => {
            let c = w.ct_any(v as u64, v as usize, o.seeded)?;
            let r = expanded(&c, &ctx);
            Ok(obj_c(c, &r, &ctx, fp_ct))
        }
        Kind::CtFull => {
            let c = w.ct_any(v as u64, v as usize, o.seeded)?;
            let r = fp_ct(&expanded(&c, &ctx));
            let size = c.serialized_full_size(&ctx);
            let (c1, c2) = (ctx.clone(), ctx.clone());
            Ok(Obj {
                ser: Box::new(move |mut wr| c.serialize_full(&c1, &mut wr)),
                de: Box::new(move |mut rd| Ciphertext::deserialize_full(&c2, &mut rd).map(|y| fp_ct(&y))),
                size,
                ref_fp: Some(r),
            })
        }
        Kind::CtTerms => {
            let c = w.ct_any(v as u64, v as usize, o.seeded)?;
            let terms = terms_for_l(n, o.len);
            let size = c.serialized_terms_size(&ctx, terms.len());
            let (c1, c2, t1, t2) = (ctx.clone(), ctx.clone(), terms.clone(), terms);
            Ok(Obj {
                ser: Box::new(move |mut wr| c.serialize_terms(&c1, &t1, &mut wr)),
                de: Box::new(move |mut rd| Ciphertext::deserialize_terms(&c2, &t2, &mut rd).map(|y| fp_ct(&y))),
                size,
                ref_fp: None,
            })
        }
        Kind::PublicKey => {
            let k = guard(|| w.kit.keygen.create_public_key(o.seeded)).map_err(|p| format!("create_public_key panicked: {p}"))?;
            if o.seeded && !k.contains_seed() {
                return Err("public key did not keep its seed".into());
            }
            let r = expanded(&k, &ctx);
            Ok(obj_c(k, &r, &ctx, fp_pk))
        }
        Kind::KSwitchKeys => {
            he::env_real(seed, tag ^ 0x07e7);
            let other = KeyGenerator::new(ctx.clone());
            let k = guard(|| w.kit.keygen.create_keyswitching_key(other.secret_key(), o.seeded)).map_err(|p| format!("create_keyswitching_key panicked: {p}"))?;
            let r = expanded(&k, &ctx);
            Ok(obj_c(k, &r, &ctx, fp_ks))
        }
        Kind::RelinKeys => {
            let k = guard(|| w.kit.keygen.create_relin_keys(o.seeded)).map_err(|p| format!("create_relin_keys panicked: {p}"))?;
            let r = expanded(&k, &ctx);
            Ok(obj_c(k, &r, &ctx, fp_rk))
        }
        Kind::GaloisKeys => {
            // variant 0: one element (all other slots empty); 1: the default set; 2: no element at all
            let k = guard(|| match v {
                0 => w.kit.keygen.create_galois_keys_from_elts(&[3], o.seeded),
                1 => w.kit.keygen.create_galois_keys(o.seeded),
                _ => w.kit.keygen.create_galois_keys_from_elts(&[], o.seeded),
            })
            .map_err(|p| format!("create_galois_keys panicked: {p}"))?;
            let r = expanded(&k, &ctx);
            Ok(obj_c(k, &r, &ctx, fp_gk))
        }
        Kind::Poly => {
            // variant 0: one ciphertext polynomial (with parms id); 1: coefficient-form plaintext (zero id)
            let (data, id, reference) = if v == 0 {
                let c = w.ct(9, 2, false)?;
                (c.poly(1).to_vec(), *c.parms_id(), c.poly(1).to_vec())
            } else {
                if w.scheme() == Scheme::CKKS {
                    return Err("CKKS has no coefficient-form plaintexts".into());
                }
                let p = w.pt(9, false);
                let mut padded = p.data().clone();
                padded.resize(n, 0);
                (p.data().clone(), PARMS_ID_ZERO, padded)
            };
            let size = (PolynomialSerializer {}).serialized_polynomial_size(&ctx, id);
            let (c1, c2) = (ctx.clone(), ctx.clone());
            Ok(Obj {
                ser: Box::new(move |mut wr| PolynomialSerializer::serialize_polynomial(&c1, &mut wr, &data, id)),
                de: Box::new(move |mut rd| PolynomialSerializer::deserialize_polynomial(&c2, &mut rd).map(|y| h64(&y))),
                size,
                ref_fp: Some(h64(&reference)),
            })
        }
        Kind::Plain1d => Ok(obj_s(Plain1d::new(shape1l(o.len, v, &w.pts(3.max(o.len as usize)))), fp_p1)),
        Kind::Plain2d => Ok(obj_s(Plain2d::new(shape2l(o.len, v, &w.pts(3.max(o.len as usize)))), fp_p2)),
        Kind::Plain3d => {
            let x = Plain3d::new_2ds(shape3l(o.len, v, &w.pts(3.max(o.len as usize))).into_iter().map(Plain2d::new).collect());
            Ok(obj_s(x, fp_p3))
        }
        Kind::Cipher1d | Kind::Cipher1dTerms => {
            let x = Cipher1d::new(shape1l(o.len, v, &w.cts(3.max(o.len as usize), o.seeded)?));
            if o.kind == Kind::Cipher1d {
                let r = x.clone().expand_seed(&ctx);
                return Ok(obj_c(x, &r, &ctx, fp_c1));
            }
            let terms = terms_for(n);
            let size = x.serialized_terms_size(&ctx, terms.len());
            let (c1, c2, t1, t2) = (ctx.clone(), ctx.clone(), terms.clone(), terms);
            Ok(Obj {
                ser: Box::new(move |mut wr| x.serialize_terms(&c1, &t1, &mut wr)),
                de: Box::new(move |mut rd| Cipher1d::deserialize_terms(&c2, &t2, &mut rd).map(|y| fp_c1(&y))),
                size,
                ref_fp: None,
            })
        }
        Kind::Cipher2d | Kind::Cipher2dTerms => {
            let x = Cipher2d::new(shape2l(o.len, v, &w.cts(3.max(o.len as usize), o.seeded)?));
            if o.kind == Kind::Cipher2d {
                let r = x.clone().expand_seed(&ctx);
                return Ok(obj_c(x, &r, &ctx, fp_c2));
            }
            let terms = terms_for(n);
            let size = x.serialized_terms_size(&ctx, terms.len());
            let (c1, c2, t1, t2) = (ctx.clone(), ctx.clone(), terms.clone(), terms);
            Ok(Obj {
                ser: Box::new(move |mut wr| x.serialize_terms(&c1, &t1, &mut wr)),
                de: Box::new(move |mut rd| Cipher2d::deserialize_terms(&c2, &t2, &mut rd).map(|y| fp_c2(&y))),
                size,
                ref_fp: None,
            })
        }
        Kind::Cipher3d | Kind::Cipher3dTerms => {
            let x = Cipher3d::new_2ds(shape3l(o.len, v, &w.cts(3.max(o.len as usize), o.seeded)?).into_iter().map(Cipher2d::new).collect());
            if o.kind == Kind::Cipher3d {
                let r = x.clone().expand_seed(&ctx);
                return Ok(obj_c(x, &r, &ctx, fp_c3));
            }
            let terms = terms_for(n);
            let size = x.serialized_terms_size(&ctx, terms.len());
            let (c1, c2, t1, t2) = (ctx.clone(), ctx.clone(), terms.clone(), terms);
            Ok(Obj {
                ser: Box::new(move |mut wr| x.serialize_terms(&c1, &t1, &mut wr)),
                de: Box::new(move |mut rd| Cipher3d::deserialize_terms(&c2, &t2, &mut rd).map(|y| fp_c3(&y))),
                size,
                ref_fp: None,
            })
        }
        Kind::RnspCt | Kind::RnspCtFull | Kind::RnspCtTerms | Kind::RnspVecCt | Kind::RnspPublicKey | Kind::RnspRelinKeys | Kind::RnspGaloisKeys => {
            let mut spec2 = o.spec.clone();
            spec2.t = RNSP_T2;
            let w2 = World::new(&spec2, seed, tag ^ 0x2222)?;
            let rctx = RnspHeContext { components: vec![ctx.clone(), w2.kit.ctx.clone()] };
            let worlds = [&w, &w2];
            let exp_ct = |c: &RnspCiphertext| RnspCiphertext::from_raw_parts(c.components.iter().zip(rctx.components.iter()).map(|(c, x)| expanded(c, x)).collect());
            let mk_ct = |what: u64| -> Result<RnspCiphertext, String> {
                Ok(RnspCiphertext::from_raw_parts(worlds.iter().map(|w| w.ct_any(what, 2 + (what as usize % 2), o.seeded)).collect::<Result<Vec<_>, _>>()?))
            };
            match o.kind {
                Kind::RnspCt => {
                    let c = mk_ct(v as u64)?;
                    let r = exp_ct(&c);
                    Ok(obj_r(c, &r, &rctx, fp_rct))
                }
                Kind::RnspVecCt => {
                    let c: Vec<RnspCiphertext> = (0..v as u64).map(mk_ct).collect::<Result<_, _>>()?;
                    let r: Vec<RnspCiphertext> = c.iter().map(exp_ct).collect();
                    Ok(obj_r(c, &r, &rctx, fp_rvec))
                }
                Kind::RnspCtFull => {
                    let c = mk_ct(v as u64)?;
                    let r = fp_rct(&exp_ct(&c));
                    let size = c.serialized_full_size(&rctx);
                    let (c1, c2) = (rctx.clone(), rctx.clone());
                    Ok(Obj {
                        ser: Box::new(move |mut wr| c.serialize_full(&c1, &mut wr)),
                        de: Box::new(move |mut rd| RnspCiphertext::deserialize_full(&c2, &mut rd).map(|y| fp_rct(&y))),
                        size,
                        ref_fp: Some(r),
                    })
                }
                Kind::RnspCtTerms => {
                    let c = mk_ct(v as u64)?;
                    let terms = terms_for_l(n, o.len);
                    let size = c.serialized_terms_size(&rctx, terms.len());
                    let (c1, c2, t1, t2) = (rctx.clone(), rctx.clone(), terms.clone(), terms);
                    Ok(Obj {
                        ser: Box::new(move |mut wr| c.serialize_terms(&c1, &t1, &mut wr)),
                        de: Box::new(move |mut rd| RnspCiphertext::deserialize_terms(&c2, &t2, &mut rd).map(|y| fp_rct(&y))),
                        size,
                        ref_fp: None,
                    })
                }
                Kind::RnspPublicKey => {
                    let parts: Vec<PublicKey> = guard(|| worlds.iter().map(|w| w.kit.keygen.create_public_key(o.seeded)).collect()).map_err(|p| format!("create_public_key panicked: {p}"))?;
                    let r = RnspPublicKey::from_raw_parts(parts.iter().zip(rctx.components.iter()).map(|(k, x)| expanded(k, x)).collect());
                    Ok(obj_r(RnspPublicKey::from_raw_parts(parts), &r, &rctx, fp_rpk))
                }
                Kind::RnspRelinKeys => {
                    let parts: Vec<RelinKeys> = guard(|| worlds.iter().map(|w| w.kit.keygen.create_relin_keys(o.seeded)).collect()).map_err(|p| format!("create_relin_keys panicked: {p}"))?;
                    let r = RnspRelinKeys::from_raw_parts(parts.iter().zip(rctx.components.iter()).map(|(k, x)| expanded(k, x)).collect());
                    Ok(obj_r(RnspRelinKeys::from_raw_parts(parts), &r, &rctx, fp_rrk))
                }
                _ => {
                    let parts: Vec<GaloisKeys> = guard(|| worlds.iter().map(|w| w.kit.keygen.create_galois_keys_from_elts(&[3, 2 * n - 1], o.seeded)).collect())
                        .map_err(|p| format!("create_galois_keys panicked: {p}"))?;
                    let r = RnspGaloisKeys::from_raw_parts(parts.iter().zip(rctx.components.iter()).map(|(k, x)| expanded(k, x)).collect());
                    Ok(obj_r(RnspGaloisKeys::from_raw_parts(parts), &r, &rctx, fp_rgk))
                }
            }
        }
        _ => Err("unhandled kind".into()),
    }
}

// per-thread cache of the last object built (cases arrive grouped by object); the build is a
// deterministic function of (spec, seed), so caching cannot change any observation
struct Built {
    obj: Obj,
    /// reference encoding (plain Vec<u8> sink)
    bytes: Vec<u8>,
    /// result of the fault-free run, judged once
    baseline: Result<(), (String, String, String)>,
    /// fingerprint every restored object must have
    fp: u64,
}

thread_local! {
    static CACHE: RefCell<Option<(u64, Rc<Result<Built, String>>)>> = const { RefCell::new(None) };
}

/// panic signature: message up to the first ':' (drops the embedded error value) + source file
fn pclass(msg: &str) -> String {
    let head = msg.split(" @ ").next().unwrap_or(msg);
    let loc = msg.split(" @ ").nth(1).unwrap_or("");
    let file = loc.rsplit('/').next().unwrap_or(loc);
    let file = file.split(':').next().unwrap_or(file);
    let head: String = head.split(": ").next().unwrap_or(head).chars().filter(|c| !c.is_ascii_digit()).take(60).collect();
    format!("{}@{}", head.trim(), file)
}

/// source file whose serializers are the entry point of the kind
fn family(k: Kind) -> &'static str {
    match k {
        Kind::Plain1d | Kind::Plain2d | Kind::Plain3d | Kind::Cipher1d | Kind::Cipher2d | Kind::Cipher3d | Kind::Cipher1dTerms | Kind::Cipher2dTerms | Kind::Cipher3dTerms => "matmul",
        Kind::RnspCt | Kind::RnspCtFull | Kind::RnspCtTerms | Kind::RnspVecCt | Kind::RnspPublicKey | Kind::RnspRelinKeys | Kind::RnspGaloisKeys => "rns_plain",
        _ => "serialize",
    }
}

fn io_err(e: &io::Error) -> String {
    format!("{:?}", e.kind())
}

fn build_full(o: &ObjSpec, seed: u64) -> Result<Built, String> {
    let obj = build(o, seed)?;
    let mut bytes: Vec<u8> = vec![];
    let mut baseline = Ok(());
    let r = guard(|| (obj.ser)(&mut bytes));
    match r {
        Err(p) => baseline = Err((format!("panic:{}", pclass(&p)), "fault-free serialization into a Vec<u8> returns Ok".into(), p)),
        Ok(Err(e)) => baseline = Err(("baseline-err".into(), "fault-free serialization into a Vec<u8> returns Ok".into(), format!("Err({e})"))),
        Ok(Ok(n)) => {
            if n != bytes.len() || obj.size != bytes.len() {
                baseline = Err((
                    "baseline-count".into(),
                    "returned count = bytes written = serialized_size".into(),
                    format!("returned {n}, wrote {} bytes, serialized_size {}", bytes.len(), obj.size),
                ));
            }
        }
    }
    let mut fp = obj.ref_fp.unwrap_or(0);
    if baseline.is_ok() {
        let mut rd: &[u8] = &bytes;
        match guard(|| (obj.de)(&mut rd)) {
            Err(p) => baseline = Err((format!("baseline-read-panic:{}", pclass(&p)), "fault-free deserialization returns Ok".into(), p)),
            Ok(Err(e)) => baseline = Err(("baseline-read-err".into(), "fault-free deserialization returns Ok".into(), format!("Err({e})"))),
            Ok(Ok(f)) => match obj.ref_fp {
                Some(r) if r != f => baseline = Err(("baseline-read-mismatch".into(), "restored object equals the original (expanded)".into(), "a different object".into())),
                Some(_) => {
                    if !rd.is_empty() {
                        baseline = Err(("baseline-read-leftover".into(), "the whole encoding is consumed".into(), format!("{} bytes left", rd.len())));
                    }
                }
                None => fp = f,
            },
        }
    }
    Ok(Built { obj, bytes, baseline, fp })
}

fn built(o: &ObjSpec, seed: u64) -> Rc<Result<Built, String>> {
    let key = h64(&(serde_json::to_string(o).unwrap_or_default(), seed));
    let hit = CACHE.with(|c| c.borrow().as_ref().filter(|(k, _)| *k == key).map(|(_, b)| b.clone()));
    if let Some(b) = hit {
        return b;
    }
    let b = Rc::new(build_full(o, seed));
    CACHE.with(|c| *c.borrow_mut() = Some((key, b.clone())));
    b
}


// ------------------------------------------------------------------------------------------
// process aborts (allocation failure inside a (de)serializer) become violations with a replay
// ------------------------------------------------------------------------------------------
//
// A deserializer that takes a length from the wrong bytes asks the allocator for terabytes; the
// allocation fails (address-space limit below) and the runtime aborts the process, which no
// catch_unwind can intercept. Every case therefore registers its replay document in a
// thread-local before it calls into the subject; a SIGABRT handler (async-signal-safe calls
// only: mkdir/open/write/close/_exit) writes that document, prints the VIOLATION line and exits 1.

use std::cell::Cell;
use std::os::raw::{c_char, c_int};

extern "C" {
    fn setrlimit(resource: c_int, rlim: *const [u64; 2]) -> c_int;
    fn signal(signum: c_int, handler: usize) -> usize;
    fn write(fd: c_int, buf: *const u8, n: usize) -> isize;
    fn open(path: *const c_char, flags: c_int, ...) -> c_int;
    fn close(fd: c_int) -> c_int;
    fn mkdir(path: *const c_char, mode: u32) -> c_int;
    fn _exit(code: c_int) -> !;
}

thread_local! {
    /// (path C string, document bytes, VIOLATION line) of the case this thread is executing
    static ABORT_DOC: Cell<[(*const u8, usize); 3]> = const { Cell::new([(std::ptr::null(), 0); 3]) };
    static ABORT_BUF: RefCell<[Vec<u8>; 3]> = const { RefCell::new([Vec::new(), Vec::new(), Vec::new()]) };
}
static ABORT_DIRS: std::sync::OnceLock<[std::ffi::CString; 2]> = std::sync::OnceLock::new();

extern "C" fn on_abort(_sig: c_int) {
    unsafe {
        let d = ABORT_DOC.with(|c| c.get());
        if !d[0].0.is_null() {
            if let Some(dirs) = ABORT_DIRS.get() {
                mkdir(dirs[0].as_ptr(), 0o755);
                mkdir(dirs[1].as_ptr(), 0o755);
            }
            let fd = open(d[0].0 as *const c_char, 0o1101, 0o644 as c_int);
            if fd >= 0 {
                write(fd, d[1].0, d[1].1);
                close(fd);
            }
            write(1, d[2].0, d[2].1);
        }
        _exit(if d[0].0.is_null() { 134 } else { 1 });
    }
}

/// A defective deserializer can ask for terabytes: the address-space limit makes that fail at once instead of
/// exhausting the machine (the check itself needs < 50 MB resident).
fn install_process_guards() {
    const RLIMIT_AS: c_int = 9;
    const SIGABRT: c_int = 6;
    let gib: u64 = std::env::var("VERIF_C15_AS_GIB").ok().and_then(|s| s.parse().ok()).unwrap_or(8);
    let lim = [gib << 30, gib << 30];
    let root = verif_root();
    let c = |p: std::path::PathBuf| std::ffi::CString::new(p.to_string_lossy().as_bytes()).unwrap_or_default();
    let _ = ABORT_DIRS.set([c(root.join("replays")), c(root.join("replays").join("C15"))]);
    unsafe {
        let _ = setrlimit(RLIMIT_AS, &lim);
        signal(SIGABRT, on_abort as usize);
    }
}

/// Registers what to write if the process aborts while this thread executes `case`.
fn arm_abort_record<C: Serialize>(dir: &str, section: &str, o: &ObjSpec, case: &C, seed: u64) {
    let k = key(dir, o, "process-abort");
    let path = verif_root().join("replays").join("C15").join(format!("{:016x}.json", h64(&k)));
    let doc = serde_json::json!({
        "property": "C15", "key": k, "section": section, "case": case,
        "expected": format!("[{}] Ok or Err; the process survives", kind_name(o)),
        "observed": "the process aborted inside the (de)serializer (allocation failure from a garbage length field)",
        "seed": seed, "occurrences": 1,
    });
    let mut p = path.to_string_lossy().as_bytes().to_vec();
    let line = format!("VIOLATION property=C15 replay={}\n", path.display()).into_bytes();
    p.push(0);
    ABORT_BUF.with(|b| {
        let mut b = b.borrow_mut();
        b[0] = p;
        b[1] = serde_json::to_vec_pretty(&doc).unwrap_or_default();
        b[2] = line;
        ABORT_DOC.with(|c| c.set([(b[0].as_ptr(), b[0].len()), (b[1].as_ptr(), b[1].len()), (b[2].as_ptr(), b[2].len())]));
    });
}

fn disarm_abort_record() {
    ABORT_DOC.with(|c| c.set([(std::ptr::null(), 0); 3]));
}

// ------------------------------------------------------------------------------------------
// write side
// ------------------------------------------------------------------------------------------

#[derive(Serialize, Deserialize, Clone, Debug)]
pub struct WCase {
    pub obj: ObjSpec,
    /// prefix script
    pub script: WScript,
    /// the prefix and every extension by up to `depth` further deviations (each at a later call index) are executed
    pub depth: u8,
}

#[derive(Default)]
struct WStats {
    scripts: u64,
    ok: u64,
    errs: BTreeMap<String, u64>,
    effective: u64,
}

type FailInfo = (String, String, String);

fn acts_label(s: &WScript) -> String {
    let mut v: Vec<&str> = vec![];
    if s.cap.is_some() {
        v.push("cap");
    }
    for d in &s.devs {
        v.push(match d.act {
            Act::Accept(_) => "short",
            Act::Fail => "fail",
            Act::Interrupted => "intr",
            Act::Zero => "zero",
        });
    }
    if v.is_empty() {
        "none".into()
    } else {
        v.join("+")
    }
}

/// One fault script on the real serializer; returns the recorded call trace.
fn run_wscript(b: &Built, s: &WScript, st: &mut WStats) -> Result<Vec<u32>, FailInfo> {
    let mut w = FaultyWriter::new(s, b.bytes.len());
    let r = guard(|| (b.obj.ser)(&mut w));
    st.scripts += 1;
    if w.effective > 0 {
        st.effective += 1;
    }
    let describe = || format!("writer script {} (faults: {})", serde_json::to_string(s).unwrap_or_default(), acts_label(s));
    if w.overrun {
        return Err((
            format!("writes-beyond-encoding:{}:offer{}", acts_label(s), w.first_offer),
            format!("{}: at most the {} bytes of the encoding are ever accepted by the sink in total", describe(), b.bytes.len()),
            format!("the serializer offered more (result {:?})", r.as_ref().map(|x| x.as_ref().map_err(|e| e.kind()))),
        ));
    }
    match r {
        Err(p) if p.starts_with(BOUND_MSG) => Err((format!("unbounded-writes:{}:offer{}", acts_label(s), w.first_offer), format!("{}: the call returns after finitely many writes", describe()), p)),
        Err(p) => Err((format!("panic:{}", pclass(&p)), format!("{}: Ok with the complete encoding, or Err; never a panic", describe()), p)),
        Ok(Err(e)) => {
            if w.effective == 0 {
                return Err(("err-without-fault".into(), format!("{}: no fault was injected, so Ok", describe()), format!("Err({e})")));
            }
            *st.errs.entry(io_err(&e)).or_insert(0) += 1;
            Ok(w.trace)
        }
        Ok(Ok(n)) => {
            if w.sink != b.bytes {
                let common = w.sink.iter().zip(b.bytes.iter()).take_while(|(a, b)| a == b).count();
                return Err((
                    format!("ok-but-sink-differs:{}:offer{}", acts_label(s), w.first_offer),
                    format!("{}: Ok only if the sink holds the complete {}-byte encoding", describe(), b.bytes.len()),
                    format!("Ok({n}) with {} bytes in the sink (first difference at offset {common})", w.sink.len()),
                ));
            }
            if n != b.bytes.len() {
                return Err((format!("ok-wrong-count:{}:offer{}", acts_label(s), w.first_offer), format!("{}: Ok({})", describe(), b.bytes.len()), format!("Ok({n}) (sink complete)")));
            }
            st.ok += 1;
            Ok(w.trace)
        }
    }
}

/// deviations possible at a call that offers `offered` bytes under an optional uniform cap
fn options(offered: u32, cap: Option<u8>) -> Vec<Act> {
    let mut v = vec![];
    let eff = match cap {
        Some(c) => offered.min(c as u32),
        None => offered,
    };
    for k in 1..=7u32 {
        if k < eff {
            v.push(Act::Accept(k as u8));
        }
    }
    if offered > 0 {
        v.extend([Act::Fail, Act::Interrupted, Act::Zero]);
    }
    v
}

fn explore(b: &Built, s: &WScript, depth: u8, st: &mut WStats) -> Result<(), (WScript, FailInfo)> {
    let trace = run_wscript(b, s, st).map_err(|f| (s.clone(), f))?;
    if depth == 0 {
        return Ok(());
    }
    let from = s.devs.last().map(|d| d.call + 1).unwrap_or(0);
    for j in from..trace.len() {
        for act in options(trace[j], s.cap) {
            let mut s2 = s.clone();
            s2.devs.push(Dev { call: j, act });
            explore(b, &s2, depth - 1, st)?;
        }
    }
    Ok(())
}

fn symptom(class: &str) -> &str {
    class.split(':').next().unwrap_or(class)
}

/// Reduce a failing script to a minimal one with the same symptom (drop the cap, drop single deviations — with and
/// without shifting the later call indices by the one retry the dropped deviation caused), so that the violation
/// signature names only the deviations that matter.
fn shrink(b: &Built, mut s: WScript, mut f: FailInfo) -> (WScript, FailInfo) {
    let mut dummy = WStats::default();
    loop {
        let mut cands: Vec<WScript> = vec![];
        if s.cap.is_some() {
            // without the cap the same stream positions are reached at other call indices: re-aim the deviations
            let sink_starts = |sc: &WScript| {
                let mut w = FaultyWriter::new(sc, b.bytes.len());
                let _ = guard(|| (b.obj.ser)(&mut w));
                w.starts
            };
            let (with_cap, without) = (sink_starts(&s), sink_starts(&WScript::default()));
            let mut devs = vec![];
            for d in &s.devs {
                if let Some(&pos) = with_cap.get(d.call) {
                    if let Some(j) = without.iter().rposition(|&st| st <= pos) {
                        devs.push(Dev { call: j, act: d.act });
                    }
                }
            }
            devs.dedup_by_key(|d| d.call);
            cands.push(WScript { cap: None, devs });
            cands.push(WScript { cap: None, devs: s.devs.clone() });
        }
        for i in 0..s.devs.len() {
            let mut shifted = s.clone();
            shifted.devs.remove(i);
            let plain = shifted.clone();
            for d in shifted.devs.iter_mut().skip(i) {
                d.call = d.call.saturating_sub(1);
            }
            if shifted != plain {
                cands.push(shifted);
            }
            cands.push(plain);
        }
        let mut better = None;
        for c in cands {
            if c.cap.is_none() && c.devs.is_empty() {
                continue;
            }
            if let Err(f2) = run_wscript(b, &c, &mut dummy) {
                if symptom(&f2.0) == symptom(&f.0) {
                    better = Some((c, f2));
                    break;
                }
            }
        }
        match better {
            Some((c, f2)) => {
                s = c;
                f = f2;
            }
            None => return (s, f),
        }
    }
}

fn kind_name(o: &ObjSpec) -> String {
    format!("{:?}", o.kind)
}

/// violation signature: direction, source-file family of the entry point, symptom class (the object kind and the
/// exact script are in the case / expected text)
fn key(dir: &str, o: &ObjSpec, class: &str) -> String {
    format!("{dir}:{}:{class}", family(o.kind))
}

fn check_write(c: &WCase, seed: u64, section: &str) -> CaseOut {
    arm_abort_record("write", section, &c.obj, c, seed);
    let out = check_write_inner(c, seed);
    disarm_abort_record();
    out
}

fn check_write_inner(c: &WCase, seed: u64) -> CaseOut {
    let b = built(&c.obj, seed);
    let b = match b.as_ref() {
        Ok(b) => b,
        Err(e) => return CaseOut::skip(&format!("object cannot be built: {e}")),
    };
    if let Err((class, exp, obs)) = &b.baseline {
        return CaseOut::fail(key("write", &c.obj, class), format!("[{}] {exp}", kind_name(&c.obj)), obs.clone());
    }
    let mut st = WStats::default();
    match explore(b, &c.script, c.depth, &mut st) {
        Err((s, f)) => {
            let (_, (class, exp, obs)) = shrink(b, s, f);
            CaseOut::fail(key("write", &c.obj, &class), format!("[{}] {exp}", kind_name(&c.obj)), obs)
        }
        Ok(()) => {
            let errs: Vec<&String> = st.errs.keys().collect();
            CaseOut::pass(st.effective > 0, h64(&(kind_name(&c.obj), st.ok > 0, errs, st.effective > 0)), st.scripts)
        }
    }
}

// ------------------------------------------------------------------------------------------
// read side
// ------------------------------------------------------------------------------------------

#[derive(Serialize, Deserialize, Clone, Copy, Debug, PartialEq, Eq)]
pub enum RMode {
    /// every truncation offset 0..len-1, then the complete stream
    Truncate,
    /// complete stream, one Interrupted resp. one hard error at every read-call index
    Faults,
    /// every truncation offset combined with one Interrupted at every read-call index
    TruncateInterrupted,
}

#[derive(Serialize, Deserialize, Clone, Debug)]
pub struct RCase {
    pub obj: ObjSpec,
    /// at most this many bytes per read call (0 = unlimited)
    pub limit: usize,
    pub mode: RMode,
}

#[derive(Default)]
struct RStats {
    scripts: u64,
    ok: u64,
    errs: BTreeMap<String, u64>,
}

/// One reader script. `must_fail`: the stream is incomplete.
fn run_rscript(b: &Built, end: usize, limit: usize, dev: Option<(usize, RAct)>, st: &mut RStats) -> Result<usize, FailInfo> {
    let mut r = FaultyReader::new(&b.bytes, end, limit, dev);
    let res = guard(|| (b.obj.de)(&mut r));
    st.scripts += 1;
    let len = b.bytes.len();
    let describe = || {
        format!(
            "stream of {len} bytes cut after {end}, at most {} bytes per read call, deviation {:?}",
            if limit == 0 { "unlimited".to_string() } else { limit.to_string() },
            dev
        )
    };
    match res {
        Err(p) if p.starts_with(BOUND_MSG) => Err(("unbounded-reads".into(), format!("{}: the call returns after finitely many reads", describe()), p)),
        Err(p) => Err((format!("panic:{}", pclass(&p)), format!("{}: Err (or the exact object for a complete stream); never a panic", describe()), p)),
        Ok(Err(e)) => {
            if end == len && r.effective == 0 {
                return Err(("complete-stream-err".into(), format!("{}: the object is restored", describe()), format!("Err({e})")));
            }
            *st.errs.entry(io_err(&e)).or_insert(0) += 1;
            Ok(r.call)
        }
        Ok(Ok(fp)) => {
            if end < len {
                return Err((
                    "truncated-ok".into(),
                    format!("{}: Err, the encoding is incomplete", describe()),
                    format!("Ok(object) after consuming {} bytes in {} read calls{}", r.pos, r.call, if fp == b.fp { " (equal to the original!)" } else { "" }),
                ));
            }
            if fp != b.fp {
                return Err(("restored-differs".into(), format!("{}: the restored object equals the original", describe()), "Ok(a different object)".into()));
            }
            if r.pos != len {
                return Err(("restored-leftover".into(), format!("{}: all {len} bytes consumed", describe()), format!("{} consumed", r.pos)));
            }
            st.ok += 1;
            Ok(r.call)
        }
    }
}

fn check_read(c: &RCase, seed: u64, section: &str) -> CaseOut {
    arm_abort_record("read", section, &c.obj, c, seed);
    let out = check_read_inner(c, seed);
    disarm_abort_record();
    out
}

fn check_read_inner(c: &RCase, seed: u64) -> CaseOut {
    let b = built(&c.obj, seed);
    let b = match b.as_ref() {
        Ok(b) => b,
        Err(e) => return CaseOut::skip(&format!("object cannot be built: {e}")),
    };
    if let Err((class, exp, obs)) = &b.baseline {
        return CaseOut::fail(key("read", &c.obj, class), format!("[{}] {exp}", kind_name(&c.obj)), obs.clone());
    }
    let len = b.bytes.len();
    let mut st = RStats::default();
    let r = (|| -> Result<(), FailInfo> {
        match c.mode {
            RMode::Truncate => {
                for end in 0..=len {
                    run_rscript(b, end, c.limit, None, &mut st)?;
                }
            }
            RMode::Faults => {
                let calls = run_rscript(b, len, c.limit, None, &mut st)?;
                for i in 0..calls {
                    run_rscript(b, len, c.limit, Some((i, RAct::Interrupted)), &mut st)?;
                    run_rscript(b, len, c.limit, Some((i, RAct::Fail)), &mut st)?;
                }
            }
            RMode::TruncateInterrupted => {
                for end in 0..len {
                    let calls = run_rscript(b, end, c.limit, None, &mut st)?;
                    for i in 0..calls {
                        run_rscript(b, end, c.limit, Some((i, RAct::Interrupted)), &mut st)?;
                    }
                }
            }
        }
        Ok(())
    })();
    match r {
        Err((class, exp, obs)) => CaseOut::fail(key("read", &c.obj, &class), format!("[{}] {exp}", kind_name(&c.obj)), obs),
        Ok(()) => {
            let errs: Vec<&String> = st.errs.keys().collect();
            CaseOut::pass(st.scripts > 1, h64(&(kind_name(&c.obj), st.ok > 0, errs, c.limit)), st.scripts)
        }
    }
}

// ------------------------------------------------------------------------------------------
// enumeration
// ------------------------------------------------------------------------------------------

fn objects(thorough: bool) -> Vec<ObjSpec> {
    let mut v: Vec<ObjSpec> = vec![];
    let o = |kind: Kind, spec: &ParamSpec, seeded: bool, variant: u8| ObjSpec { kind, spec: spec.clone(), seeded, variant, len: 0 };
    // N = 8: two 1-byte primes (data level: one prime), three 1-byte primes (data level: two primes, room for a seed),
    // a 2-byte + 3-byte prime; N = 4: the smallest
    let s2 = |s: Scheme| ParamSpec::new(s, 8, vec![97, 193], 17);
    let s3 = |s: Scheme| ParamSpec::new(s, 8, vec![97, 193, 241], 17);
    let sw = |s: Scheme| ParamSpec::new(s, 8, vec![12289, 65537], 17);
    let s4 = |s: Scheme| ParamSpec::new(s, 4, vec![73, 89], 17);
    let bfv2 = s2(Scheme::BFV);

    for variant in 0..3 {
        for k in [Kind::U64, Kind::Usize, Kind::U8, Kind::F64] {
            v.push(o(k, &bfv2, false, variant));
        }
    }
    v.push(o(Kind::Bool, &bfv2, false, 0));
    v.push(o(Kind::Bool, &bfv2, false, 1));
    v.push(o(Kind::VecU64, &bfv2, false, 0));
    v.push(o(Kind::VecU64, &bfv2, false, 3));
    v.push(o(Kind::ParmsId, &bfv2, false, 0));
    v.push(o(Kind::Modulus, &bfv2, false, 0));
    v.push(o(Kind::Modulus, &sw(Scheme::BFV), false, 1));
    v.push(o(Kind::VecModulus, &s3(Scheme::BFV), false, 0));
    for s in Scheme::all() {
        v.push(o(Kind::Params, &s2(s), false, 0));
    }
    let mut sp = s3(Scheme::BGV);
    sp.special_enc = true;
    v.push(o(Kind::Params, &sp, false, 0));

    for s in Scheme::all() {
        // plaintexts, secret key
        v.push(o(Kind::Plain, &s2(s), false, 1));
        if s != Scheme::CKKS {
            v.push(o(Kind::Plain, &s2(s), false, 0));
        }
        v.push(o(Kind::SecretKey, &s4(s), false, 0));
        // ciphertexts, three formats: size 2 and 3 unseeded (one data prime), seeded (two data primes)
        for k in [Kind::Ct, Kind::CtFull, Kind::CtTerms] {
            v.push(o(k, &s2(s), false, 2));
            v.push(o(k, &s2(s), false, 3));
            v.push(o(k, &s3(s), true, 2));
            v.push(o(k, &s3(s), true, 3)); // synthetic seeded for every scheme (odd variant)
        }
        v.push(o(Kind::Ct, &s4(s), false, 2));
        v.push(o(Kind::Poly, &s2(s), false, 0));
        if s != Scheme::CKKS {
            v.push(o(Kind::Poly, &s2(s), false, 1));
        }
        // keys
        for seeded in [false, true] {
            v.push(o(Kind::PublicKey, &s2(s), seeded, 0));
            v.push(o(Kind::RelinKeys, &s2(s), seeded, 0));
            v.push(o(Kind::KSwitchKeys, &s2(s), seeded, 0));
            v.push(o(Kind::GaloisKeys, &s2(s), seeded, 0));
        }
        v.push(o(Kind::PublicKey, &s4(s), false, 0));
    }
    v.push(o(Kind::Ct, &sw(Scheme::BFV), false, 2));
    v.push(o(Kind::CtTerms, &sw(Scheme::BGV), false, 2));
    v.push(o(Kind::PublicKey, &sw(Scheme::CKKS), true, 0));
    v.push(o(Kind::RelinKeys, &s3(Scheme::BFV), true, 0));
    v.push(o(Kind::GaloisKeys, &s2(Scheme::BFV), true, 1));
    v.push(o(Kind::GaloisKeys, &s2(Scheme::BGV), false, 1));
    v.push(o(Kind::GaloisKeys, &s2(Scheme::CKKS), false, 2));

    // containers: empty, regular, ragged
    for shape in 0..3u8 {
        for (s, seeded) in [(Scheme::BFV, false), (Scheme::BGV, true), (Scheme::CKKS, false)] {
            let spec = if seeded { s3(s) } else { s2(s) };
            if shape == 0 && s != Scheme::BFV {
                continue;
            }
            for k in [Kind::Plain1d, Kind::Plain2d, Kind::Plain3d] {
                if !(shape == 2 && k == Kind::Plain1d) && !seeded {
                    v.push(o(k, &spec, false, shape));
                }
            }
            for k in [Kind::Cipher1d, Kind::Cipher2d, Kind::Cipher3d, Kind::Cipher1dTerms, Kind::Cipher2dTerms, Kind::Cipher3dTerms] {
                if !(shape == 2 && matches!(k, Kind::Cipher1d | Kind::Cipher1dTerms)) {
                    v.push(o(k, &spec, seeded && shape != 0, shape));
                }
            }
        }
    }
    // RNS-plaintext wrappers
    for s in [Scheme::BFV, Scheme::BGV] {
        for k in [Kind::RnspCt, Kind::RnspCtFull, Kind::RnspCtTerms] {
            v.push(o(k, &s2(s), false, 2));
            v.push(o(k, &s3(s), true, 2));
        }
        v.push(o(Kind::RnspVecCt, &s2(s), false, 0));
        v.push(o(Kind::RnspVecCt, &s2(s), false, 2));
        for seeded in [false, true] {
            v.push(o(Kind::RnspPublicKey, &s2(s), seeded, 0));
            v.push(o(Kind::RnspRelinKeys, &s2(s), seeded, 0));
        }
        v.push(o(Kind::RnspGaloisKeys, &s2(s), s == Scheme::BFV, 0));
    }
    // the largest quick objects: default Galois key set at N = 16 with three primes (two-entry keys), 2-3 KB
    let big = ParamSpec::new(Scheme::BFV, 16, vec![97, 193, 257], 17);
    v.push(o(Kind::GaloisKeys, &big, false, 1));
    v.push(o(Kind::GaloisKeys, &big, true, 1));
    if thorough {
        // the largest object: default Galois key set, N = 16, 4/5/8-byte residues (~8 KB, ~7700 write calls)
        let big_wide = ParamSpec::new(Scheme::BGV, 16, he::chain(16, &[30, 40, 60]), 17);
        v.push(o(Kind::GaloisKeys, &big_wide, false, 1));
        v.push(o(Kind::GaloisKeys, &big_wide, true, 1));
        // wider primes (4 and 8 bytes per residue), N = 16 keys with the default Galois set, three-prime keys
        for s in Scheme::all() {
            let wide = ParamSpec::new(s, 8, he::chain(8, &[30, 60]), 17);
            let n16 = ParamSpec::new(s, 16, vec![97, 193, 257], 17);
            // seeded ciphertexts need two data primes at N = 8 (a seed takes 9 words)
            let wide3 = ParamSpec::new(s, 8, he::chain(8, &[30, 40, 60]), 17);
            for k in [Kind::Ct, Kind::CtFull, Kind::CtTerms, Kind::PublicKey, Kind::RelinKeys] {
                v.push(o(k, &wide, false, 2));
                let ct = matches!(k, Kind::Ct | Kind::CtFull | Kind::CtTerms);
                v.push(o(k, if ct { &wide3 } else { &wide }, true, 2));
            }
            for seeded in [false, true] {
                v.push(o(Kind::GaloisKeys, &n16, seeded, 1));
                v.push(o(Kind::RelinKeys, &n16, seeded, 0));
                v.push(o(Kind::Ct, &n16, seeded, 3));
                v.push(o(Kind::Cipher3d, &n16, seeded, 2));
            }
        }
    }
    let mut seen = std::collections::HashSet::new();
    v.retain(|x| seen.insert(x.clone()));
    v
}

struct Listed {
    obj: ObjSpec,
    /// offered length per write call of the fault-free run
    trace: Vec<u32>,
    len: usize,
}

/// The listing is a deterministic function of (tier, seed); `sections` is called once per recorded replay plus once for
/// the run, so it is computed once per process.
fn listing(cfg: &RunCfg) -> Arc<Vec<Listed>> {
    static SMALL_LIST: std::sync::Mutex<Vec<((bool, u64), Arc<Vec<Listed>>)>> = std::sync::Mutex::new(Vec::new());
    let k = (cfg.thorough(), cfg.seed);
    let mut cache = SMALL_LIST.lock().unwrap_or_else(|e| e.into_inner());
    if let Some((_, l)) = cache.iter().find(|(kk, _)| *kk == k) {
        return l.clone();
    }
    let l = Arc::new(listing_uncached(cfg));
    cache.push((k, l.clone()));
    l
}

/// Builds every object once (main thread) to learn its write-call trace and encoding length.
fn listing_uncached(cfg: &RunCfg) -> Vec<Listed> {
    let mut out = vec![];
    for o in objects(cfg.thorough()) {
        let b = build_full(&o, cfg.seed);
        let (trace, len) = match &b {
            Ok(b) if b.baseline.is_ok() => {
                let s = WScript::default();
                let mut w = FaultyWriter::new(&s, b.bytes.len());
                let _ = guard(|| (b.obj.ser)(&mut w));
                (w.trace, b.bytes.len())
            }
            // unbuildable objects and broken baselines are reported by the cases themselves
            Err(e) => {
                eprintln!("[C15] object {:?} {} seeded={} variant={} cannot be built: {e}", o.kind, o.spec.label(), o.seeded, o.variant);
                (vec![8], 8)
            }
            _ => (vec![8], 8),
        };
        out.push(Listed { obj: o, trace, len });
    }
    heathcliff_thread_init();
    out.sort_by_key(|l| l.trace.len());
    if std::env::var("VERIF_C15_LIST").is_ok() {
        for l in &out {
            eprintln!("[C15] object {:?} {} seeded={} variant={}: {} B, {} write calls", l.obj.kind, l.obj.spec.label(), l.obj.seeded, l.obj.variant, l.len, l.trace.len());
        }
    }
    out
}

// ------------------------------------------------------------------------------------------
// production-size objects: structured fault families (`big_write`, `big_read`)
// ------------------------------------------------------------------------------------------
//
// The complete enumerations above are affordable only for encodings of a few KB. Code that is blocked, buffered or
// switches to a bulk path by SIZE (a component of >= 4096 bytes, >= 4096 data words, more than 8 / 16 primes, a
// container of more than 64 / 256 entries) never runs there. These sections drive the same oracle over objects whose
// encodings cross 4 KiB, 32 KiB, 64 KiB and 1 MiB, with a fault family that is derived from the recorded call trace
// of the serializer under test (so it follows whatever call granularity the code has) and grows only logarithmically
// with the number of calls:
//
//  * SELECTED CALLS of a trace of m calls: all of them if m <= 768, otherwise `pick` (the first 32, the last 32 and
//    the entries 2^k - 1, 2^k, 2^k + 1 for every k) applied to three lists: all calls, the calls at which the offered
//    length changes (with their predecessors: the borders between header fields, components and container entries),
//    and the bulk calls (more than 8 bytes offered).
//  * write deviation at a selected call offering `o` bytes (`e` = min(o, cap) under a uniform cap): accept k bytes for
//    k in {1, e-1, 4095, 4096, 4097}, k < e; Err(Other); Err(Interrupted); Ok(0). Each alone; under each uniform cap of
//    {none, 1, 7, 4096} bytes per call (positions re-derived from the trace under the cap); and, at bulk calls, the
//    short accept followed by a second deviation at the retry call.
//  * truncation offsets of an encoding of `len` bytes: 0..256, len-256..len, 2^k - 1, 2^k, 2^k + 1 and 4096 j - 1,
//    4096 j, 4096 j + 1 for all k, j; per-call read limits {1, 7, 4096, unlimited}.
//  * read deviation at a selected read call asking for `o` bytes: Err(Interrupted), Err(Other), or deliver only k bytes
//    for k in {1, o-1, 4095, 4096, 4097}, k < min(o, limit).

#[derive(Serialize, Deserialize, Clone, Copy, Debug, PartialEq, Eq, Hash)]
pub enum BAct {
    /// accept / deliver only this many bytes (effective only if smaller than what the call would transfer anyway)
    Short(u32),
    Fail,
    Interrupted,
    /// writers only: Ok(0) on a non-empty buffer
    Zero,
}

#[derive(Serialize, Deserialize, Clone, Copy, Debug, PartialEq, Eq)]
pub enum BFam {
    /// writer accepting at most `cap` bytes per call (0 = unlimited): fault-free run, every single deviation at the
    /// selected calls, and short-accept + deviation-at-the-retry at the selected bulk calls
    Write { cap: u32 },
    /// structured truncation offsets + the complete stream, at most `limit` bytes per read call (0 = unlimited)
    Trunc { limit: usize },
    /// complete stream, one deviation at every selected read call
    ReadFaults { limit: usize },
}

#[derive(Serialize, Deserialize, Clone, Debug)]
pub struct BCase {
    pub obj: ObjSpec,
    pub fam: BFam,
}

const BIG_ALL_CALLS: usize = 768;
const BIG_EDGE: usize = 32;
const BIG_SHORTS: [u32; 3] = [4095, 4096, 4097];

/// indices into a list of `m` entries: the first 32, the last 32, and 2^k - 1, 2^k, 2^k + 1 for every k
fn pick(m: usize) -> Vec<usize> {
    let mut v: Vec<usize> = vec![];
    if m <= 2 * BIG_EDGE {
        return (0..m).collect();
    }
    v.extend(0..BIG_EDGE);
    v.extend(m - BIG_EDGE..m);
    let mut p = 1usize;
    while p - 1 < m {
        for x in [p - 1, p, p + 1] {
            if x < m {
                v.push(x);
            }
        }
        p <<= 1;
    }
    v.sort_unstable();
    v.dedup();
    v
}

/// the selected calls of a recorded trace (offered / requested length per call)
fn selected_calls(trace: &[u32]) -> Vec<usize> {
    let m = trace.len();
    if m <= BIG_ALL_CALLS {
        return (0..m).collect();
    }
    let mut v = pick(m);
    let mut borders: Vec<usize> = vec![];
    for j in 1..m {
        if trace[j] != trace[j - 1] {
            if borders.last() != Some(&(j - 1)) {
                borders.push(j - 1);
            }
            borders.push(j);
        }
    }
    v.extend(pick(borders.len()).into_iter().map(|i| borders[i]));
    let bulk = bulk_calls(trace);
    v.extend(pick(bulk.len()).into_iter().map(|i| bulk[i]));
    v.sort_unstable();
    v.dedup();
    v
}

fn bulk_calls(trace: &[u32]) -> Vec<usize> {
    (0..trace.len()).filter(|&j| trace[j] > 8).collect()
}

/// short counts for a call that would transfer `e` bytes
fn short_counts(e: u32) -> Vec<u32> {
    let mut v: Vec<u32> = vec![];
    for k in [1, e.saturating_sub(1), BIG_SHORTS[0], BIG_SHORTS[1], BIG_SHORTS[2]] {
        if k >= 1 && k < e && !v.contains(&k) {
            v.push(k);
        }
    }
    v
}

fn trunc_offsets(len: usize) -> Vec<usize> {
    let mut v: Vec<usize> = vec![];
    v.extend(0..len.min(256));
    v.extend(len.saturating_sub(256)..len);
    let mut p = 1usize;
    while p - 1 < len {
        v.extend([p - 1, p, p + 1]);
        p <<= 1;
    }
    let mut j = 4096usize;
    while j - 1 < len {
        v.extend([j - 1, j, j + 1]);
        j += 4096;
    }
    v.retain(|&x| x < len);
    v.sort_unstable();
    v.dedup();
    v
}

fn offer_class(o: u32) -> &'static str {
    if o <= 8 {
        "offer<=8"
    } else if o <= 4096 {
        "offer<=4096"
    } else {
        "offer>4096"
    }
}

/// Fault-injecting writer for large encodings: instead of keeping a second copy it compares what it accepts with the
/// reference encoding on the fly (O(1) memory per script), and records the call trace only on request.
struct BigWriter<'a> {
    reference: &'a [u8],
    pos: usize,
    cap: usize,
    devs: &'a [(usize, BAct)],
    call: usize,
    record: Option<Vec<u32>>,
    effective: u32,
    first_offer: u32,
    overrun: bool,
    /// offset of the first accepted byte that differs from the reference encoding
    mismatch: Option<usize>,
}

impl<'a> BigWriter<'a> {
    fn new(reference: &'a [u8], cap: u32, devs: &'a [(usize, BAct)], record: bool) -> Self {
        BigWriter { reference, pos: 0, cap: cap as usize, devs, call: 0, record: record.then(Vec::new), effective: 0, first_offer: 0, overrun: false, mismatch: None }
    }
    /// `first_offer` holds the LARGEST offer a fault took effect on (under a uniform cap the first one is always a
    /// header field; the signature should name the call class that matters)
    fn hit(&mut self, offered: usize) {
        self.first_offer = self.first_offer.max(offered as u32);
        self.effective += 1;
    }
}

impl Write for BigWriter<'_> {
    fn write(&mut self, buf: &[u8]) -> io::Result<usize> {
        let idx = self.call;
        self.call += 1;
        if idx > 2 * self.reference.len() + 64 {
            panic!("{BOUND_MSG}: {} write calls for an encoding of {} bytes", idx, self.reference.len());
        }
        if let Some(t) = self.record.as_mut() {
            t.push(buf.len() as u32);
        }
        if buf.is_empty() {
            return Ok(0);
        }
        let mut n = buf.len();
        let mut short = false;
        if self.cap != 0 && self.cap < n {
            n = self.cap;
            short = true;
        }
        for &(c, act) in self.devs.iter() {
            if c == idx {
                match act {
                    BAct::Short(k) => {
                        if (k as usize) < n {
                            n = k as usize;
                            short = true;
                        }
                    }
                    BAct::Fail => {
                        self.hit(buf.len());
                        return Err(io::Error::new(ErrorKind::Other, "injected write failure"));
                    }
                    BAct::Interrupted => {
                        self.hit(buf.len());
                        return Err(io::Error::new(ErrorKind::Interrupted, "injected interruption"));
                    }
                    BAct::Zero => {
                        self.hit(buf.len());
                        return Ok(0);
                    }
                }
            }
        }
        if short {
            self.hit(buf.len());
        }
        if self.pos + n > self.reference.len() {
            self.overrun = true;
            return Err(io::Error::new(ErrorKind::Other, "sink full: more bytes than the complete encoding"));
        }
        if self.mismatch.is_none() && buf[..n] != self.reference[self.pos..self.pos + n] {
            let d = buf[..n].iter().zip(&self.reference[self.pos..]).take_while(|(a, b)| a == b).count();
            self.mismatch = Some(self.pos + d);
        }
        self.pos += n;
        Ok(n)
    }
    fn flush(&mut self) -> io::Result<()> {
        Ok(())
    }
}

/// Reader over a (possibly truncated) encoding with a per-call limit and at most one deviation; records the requested
/// length per call on request.
struct BigReader<'a> {
    data: &'a [u8],
    end: usize,
    pos: usize,
    limit: usize,
    call: usize,
    dev: Option<(usize, BAct)>,
    record: Option<Vec<u32>>,
    /// injected errors (short deliveries are legal reader behaviour, not faults)
    errors: u32,
    shorts: u32,
}

impl<'a> BigReader<'a> {
    fn new(data: &'a [u8], end: usize, limit: usize, dev: Option<(usize, BAct)>, record: bool) -> Self {
        BigReader { data, end, pos: 0, limit, call: 0, dev, record: record.then(Vec::new), errors: 0, shorts: 0 }
    }
}

impl Read for BigReader<'_> {
    fn read(&mut self, buf: &mut [u8]) -> io::Result<usize> {
        let idx = self.call;
        self.call += 1;
        if idx > 2 * self.data.len() + 64 {
            panic!("{BOUND_MSG}: {} read calls on a stream of {} bytes", idx, self.end);
        }
        if let Some(t) = self.record.as_mut() {
            t.push(buf.len() as u32);
        }
        if buf.is_empty() {
            return Ok(0);
        }
        let mut n = buf.len().min(self.end - self.pos);
        if self.limit != 0 {
            n = n.min(self.limit);
        }
        if let Some((c, a)) = self.dev {
            if c == idx {
                match a {
                    BAct::Interrupted => {
                        self.errors += 1;
                        return Err(io::Error::new(ErrorKind::Interrupted, "injected interruption"));
                    }
                    BAct::Fail | BAct::Zero => {
                        self.errors += 1;
                        return Err(io::Error::new(ErrorKind::Other, "injected read failure"));
                    }
                    BAct::Short(k) => {
                        if (k as usize) < n {
                            n = k as usize;
                            self.shorts += 1;
                        }
                    }
                }
            }
        }
        buf[..n].copy_from_slice(&self.data[self.pos..self.pos + n]);
        self.pos += n;
        Ok(n)
    }
}

fn bact_label(a: BAct) -> &'static str {
    match a {
        BAct::Short(_) => "short",
        BAct::Fail => "fail",
        BAct::Interrupted => "intr",
        BAct::Zero => "zero",
    }
}

fn bscript_label(cap: u32, devs: &[(usize, BAct)]) -> String {
    let mut v: Vec<&str> = vec![];
    if cap != 0 {
        v.push("cap");
    }
    v.extend(devs.iter().map(|d| bact_label(d.1)));
    if v.is_empty() {
        "none".into()
    } else {
        v.join("+")
    }
}

#[derive(Default)]
struct BStats {
    scripts: u64,
    ok: u64,
    effective: u64,
    errs: BTreeMap<String, u64>,
}

/// One writer script on the real serializer; same oracle as `run_wscript`. Returns the recorded trace if asked for.
fn run_bw(b: &Built, cap: u32, devs: &[(usize, BAct)], record: bool, st: &mut BStats) -> Result<Vec<u32>, FailInfo> {
    let mut w = BigWriter::new(&b.bytes, cap, devs, record);
    let r = guard(|| (b.obj.ser)(&mut w));
    st.scripts += 1;
    if w.effective > 0 {
        st.effective += 1;
    }
    let len = b.bytes.len();
    let label = bscript_label(cap, devs);
    let describe = || format!("writer: at most {} bytes per call, deviations (call index, action) {:?}", if cap == 0 { "unlimited".to_string() } else { cap.to_string() }, devs);
    let tail = format!("{label}:{}", offer_class(w.first_offer));
    if w.overrun {
        return Err((
            format!("writes-beyond-encoding:{tail}"),
            format!("{}: at most the {len} bytes of the encoding are ever accepted by the sink in total", describe()),
            format!("the serializer offered more after {} accepted bytes (result {:?})", w.pos, r.as_ref().map(|x| x.as_ref().map_err(|e| e.kind()))),
        ));
    }
    match r {
        Err(p) if p.starts_with(BOUND_MSG) => Err((format!("unbounded-writes:{tail}"), format!("{}: the call returns after finitely many writes", describe()), p)),
        Err(p) => Err((format!("panic:{}", pclass(&p)), format!("{}: Ok with the complete encoding, or Err; never a panic", describe()), p)),
        Ok(Err(e)) => {
            if w.effective == 0 {
                return Err(("err-without-fault".into(), format!("{}: no fault was injected, so Ok", describe()), format!("Err({e})")));
            }
            *st.errs.entry(io_err(&e)).or_insert(0) += 1;
            Ok(w.record.take().unwrap_or_default())
        }
        Ok(Ok(n)) => {
            if w.pos != len || w.mismatch.is_some() {
                return Err((
                    format!("ok-but-sink-differs:{tail}"),
                    format!("{}: Ok only if the sink holds the complete {len}-byte encoding", describe()),
                    format!("Ok({n}) with {} bytes in the sink (first difference at offset {})", w.pos, w.mismatch.unwrap_or(w.pos)),
                ));
            }
            if n != len {
                return Err((format!("ok-wrong-count:{tail}"), format!("{}: Ok({len})", describe()), format!("Ok({n}) (sink complete)")));
            }
            st.ok += 1;
            Ok(w.record.take().unwrap_or_default())
        }
    }
}

/// A failing two-deviation script is re-run with each deviation alone, so that the signature names only what matters.
fn reduce_bw(b: &Built, cap: u32, devs: &[(usize, BAct)], f: FailInfo) -> FailInfo {
    if devs.len() < 2 {
        return f;
    }
    let mut dummy = BStats::default();
    for d in devs {
        if let Err(f2) = run_bw(b, cap, &[*d], false, &mut dummy) {
            if symptom(&f2.0) == symptom(&f.0) {
                return f2;
            }
        }
    }
    f
}

fn big_write_family(b: &Built, cap: u32, st: &mut BStats) -> Result<(), FailInfo> {
    let trace = run_bw(b, cap, &[], true, st)?;
    let eff = |o: u32| if cap != 0 { o.min(cap) } else { o };
    let acts_at = |o: u32| -> Vec<BAct> {
        let mut v: Vec<BAct> = short_counts(eff(o)).into_iter().map(BAct::Short).collect();
        if o > 0 {
            v.extend([BAct::Fail, BAct::Interrupted, BAct::Zero]);
        }
        v
    };
    for j in selected_calls(&trace) {
        for act in acts_at(trace[j]) {
            run_bw(b, cap, &[(j, act)], false, st)?;
        }
    }
    // the retry after a short accept of a bulk call
    let bulk = bulk_calls(&trace);
    let chosen: Vec<usize> = if trace.len() <= BIG_ALL_CALLS { bulk } else { pick(bulk.len()).into_iter().map(|i| bulk[i]).collect() };
    for j in chosen {
        let e = eff(trace[j]);
        for k in short_counts(e) {
            // the retry offers the unwritten rest (under a cap: only `cap` bytes of it are taken)
            let rest = trace[j] - k;
            for act in acts_at(rest) {
                let devs = [(j, BAct::Short(k)), (j + 1, act)];
                if let Err(f) = run_bw(b, cap, &devs, false, st) {
                    return Err(reduce_bw(b, cap, &devs, f));
                }
            }
        }
    }
    Ok(())
}

/// One reader script; same oracle as `run_rscript` (a short delivery is not a fault: the object must be restored).
fn run_br(b: &Built, end: usize, limit: usize, dev: Option<(usize, BAct)>, record: bool, st: &mut BStats) -> Result<Vec<u32>, FailInfo> {
    let mut r = BigReader::new(&b.bytes, end, limit, dev, record);
    let res = guard(|| (b.obj.de)(&mut r));
    st.scripts += 1;
    if r.errors > 0 || r.shorts > 0 || end < b.bytes.len() {
        st.effective += 1;
    }
    let len = b.bytes.len();
    let describe = || {
        format!(
            "stream of {len} bytes cut after {end}, at most {} bytes per read call, deviation (call index, action) {:?}",
            if limit == 0 { "unlimited".to_string() } else { limit.to_string() },
            dev
        )
    };
    let what = match dev {
        Some((_, a)) => bact_label(a),
        None => "none",
    };
    match res {
        Err(p) if p.starts_with(BOUND_MSG) => Err((format!("unbounded-reads:{what}"), format!("{}: the call returns after finitely many reads", describe()), p)),
        Err(p) => Err((format!("panic:{}", pclass(&p)), format!("{}: Err (or the exact object for a complete stream); never a panic", describe()), p)),
        Ok(Err(e)) => {
            if end == len && r.errors == 0 {
                return Err((format!("complete-stream-err:{what}"), format!("{}: the object is restored", describe()), format!("Err({e})")));
            }
            *st.errs.entry(io_err(&e)).or_insert(0) += 1;
            Ok(r.record.take().unwrap_or_default())
        }
        Ok(Ok(fp)) => {
            if end < len {
                return Err((
                    format!("truncated-ok:{what}"),
                    format!("{}: Err, the encoding is incomplete", describe()),
                    format!("Ok(object) after consuming {} bytes in {} read calls{}", r.pos, r.call, if fp == b.fp { " (equal to the original!)" } else { "" }),
                ));
            }
            if fp != b.fp {
                return Err((format!("restored-differs:{what}"), format!("{}: the restored object equals the original", describe()), "Ok(a different object)".into()));
            }
            if r.pos != len {
                return Err((format!("restored-leftover:{what}"), format!("{}: all {len} bytes consumed", describe()), format!("{} consumed", r.pos)));
            }
            st.ok += 1;
            Ok(r.record.take().unwrap_or_default())
        }
    }
}

fn big_read_family(b: &Built, fam: BFam, st: &mut BStats) -> Result<(), FailInfo> {
    let len = b.bytes.len();
    match fam {
        BFam::Trunc { limit } => {
            for end in trunc_offsets(len) {
                run_br(b, end, limit, None, false, st)?;
            }
            run_br(b, len, limit, None, false, st)?;
        }
        BFam::ReadFaults { limit } => {
            let trace = run_br(b, len, limit, None, true, st)?;
            for j in selected_calls(&trace) {
                let e = if limit != 0 { trace[j].min(limit as u32) } else { trace[j] };
                run_br(b, len, limit, Some((j, BAct::Interrupted)), false, st)?;
                run_br(b, len, limit, Some((j, BAct::Fail)), false, st)?;
                for k in short_counts(e) {
                    run_br(b, len, limit, Some((j, BAct::Short(k))), false, st)?;
                }
            }
        }
        BFam::Write { .. } => {}
    }
    Ok(())
}

fn check_big(c: &BCase, seed: u64, section: &'static str) -> CaseOut {
    arm_abort_record(section, section, &c.obj, c, seed);
    let out = check_big_inner(c, seed, section);
    disarm_abort_record();
    out
}

fn check_big_inner(c: &BCase, seed: u64, section: &'static str) -> CaseOut {
    let b = built(&c.obj, seed);
    let b = match b.as_ref() {
        Ok(b) => b,
        Err(e) => return CaseOut::skip(&format!("object cannot be built: {e}")),
    };
    if let Err((class, exp, obs)) = &b.baseline {
        return CaseOut::fail(key(section, &c.obj, class), format!("[{}] {exp}", kind_name(&c.obj)), obs.clone());
    }
    let mut st = BStats::default();
    let r = match c.fam {
        BFam::Write { cap } => big_write_family(b, cap, &mut st),
        fam => big_read_family(b, fam, &mut st),
    };
    match r {
        Err((class, exp, obs)) => CaseOut::fail(key(section, &c.obj, &class), format!("[{} {}, encoding of {} B] {exp}", kind_name(&c.obj), c.obj.spec.label(), b.bytes.len()), obs),
        Ok(()) => {
            let errs: Vec<&String> = st.errs.keys().collect();
            let fam = match c.fam {
                BFam::Write { cap } => (0u8, cap as usize),
                BFam::Trunc { limit } => (1, limit),
                BFam::ReadFaults { limit } => (2, limit),
            };
            CaseOut::pass(st.effective > 0, h64(&(kind_name(&c.obj), fam, st.ok > 0, errs)), st.scripts)
        }
    }
}

/// The objects of the production-size sections. Quick: many-prime chains at N = 8 (8, 9, 10, 16, 17, 18 primes, residues
/// of 1..8 bytes), one N = 1024 family whose RNS components are 3072 / 4096 / 5120 bytes, N = 512 x 8 bytes and
/// N = 2048 x 2 bytes (4096-byte components), N = 4096 x 8 bytes (32 KiB components), vectors of 4095 / 4096 / 4097
/// words, containers of 8..65 entries.
/// Thorough adds N = 256..8192, up to 10 primes at N = 4096 (ciphertexts of size 2..4 up to 1.2 MB), keys and
/// containers of every kind at N = 256, containers of up to 1024 entries.
fn big_objects(thorough: bool) -> Vec<ObjSpec> {
    let mut v: Vec<ObjSpec> = vec![];
    let o = |kind: Kind, spec: &ParamSpec, seeded: bool, variant: u8, len: u32| ObjSpec { kind, spec: spec.clone(), seeded, variant, len };
    let schemes = Scheme::all();

    // (a) many primes at N = 8; residue widths of 1..8 bytes in one chain
    let widths = [8usize, 12, 20, 28, 36, 44, 52, 60, 16, 24, 32, 40, 48, 56, 59, 14, 22, 30];
    for (i, &k) in [8usize, 9, 10, 16, 17, 18].iter().enumerate() {
        let s = schemes[i % 3];
        let spec = ParamSpec::new(s, 8, he::chain(8, &widths[..k]), 17);
        v.push(o(Kind::VecModulus, &spec, false, 0, 0));
        v.push(o(Kind::Params, &spec, false, 0, 0));
        v.push(o(Kind::Ct, &spec, false, 4, 0));
        v.push(o(Kind::Ct, &spec, true, 2, 0));
        v.push(o(Kind::CtFull, &spec, false, 3, 0));
        v.push(o(Kind::CtTerms, &spec, false, 2, 5));
        v.push(o(Kind::RelinKeys, &spec, i % 2 == 0, 0, 0));
        if k == 9 || k == 17 || thorough {
            v.push(o(Kind::PublicKey, &spec, i % 2 == 1, 0, 0));
            v.push(o(Kind::KSwitchKeys, &spec, i % 2 == 1, 0, 0));
            v.push(o(Kind::GaloisKeys, &spec, false, 0, 0));
            v.push(o(Kind::Cipher2d, &spec, false, 2, 9));
            v.push(o(Kind::Plain, &spec, false, 1, 0));
            v.push(o(Kind::SecretKey, &spec, false, 0, 0));
        }
        if s != Scheme::CKKS && (k == 9 || k == 16 || thorough) {
            v.push(o(Kind::RnspCt, &spec, false, 3, 0));
            v.push(o(Kind::RnspRelinKeys, &spec, true, 0, 0));
        }
    }

    // (b) components that cross 4096 bytes
    let ct_family = |v: &mut Vec<ObjSpec>, spec: &ParamSpec, full: bool| {
        let n = spec.n as u32;
        v.push(o(Kind::Ct, spec, false, 2, 0));
        v.push(o(Kind::Ct, spec, true, 2, 0)); // genuine symmetric encryption (BFV / BGV), synthetic for CKKS
        v.push(o(Kind::CtFull, spec, false, 2, 0));
        v.push(o(Kind::CtFull, spec, true, 3, 0)); // synthetic seeded
        v.push(o(Kind::CtTerms, spec, false, 2, n * 2 / 3));
        v.push(o(Kind::PublicKey, spec, true, 0, 0));
        if full {
            v.push(o(Kind::Ct, spec, false, 3, 0));
            v.push(o(Kind::Ct, spec, true, 3, 0)); // synthetic seeded
            v.push(o(Kind::CtTerms, spec, true, 2, n / 2 + 1));
            v.push(o(Kind::Poly, spec, false, 0, 0));
            v.push(o(Kind::PublicKey, spec, false, 0, 0));
            v.push(o(Kind::Plain, spec, false, 1, 0));
            v.push(o(Kind::SecretKey, spec, false, 0, 0));
        }
    };
    let n1024 = |s: Scheme| ParamSpec::new(s, 1024, he::chain(1024, &[24, 32, 40, 48]), 17);
    ct_family(&mut v, &n1024(Scheme::BFV), true);
    if thorough {
        ct_family(&mut v, &n1024(Scheme::BGV), true);
        ct_family(&mut v, &n1024(Scheme::CKKS), true);
    } else {
        v.push(o(Kind::Ct, &n1024(Scheme::BGV), true, 2, 0));
        v.push(o(Kind::CtFull, &n1024(Scheme::CKKS), false, 2, 0));
        v.push(o(Kind::CtTerms, &n1024(Scheme::CKKS), true, 3, 683));
    }
    let n512 = |s: Scheme| ParamSpec::new(s, 512, he::chain(512, &[56, 60, 60]), 17);
    let n2048 = |s: Scheme| ParamSpec::new(s, 2048, he::chain(2048, &[14, 24, 30]), 17);
    ct_family(&mut v, &n512(Scheme::BGV), thorough);
    ct_family(&mut v, &n2048(Scheme::CKKS), thorough);

    // one 32 KiB component (N = 4096 x 8 bytes) and an encoding just above 64 KiB also in the quick tier
    let n4096w = |s: Scheme| ParamSpec::new(s, 4096, he::chain(4096, &[60, 60]), 17);
    v.push(o(Kind::Poly, &n4096w(Scheme::BGV), false, 0, 0));
    v.push(o(Kind::Ct, &n4096w(Scheme::BFV), false, 2, 0));

    // (c) word counts and container lengths around 8 .. 4096
    let tiny = |s: Scheme| ParamSpec::new(s, 8, vec![97, 193], 17);
    let lens_words: &[u32] = if thorough { &[255, 256, 257, 511, 512, 513, 1023, 1025, 4095, 4096, 4097, 8191, 8193] } else { &[4095, 4096, 4097] };
    for &l in lens_words {
        v.push(o(Kind::VecU64, &tiny(Scheme::BFV), false, 0, l));
    }
    let n4096_plain = ParamSpec::new(Scheme::BFV, 4096, he::chain(4096, &[30, 30]), 17);
    for &l in if thorough { &[4095u32, 4096][..] } else { &[4096u32][..] } {
        v.push(o(Kind::Plain, &n4096_plain, false, 0, l));
    }
    let lens_c: &[u32] = if thorough { &[8, 9, 16, 17, 64, 65, 255, 256, 257, 1024] } else { &[8, 9, 16, 17, 65] };
    for (i, &l) in lens_c.iter().enumerate() {
        let s = schemes[i % 3];
        v.push(o(Kind::Cipher1d, &tiny(s), false, 2, l));
        v.push(o(Kind::Plain1d, &tiny(s), false, 1, l));
        if l >= 17 && (thorough || l == 65) {
            v.push(o(Kind::Cipher2d, &tiny(s), false, 2, l));
            v.push(o(Kind::Cipher3d, &tiny(s), false, 2, l));
            v.push(o(Kind::Cipher2dTerms, &tiny(s), false, 2, l));
            v.push(o(Kind::Plain2d, &tiny(s), false, 2, l));
            v.push(o(Kind::Plain3d, &tiny(s), false, 2, l));
        }
    }
    for &cnt in if thorough { &[8u8, 9, 16, 17, 65][..] } else { &[9u8][..] } {
        v.push(o(Kind::RnspVecCt, &tiny(Scheme::BFV), false, cnt, 0));
    }

    if thorough {
        // (d) N = 4096: 2 / 7 / 8-byte components (8 KiB, 28 KiB, 32 KiB), ten primes, sizes up to 4; N = 8192 x 8 bytes = 64 KiB
        let n4096 = |s: Scheme| ParamSpec::new(s, 4096, he::chain(4096, &[16, 56, 60, 60]), 17);
        ct_family(&mut v, &n4096(Scheme::BFV), true);
        ct_family(&mut v, &n4096(Scheme::CKKS), false);
        let ten = |s: Scheme| ParamSpec::new(s, 4096, he::chain(4096, &[24, 24, 30, 30, 36, 40, 48, 50, 60, 60]), 17);
        v.push(o(Kind::Ct, &ten(Scheme::BFV), false, 2, 0));
        v.push(o(Kind::Ct, &ten(Scheme::BGV), true, 2, 0));
        v.push(o(Kind::Ct, &ten(Scheme::CKKS), false, 4, 0));
        v.push(o(Kind::CtFull, &ten(Scheme::BGV), false, 4, 0));
        v.push(o(Kind::CtFull, &ten(Scheme::BFV), true, 3, 0));
        v.push(o(Kind::CtTerms, &ten(Scheme::CKKS), false, 2, 2731));
        v.push(o(Kind::PublicKey, &ten(Scheme::BGV), true, 0, 0));
        let three = |s: Scheme| ParamSpec::new(s, 4096, he::chain(4096, &[40, 50, 60]), 17);
        v.push(o(Kind::RelinKeys, &three(Scheme::BFV), false, 0, 0));
        v.push(o(Kind::RelinKeys, &three(Scheme::CKKS), true, 0, 0));
        v.push(o(Kind::KSwitchKeys, &three(Scheme::BGV), true, 0, 0));
        let two = |s: Scheme| ParamSpec::new(s, 4096, he::chain(4096, &[30, 40]), 17);
        v.push(o(Kind::GaloisKeys, &two(Scheme::BFV), false, 0, 0)); // 4096 key slots, one of them filled
        v.push(o(Kind::GaloisKeys, &two(Scheme::BGV), true, 2, 0)); // 4096 empty key slots
        v.push(o(Kind::RnspCt, &two(Scheme::BFV), false, 2, 0));
        v.push(o(Kind::RnspCtFull, &two(Scheme::BGV), true, 2, 0));
        v.push(o(Kind::RnspCtTerms, &two(Scheme::BFV), false, 2, 1366));
        v.push(o(Kind::Cipher1d, &two(Scheme::CKKS), false, 2, 3));
        let n8192 = |s: Scheme| ParamSpec::new(s, 8192, he::chain(8192, &[60, 60]), 17);
        v.push(o(Kind::Ct, &n8192(Scheme::BFV), false, 2, 0));
        v.push(o(Kind::CtFull, &n8192(Scheme::CKKS), true, 3, 0));
        v.push(o(Kind::Poly, &n8192(Scheme::BGV), false, 0, 0));

        // (e) every kind of key and container at N = 256 with five primes of 3..8 bytes
        for (i, s) in schemes.into_iter().enumerate() {
            let spec = ParamSpec::new(s, 256, he::chain(256, &[20, 30, 40, 50, 60]), 17);
            ct_family(&mut v, &spec, false);
            v.push(o(Kind::Ct, &spec, false, 4, 0));
            v.push(o(Kind::RelinKeys, &spec, i == 0, 0, 0));
            v.push(o(Kind::KSwitchKeys, &spec, i == 1, 0, 0));
            v.push(o(Kind::GaloisKeys, &spec, i == 2, 1, 0)); // the default set
            v.push(o(Kind::GaloisKeys, &spec, i != 2, 0, 0));
            v.push(o(Kind::Cipher1d, &spec, i == 0, 2, 9));
            v.push(o(Kind::Cipher2d, &spec, i == 1, 2, 9));
            v.push(o(Kind::Cipher3d, &spec, i == 2, 2, 17));
            v.push(o(Kind::Cipher1dTerms, &spec, i == 2, 2, 9));
            v.push(o(Kind::Cipher2dTerms, &spec, i == 0, 2, 9));
            v.push(o(Kind::Cipher3dTerms, &spec, i == 1, 2, 17));
            v.push(o(Kind::Plain1d, &spec, false, 1, 9));
            v.push(o(Kind::Plain2d, &spec, false, 2, 9));
            v.push(o(Kind::Plain3d, &spec, false, 2, 17));
            if s != Scheme::CKKS {
                v.push(o(Kind::RnspCt, &spec, i == 1, 2, 0));
                v.push(o(Kind::RnspCtFull, &spec, i == 0, 2, 0));
                v.push(o(Kind::RnspCtTerms, &spec, false, 2, 100));
                v.push(o(Kind::RnspVecCt, &spec, i == 0, 3, 0));
                v.push(o(Kind::RnspPublicKey, &spec, i == 1, 0, 0));
                v.push(o(Kind::RnspRelinKeys, &spec, i == 0, 0, 0));
                v.push(o(Kind::RnspGaloisKeys, &spec, i == 1, 0, 0));
            }
        }
    }
    let mut seen = std::collections::HashSet::new();
    v.retain(|x| seen.insert(x.clone()));
    v
}

struct BigListed {
    obj: ObjSpec,
    len: usize,
    calls: usize,
}

/// Builds every production-size object once, on all cores, to learn its encoding length and write-call count (the
/// bound strings quote them and the cases are ordered by them); cached for the process.
fn big_listing(cfg: &RunCfg) -> Arc<Vec<BigListed>> {
    static BIG_LIST: std::sync::Mutex<Vec<((bool, u64), Arc<Vec<BigListed>>)>> = std::sync::Mutex::new(Vec::new());
    let k = (cfg.thorough(), cfg.seed);
    let mut guard_ = BIG_LIST.lock().unwrap_or_else(|e| e.into_inner());
    if let Some((_, l)) = guard_.iter().find(|(kk, _)| *kk == k) {
        return l.clone();
    }
    let objs = big_objects(cfg.thorough());
    let next = std::sync::atomic::AtomicUsize::new(0);
    let out: std::sync::Mutex<Vec<(usize, usize, usize)>> = std::sync::Mutex::new(vec![]);
    let seed = cfg.seed;
    std::thread::scope(|sc| {
        for _ in 0..cfg.threads.clamp(1, 32) {
            sc.spawn(|| {
                heathcliff_thread_init();
                loop {
                    let i = next.fetch_add(1, std::sync::atomic::Ordering::SeqCst);
                    if i >= objs.len() {
                        break;
                    }
                    let (len, calls) = match guard(|| build_full(&objs[i], seed)) {
                        Ok(Ok(b)) if b.baseline.is_ok() => {
                            let mut st = BStats::default();
                            let calls = run_bw(&b, 0, &[], true, &mut st).map(|t| t.len()).unwrap_or(0);
                            (b.bytes.len(), calls)
                        }
                        Ok(Ok(b)) => (b.bytes.len(), 0),
                        Ok(Err(e)) => {
                            eprintln!("[C15] object {:?} {} seeded={} variant={} len={} cannot be built: {e}", objs[i].kind, objs[i].spec.label(), objs[i].seeded, objs[i].variant, objs[i].len);
                            (0, 0)
                        }
                        Err(p) => {
                            eprintln!("[C15] object {:?} {}: panic while building: {p}", objs[i].kind, objs[i].spec.label());
                            (0, 0)
                        }
                    };
                    out.lock().unwrap_or_else(|e| e.into_inner()).push((i, len, calls));
                }
            });
        }
    });
    let mut sizes = out.into_inner().unwrap_or_else(|e| e.into_inner());
    sizes.sort();
    let mut list: Vec<BigListed> = objs.into_iter().zip(sizes).map(|(obj, (_, len, calls))| BigListed { obj, len, calls }).collect();
    // simplest first; ties in the order of the list
    list.sort_by_key(|l| l.len);
    if std::env::var("VERIF_C15_LIST").is_ok() {
        for l in list.iter() {
            eprintln!("[C15] big object {:?} {} seeded={} variant={} len={}: {} B, {} write calls", l.obj.kind, l.obj.spec.label(), l.obj.seeded, l.obj.variant, l.obj.len, l.len, l.calls);
        }
    }
    let l = Arc::new(list);
    guard_.push((k, l.clone()));
    l
}

fn big_sections(cfg: &RunCfg, v: &mut Vec<Box<dyn AnySection>>) {
    let seed = cfg.seed;
    let list = big_listing(cfg);
    let nobj = list.len();
    let minlen = list.iter().map(|l| l.len).min().unwrap_or(0);
    let maxlen = list.iter().map(|l| l.len).max().unwrap_or(0);
    let maxcalls = list.iter().map(|l| l.calls).max().unwrap_or(0);
    let over = |t: usize| list.iter().filter(|l| l.len > t).count();
    let maxn = list.iter().map(|l| l.obj.spec.n).max().unwrap_or(0);
    let maxk = list.iter().map(|l| l.obj.spec.q.len()).max().unwrap_or(0);
    let sizes = format!(
        "{nobj} objects of all kinds, N = 8..{maxn}, 2..{maxk} primes (residues of 1..8 bytes), ciphertext sizes 2..4, containers / vectors of up to {} entries; encodings {minlen}..{maxlen} B ({} > 4 KiB, {} > 32 KiB, {} > 64 KiB), up to {maxcalls} write calls",
        list.iter().map(|l| l.obj.len).max().unwrap_or(0),
        over(4096),
        over(32768),
        over(65536)
    );

    let caps = [0u32, 1, 7, 4096];
    let mut cases: Vec<BCase> = vec![];
    for l in list.iter() {
        for &cap in &caps {
            cases.push(BCase { obj: l.obj.clone(), fam: BFam::Write { cap } });
        }
    }
    v.push(
        E1::new(
            "big_write",
            &format!(
                "{sizes} x writers accepting at most {{unlimited, 1, 7, 4096}} bytes per call: fault-free run + one deviation {{accept 1, e-1, 4095, 4096, 4097 < e, Other, Interrupted, Ok(0)}} at every selected call \
                 (all calls of traces <= {BIG_ALL_CALLS}; else first/last {BIG_EDGE} and every 2^k-1, 2^k, 2^k+1-th of: all calls, offer-length borders, bulk calls) + short accept then one deviation at the retry for the selected bulk (> 8 B) calls"
            ),
            cases.into_iter(),
            move |c: &BCase| check_big(c, seed, "big_write"),
        )
        .batch(4)
        .deadline(Duration::from_secs(240)),
    );

    let limits = [1usize, 7, 4096, 0];
    let mut cases: Vec<BCase> = vec![];
    for l in list.iter() {
        for &limit in &limits {
            cases.push(BCase { obj: l.obj.clone(), fam: BFam::Trunc { limit } });
        }
        for &limit in &limits {
            cases.push(BCase { obj: l.obj.clone(), fam: BFam::ReadFaults { limit } });
        }
    }
    v.push(
        E1::new(
            "big_read",
            &format!(
                "{sizes} x read limits {{1, 7, 4096, unlimited}}: truncation at every offset of the first 256 and the last 256 bytes and at 2^k-1, 2^k, 2^k+1, 4096j-1, 4096j, 4096j+1 (Err required) + the complete stream (exact restoration required); \
                 complete stream with one deviation {{Interrupted, Other, deliver 1, e-1, 4095, 4096, 4097 < e}} at every selected read call (selection as for big_write)"
            ),
            cases.into_iter(),
            move |c: &BCase| check_big(c, seed, "big_read"),
        )
        .batch(4)
        .deadline(Duration::from_secs(240)),
    );
}

pub fn sections(cfg: &RunCfg) -> Vec<Box<dyn AnySection>> {
    install_process_guards();
    let seed = cfg.seed;
    let thorough = cfg.thorough();
    let list = listing(cfg);
    let pair_limit: usize = if thorough { 1600 } else { 420 };
    let triple_limit: usize = if thorough { 72 } else { 26 };
    let ti_limit: usize = if thorough { 1200 } else { 300 };
    let mut v: Vec<Box<dyn AnySection>> = vec![];
    let maxlen = list.iter().map(|l| l.len).max().unwrap_or(0);
    let maxcalls = list.iter().map(|l| l.trace.len()).max().unwrap_or(0);
    let nobj = list.len();

    // write: fault-free + all single deviations
    let cases: Vec<WCase> = list.iter().map(|l| WCase { obj: l.obj.clone(), script: WScript::default(), depth: 1 }).collect();
    v.push(
        E1::new(
            "write_single",
            &format!("{nobj} objects (encodings up to {maxlen} B, up to {maxcalls} write calls): fault-free run + every single deviation {{accept 1..7 < offered, Other, Interrupted, Ok(0)}} at every write-call index"),
            cases.into_iter(),
            move |c: &WCase| check_write(c, seed, "write_single"),
        )
        .deadline(Duration::from_secs(20)),
    );

    // write: all pairs (one case per first deviation)
    let mut cases: Vec<WCase> = vec![];
    let mut npair_objs = 0;
    for l in list.iter().filter(|l| l.trace.len() <= pair_limit) {
        npair_objs += 1;
        for (j, &off) in l.trace.iter().enumerate() {
            for act in options(off, None) {
                cases.push(WCase { obj: l.obj.clone(), script: WScript { cap: None, devs: vec![Dev { call: j, act }] }, depth: 1 });
            }
        }
    }
    v.push(
        E1::new(
            "write_pairs",
            &format!("{npair_objs} objects with <= {pair_limit} write calls: every pair of deviations (second at any later call index of the run with the first applied)"),
            cases.into_iter(),
            move |c: &WCase| check_write(c, seed, "write_pairs"),
        )
        .deadline(Duration::from_secs(20)),
    );

    // write: all triples for short call sequences
    let mut cases: Vec<WCase> = vec![];
    let mut ntriple_objs = 0;
    for l in list.iter().filter(|l| l.trace.len() <= triple_limit) {
        ntriple_objs += 1;
        for (j, &off) in l.trace.iter().enumerate() {
            for act in options(off, None) {
                cases.push(WCase { obj: l.obj.clone(), script: WScript { cap: None, devs: vec![Dev { call: j, act }] }, depth: 2 });
            }
        }
    }
    v.push(
        E1::new(
            "write_triples",
            &format!("{ntriple_objs} objects with <= {triple_limit} write calls: every triple of deviations"),
            cases.into_iter(),
            move |c: &WCase| check_write(c, seed, "write_triples"),
        )
        .deadline(Duration::from_secs(40)),
    );

    // write: uniformly limited writers (+ one failure point)
    let mut cases: Vec<WCase> = vec![];
    for l in list.iter() {
        for k in 1..=7u8 {
            cases.push(WCase { obj: l.obj.clone(), script: WScript { cap: Some(k), devs: vec![] }, depth: 1 });
        }
    }
    v.push(
        E1::new(
            "write_uniform",
            &format!("{nobj} objects x writers accepting at most k = 1..7 bytes on every call, alone and with one further deviation at every call index"),
            cases.into_iter(),
            move |c: &WCase| check_write(c, seed, "write_uniform"),
        )
        .deadline(Duration::from_secs(20)),
    );

    // read: truncation
    let limits = [1usize, 3, 8, 0];
    let mut cases: Vec<RCase> = vec![];
    for l in list.iter() {
        for &limit in &limits {
            cases.push(RCase { obj: l.obj.clone(), limit, mode: RMode::Truncate });
        }
    }
    v.push(
        E1::new(
            "read_trunc",
            &format!("{nobj} objects x read limits {{1,3,8,unlimited}} x every truncation offset 0..len-1 (Err required) + the complete stream (exact restoration required)"),
            cases.into_iter(),
            move |c: &RCase| check_read(c, seed, "read_trunc"),
        )
        .deadline(Duration::from_secs(20)),
    );

    // read: interruptions and hard errors
    let mut cases: Vec<RCase> = vec![];
    for l in list.iter() {
        for &limit in &limits {
            cases.push(RCase { obj: l.obj.clone(), limit, mode: RMode::Faults });
        }
    }
    let mut nti = 0;
    for l in list.iter().filter(|l| l.len <= ti_limit) {
        nti += 1;
        for &limit in &limits {
            cases.push(RCase { obj: l.obj.clone(), limit, mode: RMode::TruncateInterrupted });
        }
    }
    v.push(
        E1::new(
            "read_faults",
            &format!("{nobj} objects x read limits x one Interrupted / one hard error at every read-call index of the complete stream; {nti} objects with encodings <= {ti_limit} B: every (truncation offset, Interrupted index)"),
            cases.into_iter(),
            move |c: &RCase| check_read(c, seed, "read_faults"),
        )
        .deadline(Duration::from_secs(20)),
    );
    big_sections(cfg, &mut v);
    v
}
