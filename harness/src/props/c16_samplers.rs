//! C16 (c): the three samplers as functions of the generator output (scripted mock generator).

use crate::engine::*;
use crate::refmodel::bigu::primes_1_mod;
use crate::refmodel::blakestream::*;
use heathcliff::util::rlwe::sample;
use heathcliff::verif_hooks::{self, NoiseMode};
use heathcliff::{EncryptionParameters, Modulus, SchemeType};
use rand::RngCore;
use serde::{Deserialize, Serialize};
use std::time::Duration;

/// Replays a byte script; all three entry points consume it sequentially (little-endian words).
pub struct Script<'a> {
    data: &'a [u8],
    pos: usize,
    pub overrun: bool,
    pub n32: u64,
    pub n64: u64,
    pub nfill: u64,
    pub fill_bytes_total: u64,
}

impl<'a> Script<'a> {
    pub fn new(data: &'a [u8]) -> Self {
        Script { data, pos: 0, overrun: false, n32: 0, n64: 0, nfill: 0, fill_bytes_total: 0 }
    }
    fn take(&mut self, dest: &mut [u8]) {
        let n = dest.len();
        if self.pos + n <= self.data.len() {
            dest.copy_from_slice(&self.data[self.pos..self.pos + n]);
        } else {
            self.overrun = true;
            for d in dest.iter_mut() {
                *d = 0;
            }
        }
        self.pos += n;
    }
    pub fn consumed(&self) -> usize {
        self.pos
    }
}

impl RngCore for Script<'_> {
    fn next_u32(&mut self) -> u32 {
        self.n32 += 1;
        let mut b = [0u8; 4];
        self.take(&mut b);
        u32::from_le_bytes(b)
    }
    fn next_u64(&mut self) -> u64 {
        self.n64 += 1;
        let mut b = [0u8; 8];
        self.take(&mut b);
        u64::from_le_bytes(b)
    }
    fn fill_bytes(&mut self, dest: &mut [u8]) {
        self.nfill += 1;
        self.fill_bytes_total += dest.len() as u64;
        self.take(dest)
    }
    fn try_fill_bytes(&mut self, dest: &mut [u8]) -> Result<(), rand::Error> {
        self.fill_bytes(dest);
        Ok(())
    }
}

fn parms(n: usize, moduli: &[u64]) -> EncryptionParameters {
    let mods: Vec<Modulus> = moduli.iter().map(|&q| Modulus::new(q)).collect();
    EncryptionParameters::new(SchemeType::CKKS).set_poly_modulus_degree(n).set_coeff_modulus(&mods)
}

fn real_noise() {
    verif_hooks::set_noise(NoiseMode::Real, NoiseMode::Real);
}

type Bad = (String, String, String); // (key suffix, expected, observed)


// ---------------------------------------------------------------------------------------------
// Mapping-agnostic path. The property fixes the samplers' OUTPUT (bounds, the same signed value in every RNS
// component, the distribution), not how generator output is turned into a sample: how many bytes are read
// per coefficient, through which RngCore entry point, which bits count. The sections below first compare
// with the reference mapping of the pinned commit (fast, pointwise). A mismatch there is NOT a violation:
// it sends the case here, where the structure of the sampler is discovered by probing and the exhaustive
// families are rebuilt on the discovered structure. Verdicts: `Ok` (the property clause holds for the
// discovered structure), `Bad` (it does not: bound / RNS consistency / distribution), `Undecided` (the
// structure is none of the recognised ones: reported as not exhaustive, never as a violation).
// (False alarm of 2026-10-03 on two behaviour-preserving refactors, DESIGN §10.)
// ---------------------------------------------------------------------------------------------

#[derive(Clone, Debug)]
pub enum Agn {
    Ok { steps: u64, note: String },
    Undecided(String),
    Bad { key: String, expected: String, observed: String },
}

fn agn_out(section: &str, a: Agn) -> CaseOut {
    match a {
        Agn::Ok { steps, note } => CaseOut::pass(true, h64(&("agnostic", note.as_str())), steps),
        Agn::Undecided(why) => CaseOut::undecided(&format!("{section}: {why}")),
        Agn::Bad { key, expected, observed } => CaseOut::fail(format!("{section}:{key}"), expected, observed),
    }
}

const AGN_BIG: u64 = (1u64 << 61) - 1; // decoding modulus (2^61-1, prime): component 0 of every agnostic run
const AGN_MAX_BLOCK: usize = 64;

/// Runs a sampler over `script` for n coefficients with moduli [AGN_BIG] ++ moduli; returns the signed values
/// (decoded from component 0, |v| <= bound enforced, every other component compared) and the consumption record.
fn agn_run(
    which: &str,
    moduli: &[u64],
    script: &[u8],
    n: usize,
    bound: i64,
) -> Result<(Vec<i64>, usize, u64, u64, u64, bool), Agn> {
    let mut mods = vec![AGN_BIG];
    mods.extend_from_slice(moduli);
    let k = mods.len();
    let p = parms(n, &mods);
    let mut dest = vec![u64::MAX; n * k];
    let mut rng = Script::new(script);
    let r = guard(|| match which {
        "cbd" => sample::centered_binomial(&mut rng, &p, &mut dest),
        _ => sample::ternary(&mut rng, &p, &mut dest),
    });
    if let Err(pn) = r {
        return Err(Agn::Bad { key: format!("panic:{}", panic_class(&pn)), expected: format!("{which} sampler returns for every generator output (moduli {mods:?})"), observed: pn });
    }
    let mut vals = Vec::with_capacity(n);
    for i in 0..n {
        let o = dest[i];
        let v = if o <= bound as u64 {
            o as i64
        } else if o >= AGN_BIG - bound as u64 && o < AGN_BIG {
            -((AGN_BIG - o) as i64)
        } else {
            return Err(Agn::Bad { key: "bound".into(), expected: format!("coefficient {i}: a residue of a signed value of magnitude <= {bound} modulo 2^61-1"), observed: format!("{o}") });
        };
        for (j, &q) in mods.iter().enumerate().skip(1) {
            let e = signed_residue(v, q);
            if dest[i + j * n] != e {
                return Err(Agn::Bad { key: "rns-consistency".into(), expected: format!("coefficient {i} = {v}: component {j} (q={q}) = {e}"), observed: format!("{}", dest[i + j * n]) });
            }
        }
        vals.push(v);
    }
    Ok((vals, rng.consumed(), rng.n32, rng.n64, rng.nfill, rng.overrun))
}

fn cbd_agnostic_uncached(moduli: &[u64]) -> Agn {
    let und = |s: String| Agn::Undecided(format!("centered binomial sampler: {s}; the distribution clause is not decided (bounds and RNS consistency were still enforced on every probe)"));
    // 1. block size: zero script
    let n0 = 32usize;
    let zeros = vec![0u8; AGN_MAX_BLOCK * 512];
    let (v0, c0, a32, a64, afill, over) = match agn_run("cbd", moduli, &zeros[..AGN_MAX_BLOCK * n0], n0, 21) {
        Ok(x) => x,
        Err(a) => return a,
    };
    if over || c0 == 0 || c0 % n0 != 0 {
        return und(format!("reads {c0} bytes for {n0} coefficients (not a fixed block of at most {AGN_MAX_BLOCK} bytes per coefficient)"));
    }
    let b = c0 / n0;
    if v0.iter().any(|&v| v != 0) {
        return und("the all-zero generator output does not give the value 0".into());
    }
    for n in [1usize, 7] {
        match agn_run("cbd", moduli, &zeros[..AGN_MAX_BLOCK * n], n, 21) {
            Ok((_, c, _, _, _, o)) if !o && c == b * n => {}
            Ok((_, c, _, _, _, _)) => return und(format!("reads {c} bytes for {n} coefficients but {c0} for {n0}")),
            Err(a) => return a,
        }
    }
    // 2. single-bit probes
    let nb = 8 * b;
    let mut script = vec![0u8; nb * b];
    for i in 0..nb {
        script[i * b + i / 8] |= 1 << (i % 8);
    }
    let (vb, _, _, _, _, _) = match agn_run("cbd", moduli, &script, nb, 21) {
        Ok(x) => x,
        Err(a) => return a,
    };
    if vb.iter().any(|&v| v.abs() > 1) {
        return und("a single generator bit changes the value by more than one".into());
    }
    let pos: Vec<usize> = (0..nb).filter(|&i| vb[i] == 1).collect();
    let neg: Vec<usize> = (0..nb).filter(|&i| vb[i] == -1).collect();
    let ign: Vec<usize> = (0..nb).filter(|&i| vb[i] == 0).collect();
    if pos.len() > 24 || neg.len() > 24 {
        return Agn::Bad { key: "distribution".into(), expected: "21 generator bits counted positively and 21 negatively per coefficient".into(), observed: format!("{} positive, {} negative bits of a {b}-byte block", pos.len(), neg.len()) };
    }
    // 3. additivity on exhaustive halves and a cross family
    let mut steps = 0u64;
    let set = |blk: &mut [u8], bits: &[usize], pat: u32| {
        for (t, &i) in bits.iter().enumerate() {
            if (pat >> t) & 1 == 1 {
                blk[i / 8] |= 1 << (i % 8);
            }
        }
    };
    const RUN: usize = 1 << 14;
    for (half, bits, sign) in [("positive", &pos, 1i64), ("negative", &neg, -1i64)] {
        let total = 1u32 << bits.len();
        let mut pat = 0u32;
        while pat < total {
            let n = RUN.min((total - pat) as usize);
            let mut sc = vec![0u8; n * b];
            for i in 0..n {
                set(&mut sc[i * b..(i + 1) * b], bits, pat + i as u32);
            }
            let (v, _, _, _, _, _) = match agn_run("cbd", moduli, &sc, n, 21) {
                Ok(x) => x,
                Err(a) => return a,
            };
            for i in 0..n {
                let e = sign * (pat + i as u32).count_ones() as i64;
                if v[i] != e {
                    return und(format!("the {half} bits {bits:?} do not act additively (pattern {:#x} gives {} instead of {e})", pat + i as u32, v[i]));
                }
            }
            steps += n as u64;
            pat += n as u32;
        }
    }
    let masks = |len: usize| -> Vec<u32> {
        let full = if len >= 32 { u32::MAX } else { (1u32 << len) - 1 };
        let mut m = vec![0, full, 0x5555_5555 & full, 0xAAAA_AAAA & full, 1 & full, full & !1, 0x00FF_00FF & full, full >> (len / 2)];
        m.dedup();
        m
    };
    let mut sc = vec![];
    let mut exp = vec![];
    for &a in &masks(pos.len()) {
        for &m in &masks(neg.len()) {
            for z in [0u32, u32::MAX] {
                let mut blk = vec![0u8; b];
                set(&mut blk, &pos, a);
                set(&mut blk, &neg, m);
                let zi: Vec<usize> = ign.iter().cloned().take(32).collect();
                set(&mut blk, &zi, z);
                if z != 0 {
                    for &i in ign.iter().skip(32) {
                        blk[i / 8] |= 1 << (i % 8);
                    }
                }
                sc.extend_from_slice(&blk);
                exp.push(a.count_ones() as i64 - m.count_ones() as i64);
            }
        }
    }
    let n = exp.len();
    let (v, _, _, _, _, _) = match agn_run("cbd", moduli, &sc, n, 21) {
        Ok(x) => x,
        Err(a) => return a,
    };
    if let Some(i) = (0..n).find(|&i| v[i] != exp[i]) {
        return und(format!("positive, negative and ignored bits do not combine additively (case {i}: {} instead of {})", v[i], exp[i]));
    }
    steps += n as u64;
    if pos.len() != 21 || neg.len() != 21 {
        return Agn::Bad {
            key: "distribution".into(),
            expected: "centered binomial distribution of 21 positive and 21 negative fair bits (variance 10.5, support [-21, 21])".into(),
            observed: format!("value = popcount of {} bits minus popcount of {} bits of a {b}-byte block (validated on every pattern of either half)", pos.len(), neg.len()),
        };
    }
    Agn::Ok { steps, note: format!("cbd block {b} bytes (next_u32 {a32}, next_u64 {a64}, fill_bytes {afill} per {n0} coefficients), 21+21 bits") }
}

fn agn_cached(kind: &str, moduli: &[u64], f: impl FnOnce() -> Agn) -> Agn {
    use std::collections::HashMap;
    use std::sync::{Mutex, OnceLock};
    static CACHE: OnceLock<Mutex<HashMap<(String, Vec<u64>), Agn>>> = OnceLock::new();
    let c = CACHE.get_or_init(Default::default);
    let key = (kind.to_string(), moduli.to_vec());
    if let Some(a) = c.lock().unwrap().get(&key) {
        return match a {
            // steps are counted once
            Agn::Ok { note, .. } => Agn::Ok { steps: 0, note: note.clone() },
            other => other.clone(),
        };
    }
    let a = f();
    c.lock().unwrap().insert(key, a.clone());
    a
}

pub fn cbd_agnostic(moduli: &[u64]) -> Agn {
    agn_cached("cbd", moduli, || cbd_agnostic_uncached(moduli))
}

/// Ternary sampler with a changed mapping: recognised when every attempt is one `next_u32` draw. Then ALL 2^32
/// first draws are classified (a draw that makes the sampler take a second one is a rejection) and the three
/// classes must have the same size.
fn tern_agnostic_uncached(moduli: &[u64]) -> Agn {
    let und = |s: String| Agn::Undecided(format!("ternary sampler: {s}; the distribution clause is not decided (range and RNS consistency were still enforced on every probe)"));
    let zeros = vec![0u8; 64 * 64];
    let (_, c0, n32, n64, nfill, over) = match agn_run("ternary", moduli, &zeros, 32, 1) {
        Ok(x) => x,
        Err(a) => return a,
    };
    if over || n64 != 0 || nfill != 0 || n32 == 0 || c0 != 4 * n32 as usize {
        return und(format!("does not draw one u32 per attempt ({c0} bytes, next_u32 {n32}, next_u64 {n64}, fill_bytes {nfill} for 32 coefficients)"));
    }
    let threads = 16u64;
    let span = (1u64 << 32) / threads;
    let results: Vec<Result<[u64; 4], Agn>> = std::thread::scope(|sc| {
        let hs: Vec<_> = (0..threads)
            .map(|t| {
                sc.spawn(move || -> Result<[u64; 4], Agn> {
                    heathcliff_thread_init();
                    let mut counts = [0u64; 4];
                    const W: usize = 1 << 16;
                    let mut bytes = vec![0u8; 4 * W];
                    let mut lo = t * span;
                    while lo < (t + 1) * span {
                        for i in 0..W {
                            bytes[4 * i..4 * i + 4].copy_from_slice(&((lo + i as u64) as u32).to_le_bytes());
                        }
                        let (v, c, _, _, _, over) = agn_run("ternary", moduli, &bytes, W, 1)?;
                        if !over && c == 4 * W {
                            for x in v {
                                counts[(x + 1) as usize] += 1;
                            }
                        } else {
                            // a rejection somewhere in the window: classify the draws one at a time
                            for i in 0..W {
                                let mut one = [0u8; 16];
                                one[..4].copy_from_slice(&bytes[4 * i..4 * i + 4]);
                                let (v, c, _, _, _, _) = agn_run("ternary", moduli, &one, 1, 1)?;
                                if c == 4 {
                                    counts[(v[0] + 1) as usize] += 1;
                                } else {
                                    counts[3] += 1;
                                }
                            }
                        }
                        lo += W as u64;
                    }
                    Ok(counts)
                })
            })
            .collect();
        hs.into_iter().map(|h| h.join().unwrap_or_else(|_| Err(Agn::Undecided("ternary sampler: probe thread died".into())))).collect()
    });
    let mut counts = [0u64; 4];
    for r in results {
        match r {
            Ok(c) => (0..4).for_each(|i| counts[i] += c[i]),
            Err(a) => return a,
        }
    }
    if counts[0] != counts[1] || counts[1] != counts[2] {
        return Agn::Bad {
            key: "class-counts".into(),
            expected: "over ALL 2^32 u32 draws the classes -1, 0, +1 have the same size (the remaining draws are rejected and redrawn)".into(),
            observed: format!("(-1, 0, +1, rejected) = {counts:?}"),
        };
    }
    Agn::Ok { steps: 1 << 32, note: format!("ternary one u32 per attempt, classes of {} draws, {} rejected", counts[0], counts[3]) }
}

pub fn tern_agnostic(moduli: &[u64]) -> Agn {
    // the classification of the 2^32 draws does not depend on the moduli: enumerated once (decoding modulus only);
    // per moduli set: RNS consistency on 2^18 lattice draws (enforced inside agn_run)
    let global = agn_cached("ternary-classes", &[], || tern_agnostic_uncached(&[]));
    if !matches!(global, Agn::Ok { .. }) || moduli.is_empty() {
        return global;
    }
    agn_cached("ternary", moduli, || {
        let n = 1usize << 16;
        let mut steps = 0u64;
        for part in 0..4u64 {
            let mut bytes = Vec::with_capacity(4 * n + 64);
            for i in 0..n as u64 {
                let x = part * n as u64 + i;
                bytes.extend_from_slice(&(((x << 14) | (x * 0x9E5 & 0x3FFF)) as u32).to_le_bytes());
            }
            bytes.extend_from_slice(&[0u8; 64]);
            if let Err(a) = agn_run("ternary", moduli, &bytes, n, 1) {
                return a;
            }
            steps += n as u64 * moduli.len() as u64;
        }
        match &global {
            Agn::Ok { note, .. } => Agn::Ok { steps, note: note.clone() },
            _ => unreachable!(),
        }
    })
}

// ---------------------------------------------------------------------------------------------
// centered binomial
// ---------------------------------------------------------------------------------------------

#[derive(Serialize, Deserialize, Clone, Debug)]
pub struct CbdCase {
    pub moduli: Vec<u64>,
    /// "pos": bytes (x0,x1,chunk,0,0,0) for all x0,x1; "neg": (0,0,0,x3,x4,chunk); "cross": reduced alphabet^2
    pub part: String,
    pub chunk: u32,
}

fn reduced_triples() -> Vec<[u8; 3]> {
    let mut v = vec![];
    for a in [0x00u8, 0x01, 0x80, 0xFF, 0x55, 0xAA, 0x0F, 0xF0] {
        for b in [0x00u8, 0xFF, 0x5A, 0x01] {
            for c in [0x00u8, 0x1F, 0xFF, 0xE0, 0x10, 0x3F, 0x01, 0xEA] {
                v.push([a, b, c]);
            }
        }
    }
    v
}

fn cbd_script(c: &CbdCase) -> Vec<u8> {
    let mut s = Vec::with_capacity(6 * 65536);
    match c.part.as_str() {
        "pos" | "neg" => {
            for a in 0..=255u8 {
                for b in 0..=255u8 {
                    if c.part == "pos" {
                        s.extend_from_slice(&[a, b, c.chunk as u8, 0, 0, 0]);
                    } else {
                        s.extend_from_slice(&[0, 0, 0, a, b, c.chunk as u8]);
                    }
                }
            }
        }
        _ => {
            let t = reduced_triples();
            for p in &t {
                for n in &t {
                    s.extend_from_slice(&[p[0], p[1], p[2], n[0], n[1], n[2]]);
                }
            }
        }
    }
    s
}

/// end-to-end witness: a context the library accepts (SecurityLevel::None) whose only prime is below 22
fn check_cbd_e2e(c: &CbdCase) -> CaseOut {
    use heathcliff::{Ciphertext, Encryptor, HeContext, KeyGenerator, SecurityLevel};
    crate::he::env_real(1, c.chunk as u64);
    let q = c.moduli[0];
    let n = 2usize;
    let r = guard(|| {
        let p = EncryptionParameters::new(SchemeType::BFV).set_poly_modulus_degree(n).set_coeff_modulus(&[Modulus::new(q)]).set_plain_modulus_u64(2);
        let ctx = HeContext::new(p, true, SecurityLevel::None);
        if !ctx.parameters_set() {
            return None;
        }
        let kg = KeyGenerator::new(ctx.clone());
        let enc = Encryptor::new(ctx.clone()).set_secret_key(kg.secret_key().clone());
        let mut ct = Ciphertext::new();
        enc.encrypt_zero_symmetric(&mut ct);
        Some(ct.data().clone())
    });
    match r {
        Ok(None) => CaseOut::skip("context rejects the parameters"),
        Ok(Some(d)) => {
            if let Some(&x) = d.iter().find(|&&x| x >= q) {
                CaseOut::fail("cbd_small:e2e:coefficient-out-of-range", format!("BFV N=2 q={q} t=2, entropy tag {}: every coefficient of a fresh symmetric encryption of zero is below q", c.chunk), format!("{x} in {d:?}"))
            } else {
                CaseOut::pass(true, h64(&("e2e", q)), 1)
            }
        }
        Err(p) => CaseOut::fail(format!("cbd_small:e2e:panic:{}", panic_class(&p)), format!("BFV N=2 q={q} t=2 (accepted by HeContext), entropy tag {}: encrypt_zero_symmetric returns", c.chunk), p),
    }
}

fn check_cbd(c: &CbdCase, section: &str) -> CaseOut {
    if c.part == "e2e" {
        return check_cbd_e2e(c);
    }
    real_noise();
    let script = cbd_script(c);
    let n = script.len() / 6;
    let k = c.moduli.len();
    let p = parms(n, &c.moduli);
    let mut dest = vec![u64::MAX; n * k];
    let mut rng = Script::new(&script);
    if let Err(pn) = guard(|| sample::centered_binomial(&mut rng, &p, &mut dest)) {
        // find the first coefficient the reference says is affected, for the message
        return CaseOut::fail(
            format!("{section}:panic:{}", panic_class(&pn)),
            format!("moduli {:?} part {} chunk {:#x}: centered_binomial returns residues for every byte pattern", c.moduli, c.part, c.chunk),
            pn,
        );
    }
    if rng.overrun || rng.consumed() != 6 * n || rng.n32 != 0 || rng.n64 != 0 || rng.nfill != n as u64 {
        // not the reference mapping (6 bytes per coefficient through fill_bytes): decided on the discovered structure instead
        return agn_out(section, cbd_agnostic(&c.moduli));
    }
    let mut hist = [0u64; 43];
    for i in 0..n {
        let x = &script[6 * i..6 * i + 6];
        let v = cbd_ref(x);
        hist[(v + 21) as usize] += 1;
        for (j, &q) in c.moduli.iter().enumerate() {
            let e = signed_residue(v as i64, q);
            let o = dest[i + j * n];
            if o != e {
                // differs from the reference mapping: the verdict is the one of the mapping-agnostic path
                let _ = (x, e, o);
                return agn_out(section, cbd_agnostic(&c.moduli));
            }
        }
    }
    // exact push-forward distribution of the exhaustive halves
    if c.part == "pos" || c.part == "neg" {
        let w = ((c.chunk as u8) & 0x1f).count_ones() as i32;
        let b16 = binomials(16);
        for t in 0..=16i32 {
            let v = if c.part == "pos" { w + t } else { -(w + t) };
            if hist[(v + 21) as usize] != b16[t as usize] {
                return CaseOut::fail(format!("{section}:distribution"), format!("C(16,{t}) = {} patterns with value {v}", b16[t as usize]), format!("{}", hist[(v + 21) as usize]));
            }
        }
    }
    let minv = (0..43).find(|&i| hist[i] > 0).unwrap() as i32 - 21;
    let maxv = (0..43).rev().find(|&i| hist[i] > 0).unwrap() as i32 - 21;
    CaseOut::pass(true, h64(&(c.part.as_str(), k, minv, maxv)), (n * k) as u64)
}

fn big_moduli() -> Vec<u64> {
    // different sizes: 61, 7, 30, 20, 60, 45 bits (largest odd prime of each size)
    [61usize, 7, 30, 20, 60, 45].iter().map(|&b| primes_1_mod(2, b, 1)[0]).collect()
}

fn cbd_cases() -> Vec<CbdCase> {
    let m = big_moduli();
    let mut chunks: Vec<u32> = (0..32).collect();
    chunks.extend([0x20, 0x40, 0x80, 0xE0, 0xFF, 0xF5]);
    let mut v = vec![];
    for k in 1..=6 {
        let moduli = m[..k].to_vec();
        v.push(CbdCase { moduli: moduli.clone(), part: "cross".into(), chunk: 0 });
        for part in ["pos", "neg"] {
            for &ch in &chunks {
                v.push(CbdCase { moduli: moduli.clone(), part: part.into(), chunk: ch });
            }
        }
    }
    v
}

fn cbd_small_cases() -> Vec<CbdCase> {
    let mut v = vec![];
    for q in [5u64, 13, 17] {
        for tag in 0..16 {
            v.push(CbdCase { moduli: vec![q], part: "e2e".into(), chunk: tag });
        }
    }
    for q in [2u64, 3, 5, 17, 20, 21, 22, 23, 41, 42, 43] {
        for moduli in [vec![q], vec![q, 1073741789]] {
            v.push(CbdCase { moduli: moduli.clone(), part: "cross".into(), chunk: 0 });
            for part in ["pos", "neg"] {
                for ch in [0u32, 0x1f, 0x0a] {
                    v.push(CbdCase { moduli: moduli.clone(), part: part.into(), chunk: ch });
                }
            }
        }
    }
    v
}

// ---------------------------------------------------------------------------------------------
// ternary
// ---------------------------------------------------------------------------------------------

#[derive(Serialize, Deserialize, Clone, Debug)]
pub struct TernCase {
    pub moduli: Vec<u64>,
    /// "range": every draw in [lo, hi); "lattice": (i << 12 | pattern(i)) for i in [lo, hi) plus windows around the thresholds
    pub family: String,
    pub lo: u64,
    pub hi: u64,
}

const CALL: usize = 1 << 16;

/// Runs the sampler over the draws (the last 8 are padding for retries), returns class counts of
/// the verified draws [-1, 0, +1, rejected] and the number of draws verified.
fn tern_run(moduli: &[u64], draws: &[u32]) -> Result<([u64; 4], usize), Bad> {
    let k = moduli.len();
    let mut counts = [0u64; 4];
    let mut pos = 0usize;
    let mut bytes: Vec<u8> = Vec::with_capacity(4 * (CALL + 8));
    let mut dest = vec![0u64; CALL * k];
    let p_full = parms(CALL, moduli);
    while draws.len() - pos > 8 {
        let n = CALL.min(draws.len() - pos - 8);
        let p_small;
        let p = if n == CALL {
            &p_full
        } else {
            p_small = parms(n, moduli);
            &p_small
        };
        let window = &draws[pos..pos + n + 8];
        bytes.clear();
        for v in window {
            bytes.extend_from_slice(&v.to_le_bytes());
        }
        let mut rng = Script::new(&bytes);
        let d = &mut dest[..n * k];
        d.iter_mut().for_each(|x| *x = u64::MAX);
        if let Err(pn) = guard(|| sample::ternary(&mut rng, p, d)) {
            return Err((format!("panic:{}", panic_class(&pn)), format!("no panic for draws starting at {:#x}", window[0]), pn));
        }
        // reference
        let mut w = 0usize;
        for i in 0..n {
            let val = loop {
                let v = window[w];
                w += 1;
                match unbiased_accept(v as u64, 3, 32) {
                    Some(h) => {
                        counts[h as usize] += 1;
                        break (h as i64 - 1, v);
                    }
                    None => counts[3] += 1,
                }
                if w >= n + 8 {
                    return Err(("machinery".into(), "padding suffices".into(), "too many rejections in one window".into()));
                }
            };
            for (j, &q) in moduli.iter().enumerate() {
                let e = signed_residue(val.0, q);
                let o = d[i + j * n];
                if o != e {
                    return Err((
                        "wrong-value".into(),
                        format!("u32 draw {:#010x} -> {} -> component {j} (q={q}) = {e}", val.1, val.0),
                        format!("{o}"),
                    ));
                }
            }
        }
        if rng.overrun || rng.consumed() != 4 * w || rng.nfill != 0 {
            return Err((
                "consumption".into(),
                format!("{} u32 draws for {} coefficients starting at draw {:#x} (one retry per rejected draw)", w, n, window[0]),
                format!("{} bytes consumed, next_u32 {}, next_u64 {}, fill_bytes {}", rng.consumed(), rng.n32, rng.n64, rng.nfill),
            ));
        }
        pos += w;
    }
    Ok((counts, pos))
}

fn check_tern(c: &TernCase) -> CaseOut {
    real_noise();
    let mut draws: Vec<u32> = vec![];
    match c.family.as_str() {
        "range" => draws.extend((c.lo..c.hi).map(|v| v as u32)),
        _ => {
            for i in c.lo..c.hi {
                let pat = [0x555u64, 0xAAA, 0x000, 0xFFF, 0xAAB, 0x556][(i % 6) as usize];
                draws.push(((i << 12) | pat) as u32);
            }
            if c.lo == 0 {
                for center in [0u64, 0x5555_5555, 0xAAAA_AAAA, 0xFFFF_FFFF] {
                    for d in 0..2048u64 {
                        draws.push(center.wrapping_add(d) as u32);
                        draws.push(center.wrapping_sub(d) as u32);
                    }
                }
            }
        }
    }
    let verified_end = draws.len();
    draws.extend([0u32; 8]);
    match tern_run(&c.moduli, &draws) {
        // not the reference mapping (one u32 per attempt, widening multiply by 3): decided on the discovered structure
        Err((k, _, _)) if k == "wrong-value" || k == "consumption" => agn_out("ternary", tern_agnostic(&c.moduli)),
        Err((k, e, o)) => CaseOut::fail(format!("ternary:{k}"), format!("moduli {:?}: {e}", c.moduli), o),
        Ok((counts, pos)) => {
            if pos < verified_end {
                return CaseOut::fail("ternary:machinery-short", "all draws verified", format!("{pos} of {verified_end}"));
            }
            if c.family == "range" {
                // exact class sizes of the range (closed form), draws beyond `hi` are padding zeros (class -1)
                let mut exp = ternary_interval_counts(c.lo, c.hi);
                exp[0] += (pos - verified_end) as u64;
                if counts != exp {
                    return CaseOut::fail(
                        "ternary:class-counts",
                        format!("draws [{:#x},{:#x}): (-1,0,+1,rejected) = {:?}", c.lo, c.hi, exp),
                        format!("{counts:?}"),
                    );
                }
            }
            let classes = counts.iter().filter(|&&x| x > 0).count();
            CaseOut::pass(true, h64(&(c.family.as_str(), c.moduli.len(), classes)), pos as u64 * c.moduli.len() as u64)
        }
    }
}

fn tern_cases(thorough: bool) -> (Vec<TernCase>, String) {
    let m = big_moduli();
    let mut v = vec![];
    // RNS consistency on the lattice, 1..6 primes and tiny ones
    let mut sets: Vec<Vec<u64>> = (1..=6).map(|k| m[..k].to_vec()).collect();
    sets.push(vec![2]);
    sets.push(vec![3, 2, 5]);
    for s in &sets {
        for part in 0..4u64 {
            v.push(TernCase { moduli: s.clone(), family: "lattice".into(), lo: part << 18, hi: (part + 1) << 18 });
        }
    }
    // exhaustive ranges, one modulus
    let one = vec![m[0]];
    let span: u64 = 1 << 22;
    let bound;
    if thorough {
        for i in 0..(1u64 << 32) / span {
            v.push(TernCase { moduli: one.clone(), family: "range".into(), lo: i * span, hi: (i + 1) * span });
        }
        bound = "ALL 2^32 u32 draws (1024 ranges of 2^22, one 61-bit modulus): value, retry on the single rejected draw, exact class sizes; RNS consistency for 1..6 primes and {2},{3,2,5} on 2^20 lattice draws + windows of 4096 around 0, 0x55555555, 0xAAAAAAAA, 0xFFFFFFFF";
    } else {
        // windows of 2^26 around every threshold and at the two ends (4 * 2^26 = 2^28 draws)
        let half: u64 = 1 << 25;
        let mut los: Vec<u64> = vec![];
        for center in [half, 0x5555_5555, 0xAAAA_AAAB, (1u64 << 32) - half] {
            let lo = (center - half) / span * span;
            let hi = ((center + half + span - 1) / span * span).min(1 << 32);
            let mut a = lo;
            while a < hi {
                if !los.contains(&a) {
                    los.push(a);
                }
                a += span;
            }
        }
        for a in los {
            v.push(TernCase { moduli: one.clone(), family: "range".into(), lo: a, hi: a + span });
        }
        bound = "all u32 draws in windows of >= 2^26 around 0, 0x55555555 (the rejected draw), 0xAAAAAAAB and 2^32 (one 61-bit modulus): value, retry, exact class sizes of each range; RNS consistency for 1..6 primes and {2},{3,2,5} on 2^20 lattice draws (i<<12|pattern) + windows of 4096 around the thresholds";
    }
    (v, bound.into())
}

// ---------------------------------------------------------------------------------------------
// uniform
// ---------------------------------------------------------------------------------------------

#[derive(Serialize, Deserialize, Clone, Debug)]
pub struct UniCase {
    pub moduli: Vec<u64>,
    /// "top16" | "boundary" | "steps"
    pub family: String,
}

fn inv_mod_2_64(q: u64) -> u64 {
    // Newton iteration, q odd
    let mut x = q;
    for _ in 0..6 {
        x = x.wrapping_mul(2u64.wrapping_sub(q.wrapping_mul(x)));
    }
    x
}

fn uni_draws(q: u64, family: &str) -> Vec<u64> {
    let mut v: Vec<u64> = vec![];
    let two64: u128 = 1u128 << 64;
    match family {
        "top16" => {
            for p in 0..65536u64 {
                for fill in [0u64, 0xFFFF_FFFF_FFFF, 0x5555_5555_5555] {
                    v.push(p << 48 | fill);
                }
            }
        }
        "boundary" => {
            let r = (two64 % q as u128) as u64; // number of rejected remainders
            let limit = (two64 - r as u128) as u64; // first rejected lo (wraps to 0 when r = 0: nothing rejected)
            let mut los: Vec<u64> = vec![];
            let w = 4096u64;
            if r > 0 {
                if r <= 1 << 20 {
                    los.extend(limit..=u64::MAX);
                } else {
                    los.extend(limit..limit + w);
                    los.extend(u64::MAX - w..=u64::MAX);
                }
                los.extend(limit - w..limit);
            } else {
                los.extend(u64::MAX - w..=u64::MAX);
            }
            los.extend(0..w);
            if q % 2 == 1 {
                let inv = inv_mod_2_64(q);
                v.extend(los.iter().map(|lo| lo.wrapping_mul(inv)));
            } else {
                // lo = v*q mod 2^64 is not surjective; use the draws themselves
                v.extend(los);
            }
        }
        _ => {
            // result steps: draws around ceil(k * 2^64 / q)
            let ks: Vec<u64> = if q <= 4097 { (1..q).collect() } else { vec![1, 2, 3, q / 2, q / 2 + 1, q - 2, q - 1] };
            for k in ks {
                let b = ((k as u128 * two64 + q as u128 - 1) / q as u128) as u64;
                for d in 0..8u64 {
                    v.push(b.wrapping_add(d));
                    v.push(b.wrapping_sub(d + 1));
                }
            }
            v.extend([0, 1, u64::MAX, u64::MAX - 1, 1 << 63, (1 << 63) - 1]);
        }
    }
    v
}

fn check_uni(c: &UniCase) -> CaseOut {
    real_noise();
    // per modulus: draws truncated after the n-th accepted one (same n for all moduli)
    let per: Vec<Vec<u64>> = c.moduli.iter().map(|&q| uni_draws(q, &c.family)).collect();
    let accepted: Vec<usize> = per.iter().zip(&c.moduli).map(|(d, &q)| d.iter().filter(|&&v| unbiased_accept(v, q, 64).is_some()).count()).collect();
    let n = *accepted.iter().min().unwrap();
    if n == 0 {
        return CaseOut::skip("no accepted draw");
    }
    let mut script: Vec<u8> = vec![];
    let mut expected: Vec<u64> = vec![];
    let mut rejected = 0u64;
    let mut draws_total = 0usize;
    let mut origin: Vec<u64> = vec![];
    for (d, &q) in per.iter().zip(&c.moduli) {
        let mut got = 0;
        for &v in d {
            if got == n {
                break;
            }
            script.extend_from_slice(&v.to_le_bytes());
            draws_total += 1;
            match unbiased_accept(v, q, 64) {
                Some(h) => {
                    expected.push(h);
                    origin.push(v);
                    got += 1;
                }
                None => rejected += 1,
            }
        }
    }
    let k = c.moduli.len();
    let p = parms(n, &c.moduli);
    let mut dest = vec![u64::MAX; n * k];
    let mut rng = Script::new(&script);
    if let Err(pn) = guard(|| sample::uniform(&mut rng, &p, &mut dest)) {
        return CaseOut::fail(format!("uniform:panic:{}", panic_class(&pn)), format!("moduli {:?} family {}: no panic", c.moduli, c.family), pn);
    }
    for j in 0..k {
        let q = c.moduli[j];
        for i in 0..n {
            let (o, e) = (dest[i + j * n], expected[i + j * n]);
            if o >= q {
                return CaseOut::fail("uniform:out-of-range", format!("q={q}: sample below q (accepted draw {:#x})", origin[i + j * n]), format!("{o}"));
            }
            if o != e {
                // not the reference rule (one u64 per attempt, floor(v*q/2^64), rejection of the top remainders). The property
                // asks for samples below each modulus and a uniform distribution; uniformity of an unknown map of 2^64 draws
                // cannot be enumerated, so after the range of EVERY produced sample has been enforced the case is undecided.
                for jj in 0..k {
                    if let Some(ii) = (0..n).find(|&ii| dest[ii + jj * n] >= c.moduli[jj]) {
                        return CaseOut::fail("uniform:out-of-range", format!("q={}: sample below q (component {jj} coefficient {ii})", c.moduli[jj]), format!("{}", dest[ii + jj * n]));
                    }
                }
                // necessary condition that survives any mapping: for a small modulus every residue is produced. Generator output =
                // the Weyl sequence i * 0x9E3779B97F4A7C15 (high and low bits both move), 2^16 coefficients per modulus <= 4097.
                for &q in c.moduli.iter().filter(|&&q| q <= 4097) {
                    let nn = 1usize << 16;
                    let mut sc = Vec::with_capacity(nn * 32);
                    for i in 0..(nn as u64 * 4) {
                        sc.extend_from_slice(&i.wrapping_mul(0x9E37_79B9_7F4A_7C15).to_le_bytes());
                    }
                    let pp = parms(nn, &[q]);
                    let mut dd = vec![u64::MAX; nn];
                    let mut rr = Script::new(&sc);
                    if let Err(pn) = guard(|| sample::uniform(&mut rr, &pp, &mut dd)) {
                        return CaseOut::fail(format!("uniform:panic:{}", panic_class(&pn)), format!("q={q}: no panic on the Weyl sequence"), pn);
                    }
                    if rr.overrun {
                        continue;
                    }
                    let mut seen = vec![false; q as usize];
                    for &x in &dd {
                        if x >= q {
                            return CaseOut::fail("uniform:out-of-range", format!("q={q}: sample below q"), format!("{x}"));
                        }
                        seen[x as usize] = true;
                    }
                    if let Some(miss) = seen.iter().position(|&b| !b) {
                        return CaseOut::fail(
                            "uniform:residue-never-produced",
                            format!("q={q}: every residue 0..q-1 occurs among 65536 samples drawn from the Weyl sequence i*0x9E3779B97F4A7C15 (a uniform sampler gives each about {} times)", 65536 / q),
                            format!("residue {miss} never occurs"),
                        );
                    }
                }
                return CaseOut::undecided("uniform sampler: accepted draws are not mapped by the reference rule floor(v*q/2^64) with rejection of the top (2^64 mod q) remainders; exact uniformity is not decided (range enforced on every sample)");
            }
        }
    }
    if rng.overrun || rng.consumed() != 8 * draws_total || rng.nfill != 0 {
        return CaseOut::undecided(&format!(
            "uniform sampler: values agree with the reference rule but the generator is consumed differently ({} bytes, next_u64 {}, next_u32 {}, fill_bytes {} for {} reference draws)",
            rng.consumed(), rng.n64, rng.n32, rng.nfill, draws_total
        ));
    }
    CaseOut::pass(rejected > 0, h64(&(c.family.as_str(), k, rejected > 0)), (n * k) as u64)
}

fn uni_cases() -> Vec<UniCase> {
    let p20 = primes_1_mod(2, 20, 1)[0];
    let p60 = primes_1_mod(2, 60, 1)[0];
    let p61 = primes_1_mod(2, 61, 1)[0];
    let singles: Vec<u64> = vec![2, 3, 5, 17, p20, p60, 1 << 20, p61, (1 << 60) + 1, 6, 4097];
    let mut v = vec![];
    for fam in ["top16", "boundary", "steps"] {
        for &q in &singles {
            v.push(UniCase { moduli: vec![q], family: fam.into() });
        }
        v.push(UniCase { moduli: vec![2, 3, 5, 17, p20, p60], family: fam.into() });
        v.push(UniCase { moduli: vec![p60, p20, 17, 5, 3, 2], family: fam.into() });
    }
    v
}

pub fn sections(thorough: bool) -> Vec<Box<dyn AnySection>> {
    let mut v: Vec<Box<dyn AnySection>> = vec![];
    v.push(
        E1::new(
            "cbd",
            "1..6 moduli of 61,7,30,20,60,45 bits: ALL 2^21 (+ unmasked high bits) byte patterns of the positive half with zero negative half and vice versa, 2^16 cross product of a reduced alphabet",
            cbd_cases().into_iter(),
            |c: &CbdCase| check_cbd(c, "cbd"),
        )
        .deadline(Duration::from_secs(60)),
    );
    v.push(
        E1::new(
            "cbd_small_moduli",
            "moduli {2,3,5,17,20,21,22,23,41,42,43} alone and next to a 30-bit prime: reduced cross product and three exhaustive 2^16 slices of each half",
            cbd_small_cases().into_iter(),
            |c: &CbdCase| check_cbd(c, "cbd_small"),
        )
        .deadline(Duration::from_secs(60)),
    );
    let (cases, bound) = tern_cases(thorough);
    v.push(E1::new("ternary", &bound, cases.into_iter(), check_tern).deadline(Duration::from_secs(900)));
    v.push(
        E1::new(
            "uniform",
            "moduli {2,3,5,17,6,4097,2^20,20-bit prime,60-bit prime,2^60+1,61-bit prime} alone and six together in both orders: u64 draws = 3*2^16 top-16-bit patterns; every rejected remainder (<= 2^20 of them, else windows of 4096) and 4096 on either side of the acceptance limit, mapped back through q^-1 mod 2^64; 16 draws around every result step k*2^64/q",
            uni_cases().into_iter(),
            check_uni,
        )
        .deadline(Duration::from_secs(60)),
    );
    v
}
