//! C16 (c): the three samplers as functions of the generator output (scripted mock generator).

use crate::engine::*;
use crate::refmodel::bigu::primes_1_mod;
use crate::refmodel::blakestream::*;
use heathcliff::util::rlwe::sample;
use heathcliff::verif_hooks::{self, NoiseMode};
use heathcliff::{EncryptionParameters, Modulus, SchemeType};
use rand::RngCore;
use serde::{Deserialize, Serialize};
use std::time::Duration;

/// Replays a byte script; all three entry points consume it sequentially (little-endian words).
pub struct Script<'a> {
    data: &'a [u8],
    pos: usize,
    pub overrun: bool,
    pub n32: u64,
    pub n64: u64,
    pub nfill: u64,
    pub fill_bytes_total: u64,
}

impl<'a> Script<'a> {
    pub fn new(data: &'a [u8]) -> Self {
        Script { data, pos: 0, overrun: false, n32: 0, n64: 0, nfill: 0, fill_bytes_total: 0 }
    }
    fn take(&mut self, dest: &mut [u8]) {
        let n = dest.len();
        if self.pos + n <= self.data.len() {
            dest.copy_from_slice(&self.data[self.pos..self.pos + n]);
        } else {
            self.overrun = true;
            for d in dest.iter_mut() {
                *d = 0;
            }
        }
        self.pos += n;
    }
    pub fn consumed(&self) -> usize {
        self.pos
    }
}

impl RngCore for Script<'_> {
    fn next_u32(&mut self) -> u32 {
        self.n32 += 1;
        let mut b = [0u8; 4];
        self.take(&mut b);
        u32::from_le_bytes(b)
    }
    fn next_u64(&mut self) -> u64 {
        self.n64 += 1;
        let mut b = [0u8; 8];
        self.take(&mut b);
        u64::from_le_bytes(b)
    }
    fn fill_bytes(&mut self, dest: &mut [u8]) {
        self.nfill += 1;
        self.fill_bytes_total += dest.len() as u64;
        self.take(dest)
    }
    fn try_fill_bytes(&mut self, dest: &mut [u8]) -> Result<(), rand::Error> {
        self.fill_bytes(dest);
        Ok(())
    }
}

fn parms(n: usize, moduli: &[u64]) -> EncryptionParameters {
    let mods: Vec<Modulus> = moduli.iter().map(|&q| Modulus::new(q)).collect();
    EncryptionParameters::new(SchemeType::CKKS).set_poly_modulus_degree(n).set_coeff_modulus(&mods)
}

fn real_noise() {
    verif_hooks::set_noise(NoiseMode::Real, NoiseMode::Real);
}

type Bad = (String, String, String); // (key suffix, expected, observed)

// ---------------------------------------------------------------------------------------------
// centered binomial
// ---------------------------------------------------------------------------------------------

#[derive(Serialize, Deserialize, Clone, Debug)]
pub struct CbdCase {
    pub moduli: Vec<u64>,
    /// "pos": bytes (x0,x1,chunk,0,0,0) for all x0,x1; "neg": (0,0,0,x3,x4,chunk); "cross": reduced alphabet^2
    pub part: String,
    pub chunk: u32,
}

fn reduced_triples() -> Vec<[u8; 3]> {
    let mut v = vec![];
    for a in [0x00u8, 0x01, 0x80, 0xFF, 0x55, 0xAA, 0x0F, 0xF0] {
        for b in [0x00u8, 0xFF, 0x5A, 0x01] {
            for c in [0x00u8, 0x1F, 0xFF, 0xE0, 0x10, 0x3F, 0x01, 0xEA] {
                v.push([a, b, c]);
            }
        }
    }
    v
}

fn cbd_script(c: &CbdCase) -> Vec<u8> {
    let mut s = Vec::with_capacity(6 * 65536);
    match c.part.as_str() {
        "pos" | "neg" => {
            for a in 0..=255u8 {
                for b in 0..=255u8 {
                    if c.part == "pos" {
                        s.extend_from_slice(&[a, b, c.chunk as u8, 0, 0, 0]);
                    } else {
                        s.extend_from_slice(&[0, 0, 0, a, b, c.chunk as u8]);
                    }
                }
            }
        }
        _ => {
            let t = reduced_triples();
            for p in &t {
                for n in &t {
                    s.extend_from_slice(&[p[0], p[1], p[2], n[0], n[1], n[2]]);
                }
            }
        }
    }
    s
}

/// end-to-end witness: a context the library accepts (SecurityLevel::None) whose only prime is below 22
fn check_cbd_e2e(c: &CbdCase) -> CaseOut {
    use heathcliff::{Ciphertext, Encryptor, HeContext, KeyGenerator, SecurityLevel};
    crate::he::env_real(1, c.chunk as u64);
    let q = c.moduli[0];
    let n = 2usize;
    let r = guard(|| {
        let p = EncryptionParameters::new(SchemeType::BFV).set_poly_modulus_degree(n).set_coeff_modulus(&[Modulus::new(q)]).set_plain_modulus_u64(2);
        let ctx = HeContext::new(p, true, SecurityLevel::None);
        if !ctx.parameters_set() {
            return None;
        }
        let kg = KeyGenerator::new(ctx.clone());
        let enc = Encryptor::new(ctx.clone()).set_secret_key(kg.secret_key().clone());
        let mut ct = Ciphertext::new();
        enc.encrypt_zero_symmetric(&mut ct);
        Some(ct.data().clone())
    });
    match r {
        Ok(None) => CaseOut::skip("context rejects the parameters"),
        Ok(Some(d)) => {
            if let Some(&x) = d.iter().find(|&&x| x >= q) {
                CaseOut::fail("cbd_small:e2e:coefficient-out-of-range", format!("BFV N=2 q={q} t=2, entropy tag {}: every coefficient of a fresh symmetric encryption of zero is below q", c.chunk), format!("{x} in {d:?}"))
            } else {
                CaseOut::pass(true, h64(&("e2e", q)), 1)
            }
        }
        Err(p) => CaseOut::fail(format!("cbd_small:e2e:panic:{}", panic_class(&p)), format!("BFV N=2 q={q} t=2 (accepted by HeContext), entropy tag {}: encrypt_zero_symmetric returns", c.chunk), p),
    }
}

fn check_cbd(c: &CbdCase, section: &str) -> CaseOut {
    if c.part == "e2e" {
        return check_cbd_e2e(c);
    }
    real_noise();
    let script = cbd_script(c);
    let n = script.len() / 6;
    let k = c.moduli.len();
    let p = parms(n, &c.moduli);
    let mut dest = vec![u64::MAX; n * k];
    let mut rng = Script::new(&script);
    if let Err(pn) = guard(|| sample::centered_binomial(&mut rng, &p, &mut dest)) {
        // find the first coefficient the reference says is affected, for the message
        return CaseOut::fail(
            format!("{section}:panic:{}", panic_class(&pn)),
            format!("moduli {:?} part {} chunk {:#x}: centered_binomial returns residues for every byte pattern", c.moduli, c.part, c.chunk),
            pn,
        );
    }
    if rng.overrun || rng.consumed() != 6 * n || rng.n32 != 0 || rng.n64 != 0 || rng.nfill != n as u64 {
        return CaseOut::fail(
            format!("{section}:consumption"),
            format!("6 bytes per coefficient by fill_bytes ({} coefficients)", n),
            format!("consumed {} bytes, fill_bytes calls {}, next_u32 {}, next_u64 {}", rng.consumed(), rng.nfill, rng.n32, rng.n64),
        );
    }
    let mut hist = [0u64; 43];
    for i in 0..n {
        let x = &script[6 * i..6 * i + 6];
        let v = cbd_ref(x);
        hist[(v + 21) as usize] += 1;
        for (j, &q) in c.moduli.iter().enumerate() {
            let e = signed_residue(v as i64, q);
            let o = dest[i + j * n];
            if o != e {
                return CaseOut::fail(
                    format!("{section}:wrong-residue"),
                    format!("bytes {:02x?} -> value hw+ - hw- = {v}; component {j} (q={q}) = {e}", x, ),
                    format!("{o}"),
                );
            }
        }
    }
    // exact push-forward distribution of the exhaustive halves
    if c.part == "pos" || c.part == "neg" {
        let w = ((c.chunk as u8) & 0x1f).count_ones() as i32;
        let b16 = binomials(16);
        for t in 0..=16i32 {
            let v = if c.part == "pos" { w + t } else { -(w + t) };
            if hist[(v + 21) as usize] != b16[t as usize] {
                return CaseOut::fail(format!("{section}:distribution"), format!("C(16,{t}) = {} patterns with value {v}", b16[t as usize]), format!("{}", hist[(v + 21) as usize]));
            }
        }
    }
    let minv = (0..43).find(|&i| hist[i] > 0).unwrap() as i32 - 21;
    let maxv = (0..43).rev().find(|&i| hist[i] > 0).unwrap() as i32 - 21;
    CaseOut::pass(true, h64(&(c.part.as_str(), k, minv, maxv)), (n * k) as u64)
}

fn big_moduli() -> Vec<u64> {
    // different sizes: 61, 7, 30, 20, 60, 45 bits (largest odd prime of each size)
    [61usize, 7, 30, 20, 60, 45].iter().map(|&b| primes_1_mod(2, b, 1)[0]).collect()
}

fn cbd_cases() -> Vec<CbdCase> {
    let m = big_moduli();
    let mut chunks: Vec<u32> = (0..32).collect();
    chunks.extend([0x20, 0x40, 0x80, 0xE0, 0xFF, 0xF5]);
    let mut v = vec![];
    for k in 1..=6 {
        let moduli = m[..k].to_vec();
        v.push(CbdCase { moduli: moduli.clone(), part: "cross".into(), chunk: 0 });
        for part in ["pos", "neg"] {
            for &ch in &chunks {
                v.push(CbdCase { moduli: moduli.clone(), part: part.into(), chunk: ch });
            }
        }
    }
    v
}

fn cbd_small_cases() -> Vec<CbdCase> {
    let mut v = vec![];
    for q in [5u64, 13, 17] {
        for tag in 0..16 {
            v.push(CbdCase { moduli: vec![q], part: "e2e".into(), chunk: tag });
        }
    }
    for q in [2u64, 3, 5, 17, 20, 21, 22, 23, 41, 42, 43] {
        for moduli in [vec![q], vec![q, 1073741789]] {
            v.push(CbdCase { moduli: moduli.clone(), part: "cross".into(), chunk: 0 });
            for part in ["pos", "neg"] {
                for ch in [0u32, 0x1f, 0x0a] {
                    v.push(CbdCase { moduli: moduli.clone(), part: part.into(), chunk: ch });
                }
            }
        }
    }
    v
}

// ---------------------------------------------------------------------------------------------
// ternary
// ---------------------------------------------------------------------------------------------

#[derive(Serialize, Deserialize, Clone, Debug)]
pub struct TernCase {
    pub moduli: Vec<u64>,
    /// "range": every draw in [lo, hi); "lattice": (i << 12 | pattern(i)) for i in [lo, hi) plus windows around the thresholds
    pub family: String,
    pub lo: u64,
    pub hi: u64,
}

const CALL: usize = 1 << 16;

/// Runs the sampler over the draws (the last 8 are padding for retries), returns class counts of
/// the verified draws [-1, 0, +1, rejected] and the number of draws verified.
fn tern_run(moduli: &[u64], draws: &[u32]) -> Result<([u64; 4], usize), Bad> {
    let k = moduli.len();
    let mut counts = [0u64; 4];
    let mut pos = 0usize;
    let mut bytes: Vec<u8> = Vec::with_capacity(4 * (CALL + 8));
    let mut dest = vec![0u64; CALL * k];
    let p_full = parms(CALL, moduli);
    while draws.len() - pos > 8 {
        let n = CALL.min(draws.len() - pos - 8);
        let p_small;
        let p = if n == CALL {
            &p_full
        } else {
            p_small = parms(n, moduli);
            &p_small
        };
        let window = &draws[pos..pos + n + 8];
        bytes.clear();
        for v in window {
            bytes.extend_from_slice(&v.to_le_bytes());
        }
        let mut rng = Script::new(&bytes);
        let d = &mut dest[..n * k];
        d.iter_mut().for_each(|x| *x = u64::MAX);
        if let Err(pn) = guard(|| sample::ternary(&mut rng, p, d)) {
            return Err((format!("panic:{}", panic_class(&pn)), format!("no panic for draws starting at {:#x}", window[0]), pn));
        }
        // reference
        let mut w = 0usize;
        for i in 0..n {
            let val = loop {
                let v = window[w];
                w += 1;
                match unbiased_accept(v as u64, 3, 32) {
                    Some(h) => {
                        counts[h as usize] += 1;
                        break (h as i64 - 1, v);
                    }
                    None => counts[3] += 1,
                }
                if w >= n + 8 {
                    return Err(("machinery".into(), "padding suffices".into(), "too many rejections in one window".into()));
                }
            };
            for (j, &q) in moduli.iter().enumerate() {
                let e = signed_residue(val.0, q);
                let o = d[i + j * n];
                if o != e {
                    return Err((
                        "wrong-value".into(),
                        format!("u32 draw {:#010x} -> {} -> component {j} (q={q}) = {e}", val.1, val.0),
                        format!("{o}"),
                    ));
                }
            }
        }
        if rng.overrun || rng.consumed() != 4 * w || rng.nfill != 0 {
            return Err((
                "consumption".into(),
                format!("{} u32 draws for {} coefficients starting at draw {:#x} (one retry per rejected draw)", w, n, window[0]),
                format!("{} bytes consumed, next_u32 {}, next_u64 {}, fill_bytes {}", rng.consumed(), rng.n32, rng.n64, rng.nfill),
            ));
        }
        pos += w;
    }
    Ok((counts, pos))
}

fn check_tern(c: &TernCase) -> CaseOut {
    real_noise();
    let mut draws: Vec<u32> = vec![];
    match c.family.as_str() {
        "range" => draws.extend((c.lo..c.hi).map(|v| v as u32)),
        _ => {
            for i in c.lo..c.hi {
                let pat = [0x555u64, 0xAAA, 0x000, 0xFFF, 0xAAB, 0x556][(i % 6) as usize];
                draws.push(((i << 12) | pat) as u32);
            }
            if c.lo == 0 {
                for center in [0u64, 0x5555_5555, 0xAAAA_AAAA, 0xFFFF_FFFF] {
                    for d in 0..2048u64 {
                        draws.push(center.wrapping_add(d) as u32);
                        draws.push(center.wrapping_sub(d) as u32);
                    }
                }
            }
        }
    }
    let verified_end = draws.len();
    draws.extend([0u32; 8]);
    match tern_run(&c.moduli, &draws) {
        Err((k, e, o)) => CaseOut::fail(format!("ternary:{k}"), format!("moduli {:?}: {e}", c.moduli), o),
        Ok((counts, pos)) => {
            if pos < verified_end {
                return CaseOut::fail("ternary:machinery-short", "all draws verified", format!("{pos} of {verified_end}"));
            }
            if c.family == "range" {
                // exact class sizes of the range (closed form), draws beyond `hi` are padding zeros (class -1)
                let mut exp = ternary_interval_counts(c.lo, c.hi);
                exp[0] += (pos - verified_end) as u64;
                if counts != exp {
                    return CaseOut::fail(
                        "ternary:class-counts",
                        format!("draws [{:#x},{:#x}): (-1,0,+1,rejected) = {:?}", c.lo, c.hi, exp),
                        format!("{counts:?}"),
                    );
                }
            }
            let classes = counts.iter().filter(|&&x| x > 0).count();
            CaseOut::pass(true, h64(&(c.family.as_str(), c.moduli.len(), classes)), pos as u64 * c.moduli.len() as u64)
        }
    }
}

fn tern_cases(thorough: bool) -> (Vec<TernCase>, String) {
    let m = big_moduli();
    let mut v = vec![];
    // RNS consistency on the lattice, 1..6 primes and tiny ones
    let mut sets: Vec<Vec<u64>> = (1..=6).map(|k| m[..k].to_vec()).collect();
    sets.push(vec![2]);
    sets.push(vec![3, 2, 5]);
    for s in &sets {
        for part in 0..4u64 {
            v.push(TernCase { moduli: s.clone(), family: "lattice".into(), lo: part << 18, hi: (part + 1) << 18 });
        }
    }
    // exhaustive ranges, one modulus
    let one = vec![m[0]];
    let span: u64 = 1 << 22;
    let bound;
    if thorough {
        for i in 0..(1u64 << 32) / span {
            v.push(TernCase { moduli: one.clone(), family: "range".into(), lo: i * span, hi: (i + 1) * span });
        }
        bound = "ALL 2^32 u32 draws (1024 ranges of 2^22, one 61-bit modulus): value, retry on the single rejected draw, exact class sizes; RNS consistency for 1..6 primes and {2},{3,2,5} on 2^20 lattice draws + windows of 4096 around 0, 0x55555555, 0xAAAAAAAA, 0xFFFFFFFF";
    } else {
        // windows of 2^26 around every threshold and at the two ends (4 * 2^26 = 2^28 draws)
        let half: u64 = 1 << 25;
        let mut los: Vec<u64> = vec![];
        for center in [half, 0x5555_5555, 0xAAAA_AAAB, (1u64 << 32) - half] {
            let lo = (center - half) / span * span;
            let hi = ((center + half + span - 1) / span * span).min(1 << 32);
            let mut a = lo;
            while a < hi {
                if !los.contains(&a) {
                    los.push(a);
                }
                a += span;
            }
        }
        for a in los {
            v.push(TernCase { moduli: one.clone(), family: "range".into(), lo: a, hi: a + span });
        }
        bound = "all u32 draws in windows of >= 2^26 around 0, 0x55555555 (the rejected draw), 0xAAAAAAAB and 2^32 (one 61-bit modulus): value, retry, exact class sizes of each range; RNS consistency for 1..6 primes and {2},{3,2,5} on 2^20 lattice draws (i<<12|pattern) + windows of 4096 around the thresholds";
    }
    (v, bound.into())
}

// ---------------------------------------------------------------------------------------------
// uniform
// ---------------------------------------------------------------------------------------------

#[derive(Serialize, Deserialize, Clone, Debug)]
pub struct UniCase {
    pub moduli: Vec<u64>,
    /// "top16" | "boundary" | "steps"
    pub family: String,
}

fn inv_mod_2_64(q: u64) -> u64 {
    // Newton iteration, q odd
    let mut x = q;
    for _ in 0..6 {
        x = x.wrapping_mul(2u64.wrapping_sub(q.wrapping_mul(x)));
    }
    x
}

fn uni_draws(q: u64, family: &str) -> Vec<u64> {
    let mut v: Vec<u64> = vec![];
    let two64: u128 = 1u128 << 64;
    match family {
        "top16" => {
            for p in 0..65536u64 {
                for fill in [0u64, 0xFFFF_FFFF_FFFF, 0x5555_5555_5555] {
                    v.push(p << 48 | fill);
                }
            }
        }
        "boundary" => {
            let r = (two64 % q as u128) as u64; // number of rejected remainders
            let limit = (two64 - r as u128) as u64; // first rejected lo (wraps to 0 when r = 0: nothing rejected)
            let mut los: Vec<u64> = vec![];
            let w = 4096u64;
            if r > 0 {
                if r <= 1 << 20 {
                    los.extend(limit..=u64::MAX);
                } else {
                    los.extend(limit..limit + w);
                    los.extend(u64::MAX - w..=u64::MAX);
                }
                los.extend(limit - w..limit);
            } else {
                los.extend(u64::MAX - w..=u64::MAX);
            }
            los.extend(0..w);
            if q % 2 == 1 {
                let inv = inv_mod_2_64(q);
                v.extend(los.iter().map(|lo| lo.wrapping_mul(inv)));
            } else {
                // lo = v*q mod 2^64 is not surjective; use the draws themselves
                v.extend(los);
            }
        }
        _ => {
            // result steps: draws around ceil(k * 2^64 / q)
            let ks: Vec<u64> = if q <= 4097 { (1..q).collect() } else { vec![1, 2, 3, q / 2, q / 2 + 1, q - 2, q - 1] };
            for k in ks {
                let b = ((k as u128 * two64 + q as u128 - 1) / q as u128) as u64;
                for d in 0..8u64 {
                    v.push(b.wrapping_add(d));
                    v.push(b.wrapping_sub(d + 1));
                }
            }
            v.extend([0, 1, u64::MAX, u64::MAX - 1, 1 << 63, (1 << 63) - 1]);
        }
    }
    v
}

fn check_uni(c: &UniCase) -> CaseOut {
    real_noise();
    // per modulus: draws truncated after the n-th accepted one (same n for all moduli)
    let per: Vec<Vec<u64>> = c.moduli.iter().map(|&q| uni_draws(q, &c.family)).collect();
    let accepted: Vec<usize> = per.iter().zip(&c.moduli).map(|(d, &q)| d.iter().filter(|&&v| unbiased_accept(v, q, 64).is_some()).count()).collect();
    let n = *accepted.iter().min().unwrap();
    if n == 0 {
        return CaseOut::skip("no accepted draw");
    }
    let mut script: Vec<u8> = vec![];
    let mut expected: Vec<u64> = vec![];
    let mut rejected = 0u64;
    let mut draws_total = 0usize;
    let mut origin: Vec<u64> = vec![];
    for (d, &q) in per.iter().zip(&c.moduli) {
        let mut got = 0;
        for &v in d {
            if got == n {
                break;
            }
            script.extend_from_slice(&v.to_le_bytes());
            draws_total += 1;
            match unbiased_accept(v, q, 64) {
                Some(h) => {
                    expected.push(h);
                    origin.push(v);
                    got += 1;
                }
                None => rejected += 1,
            }
        }
    }
    let k = c.moduli.len();
    let p = parms(n, &c.moduli);
    let mut dest = vec![u64::MAX; n * k];
    let mut rng = Script::new(&script);
    if let Err(pn) = guard(|| sample::uniform(&mut rng, &p, &mut dest)) {
        return CaseOut::fail(format!("uniform:panic:{}", panic_class(&pn)), format!("moduli {:?} family {}: no panic", c.moduli, c.family), pn);
    }
    for j in 0..k {
        let q = c.moduli[j];
        for i in 0..n {
            let (o, e) = (dest[i + j * n], expected[i + j * n]);
            if o >= q {
                return CaseOut::fail("uniform:out-of-range", format!("q={q}: sample below q (accepted draw {:#x})", origin[i + j * n]), format!("{o}"));
            }
            if o != e {
                return CaseOut::fail(
                    "uniform:accept-rule",
                    format!("q={q} component {j} coefficient {i}: accepted draw {:#018x} -> floor(v*q/2^64) = {e} (rejected iff (v*q mod 2^64) >= 2^64 - (2^64 mod q))", origin[i + j * n]),
                    format!("{o}"),
                );
            }
        }
    }
    if rng.overrun || rng.consumed() != 8 * draws_total || rng.nfill != 0 {
        return CaseOut::fail(
            "uniform:consumption",
            format!("moduli {:?} family {}: {} u64 draws ({} rejected and retried)", c.moduli, c.family, draws_total, rejected),
            format!("{} bytes, next_u64 {}, next_u32 {}, fill_bytes {}", rng.consumed(), rng.n64, rng.n32, rng.nfill),
        );
    }
    CaseOut::pass(rejected > 0, h64(&(c.family.as_str(), k, rejected > 0)), (n * k) as u64)
}

fn uni_cases() -> Vec<UniCase> {
    let p20 = primes_1_mod(2, 20, 1)[0];
    let p60 = primes_1_mod(2, 60, 1)[0];
    let p61 = primes_1_mod(2, 61, 1)[0];
    let singles: Vec<u64> = vec![2, 3, 5, 17, p20, p60, 1 << 20, p61, (1 << 60) + 1, 6, 4097];
    let mut v = vec![];
    for fam in ["top16", "boundary", "steps"] {
        for &q in &singles {
            v.push(UniCase { moduli: vec![q], family: fam.into() });
        }
        v.push(UniCase { moduli: vec![2, 3, 5, 17, p20, p60], family: fam.into() });
        v.push(UniCase { moduli: vec![p60, p20, 17, 5, 3, 2], family: fam.into() });
    }
    v
}

pub fn sections(thorough: bool) -> Vec<Box<dyn AnySection>> {
    let mut v: Vec<Box<dyn AnySection>> = vec![];
    v.push(
        E1::new(
            "cbd",
            "1..6 moduli of 61,7,30,20,60,45 bits: ALL 2^21 (+ unmasked high bits) byte patterns of the positive half with zero negative half and vice versa, 2^16 cross product of a reduced alphabet",
            cbd_cases().into_iter(),
            |c: &CbdCase| check_cbd(c, "cbd"),
        )
        .deadline(Duration::from_secs(60)),
    );
    v.push(
        E1::new(
            "cbd_small_moduli",
            "moduli {2,3,5,17,20,21,22,23,41,42,43} alone and next to a 30-bit prime: reduced cross product and three exhaustive 2^16 slices of each half",
            cbd_small_cases().into_iter(),
            |c: &CbdCase| check_cbd(c, "cbd_small"),
        )
        .deadline(Duration::from_secs(60)),
    );
    let (cases, bound) = tern_cases(thorough);
    v.push(E1::new("ternary", &bound, cases.into_iter(), check_tern).deadline(Duration::from_secs(120)));
    v.push(
        E1::new(
            "uniform",
            "moduli {2,3,5,17,6,4097,2^20,20-bit prime,60-bit prime,2^60+1,61-bit prime} alone and six together in both orders: u64 draws = 3*2^16 top-16-bit patterns; every rejected remainder (<= 2^20 of them, else windows of 4096) and 4096 on either side of the acceptance limit, mapped back through q^-1 mod 2^64; 16 draws around every result step k*2^64/q",
            uni_cases().into_iter(),
            check_uni,
        )
        .deadline(Duration::from_secs(60)),
    );
    v
}
