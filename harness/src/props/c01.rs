//! C01 — fresh encryptions decrypt to the plaintext, in every scheme, mode and level.
//!
//! E1 sections (all on the real `Encryptor` / `Decryptor`, compared with `refmodel::rlwe`):
//!  * `tiny_all`  BFV/BGV, tiny (N,t): ALL t^N plaintexts (full and trimmed length) x every encryption mode x noise scripts
//!  * `params`    BFV/BGV parameter sweep (N, 1..4(6) primes in asc/desc/rotated order, plain moduli of every kind, special-prime
//!                flag) x boundary plaintexts x every mode x noise scripts
//!  * `levels`    encrypt_zero* / encrypt_zero*_at(level) in all 3 schemes at EVERY level incl. the key level, all forms
//!  * `uprng`     *_with_u_prng variants: same generator state => same mask, different state => different mask, generator advances
//!  * `ckks`      CKKSEncoder -> encrypt -> decrypt -> decode at every level, scale grid, slot alphabets, all modes
//!  * `tinyprime` chains that contain a coefficient prime <= 21 (smaller than the error range), real sampler
//!  * `manyprimes` the oracles above on chains of 1..18 primes at N = 4 / 8 (every mode, every level, 60-bit and multi-word plain lift)
//!  * `sizes`     fast (O(N log N)) reference: 1..18 primes at N = 4 / 8 next to the schoolbook reference, N = 16..1024 (thorough
//!                ..16384) with 2..17 primes, structured plaintext / slot families (every position, every length), all modes, all levels
//!
//! Oracles per ciphertext: `is_valid_for`, metadata, decryption equals the plaintext exactly (BFV/BGV) / within the a-priori
//! bound (CKKS, at coefficient level exactly and at slot level), exact phase noise (schoolbook c0 + c1*s, CRT, centring) within
//! the a-priori worst-case bound, seeded ciphertexts refused by decrypt until expanded, destination-reuse forms byte-identical to
//! the `_new` forms under the same entropy script.

use crate::engine::*;
use crate::he::{self, ct_fingerprint, ct_meta, Kit, Noise, ParamSpec, Scheme};
use crate::refmodel::bigu::*;
use crate::refmodel::ntt::{fast_intt, fast_ntt};
use crate::refmodel::rlwe::*;
use heathcliff::util::{BlakeRNG, PRNGSeed};
use heathcliff::{CKKSEncoder, Ciphertext, ExpandSeed, ParmsID, Plaintext, ValCheck, PARMS_ID_ZERO};
use num_complex::Complex;
use rand::SeedableRng;
use serde::{Deserialize, Serialize};
use std::cell::RefCell;
use std::collections::HashMap;
use std::rc::Rc;
use std::time::Duration;

pub fn describe(rep: &Report) {
    rep.set_rule(
        "case = (parameter set with explicit primes, noise script for key generation (secret, error) and for encryption (mask, error)); \
         each case builds context and keys once and loops over its whole plaintext alphabet x every encryption mode (x levels x scales); \
         traces_validated_against_impl counts individual encrypt->decrypt round trips compared with the reference. A (mode, level) whose \
         a-priori worst-case noise bound is not below the decryption threshold (margin 2^-10) is not judged on decryption (only on \
         validity/metadata/noise); a case in which no mode is noise-valid is counted as skipped. non-trivial = at least one round trip judged.",
    );
    rep.assume("noise scripts (hook H2) AllMax/AllMin/Alt/Zero make secret, mask and error polynomials extremal; Real = sampler under scripted entropy (hook H1)");
    rep.assume("a-priori noise calculus for magnitudes (s,u,bk,be) of secret, mask, key error, fresh error under the installed script (real sampler: 1,1,21,21; Zero script: 0): sk: be (BGV x t); pk unswitched: bk*u*N + be + be*s*N (BGV x t); pk switched by p: that/p + (1+sN)/2 (BGV: that/p + t(1+sN)); decryption is judged iff BFV t(2v+1)+1 < q, BGV 2v+t < q, CKKS 2(v+|m|) < q, each with margin 2^-10 (|m| = max(exact coefficients of the encoded plaintext, scale*max|z|+1))");
    rep.assume("side condition checked on every ciphertext (stricter than the statement, protects the judged/skipped split): the exact phase noise (schoolbook c0+c1*s, CRT, centred) stays within the a-priori bound; BFV message scaling may be off by (t+1)/(2t) as in floor((q mod t)*m + floor((t+1)/2))/t)");
    rep.assume("the NTT ordering (value i = evaluation at root^(2*bitrev(i)+1), root = NTTTables::root()) is taken from C09; the reference inverts it by schoolbook evaluation and cross-checks it on the ternary secret key of every case");
    rep.assume("chain structure (which levels exist, which prime is dropped) is read from the HeContext (C13 judges it); CKKS encoding/decoding are used as black boxes whose combined error must stay inside the stated bound (C12 judges them separately)");
    rep.assume("production sizes (sections manyprimes, sizes): the fast reference computes exactly the same quantities as the schoolbook one — phase through refmodel::ntt::{fast_ntt, fast_intt} (validated against the transform by definition in the self-test), CRT skipped for a coefficient whose residues are those of one integer d with 2|d| < min q_i (then d is the centred value), BFV noise t*phase - q*m rewritten as t*(phase - M) + (t*M - q*m) with M = floor((q*m + floor((t+1)/2))/t) — and both are run and compared on every ciphertext for N <= 16; plaintexts are structured families (a monomial at every position / at the marks, dense plaintexts of every length, constant / alternating / ramp / generic), not products");
    rep.assume("outside the bounds: the full parameter sweep (prime orders, every kind of plain modulus) beyond N = 8 (16 thorough) and 4 (6) primes — above that the chain shapes are 60-bit only, 40/50/60 ascending and 60/20/50/30/40 mixed, up to 18 primes, N up to 1024 (16384 thorough); primes not among the largest of their bit size; plaintext alphabets beyond boundary values for t^N > 4096; parameter sets whose a-priori bound lies within 2^-10 of the decryption threshold; CKKS decode cancellation when the low word of q is smaller than a negative coefficient (needs a searched-for chain; C12)");
}

// ------------------------------------------------------------------------------------------
// shared types
// ------------------------------------------------------------------------------------------

#[derive(Serialize, Deserialize, Clone, Copy, Debug, PartialEq, Eq, Hash)]
pub struct NoiseCombo {
    /// key generation: secret
    pub ks: Noise,
    /// key generation: public-key error
    pub ke: Noise,
    /// encryption: mask u (ternary)
    pub eu: Noise,
    /// encryption: error
    pub ee: Noise,
}

impl NoiseCombo {
    fn new(ks: Noise, ke: Noise, eu: Noise, ee: Noise) -> Self {
        NoiseCombo { ks, ke, eu, ee }
    }
    fn all_zero(&self) -> bool {
        [self.ks, self.ke, self.eu, self.ee].iter().all(|&x| x == Noise::Zero)
    }
}

fn combos(thorough: bool) -> Vec<NoiseCombo> {
    use Noise::*;
    if thorough {
        let mut v = vec![NoiseCombo::new(Real, Real, Real, Real)];
        let sc = [Zero, AllMax, AllMin, Alt];
        for a in sc {
            for b in sc {
                for c in sc {
                    for d in sc {
                        v.push(NoiseCombo::new(a, b, c, d));
                    }
                }
            }
        }
        v
    } else {
        vec![
            NoiseCombo::new(Real, Real, Real, Real),
            NoiseCombo::new(Zero, Zero, Zero, Zero),
            // -e*u + e0 + e1*s = +21(2N+1) at coefficient N-1
            NoiseCombo::new(AllMax, AllMin, AllMax, AllMax),
            // = -21(2N+1) at coefficient N-1
            NoiseCombo::new(AllMax, AllMax, AllMax, AllMin),
            NoiseCombo::new(Alt, Alt, Alt, Alt),
            NoiseCombo::new(AllMin, AllMax, Alt, AllMin),
        ]
    }
}

fn combos_small() -> Vec<NoiseCombo> {
    use Noise::*;
    vec![
        NoiseCombo::new(Real, Real, Real, Real),
        NoiseCombo::new(AllMax, AllMin, AllMax, AllMax),
        NoiseCombo::new(AllMax, AllMax, AllMax, AllMin),
        NoiseCombo::new(Alt, AllMin, Alt, Alt),
    ]
}

#[derive(Serialize, Deserialize, Clone, Copy, Debug, PartialEq, Eq, Hash)]
pub enum Mode {
    /// encrypt_new
    Pk,
    /// encrypt(plain, &mut reused destination) — must equal encrypt_new under the same entropy
    PkDest,
    /// encrypt_symmetric(plain, &mut destination) (no seed), clean and reused destination
    Sk,
    /// encrypt_symmetric_new (seeded) + refusal + expand_seed
    SkSeed,
    PkU,
    SkU,
    SkSeedU,
}

const MODES: [Mode; 7] = [Mode::Pk, Mode::PkDest, Mode::Sk, Mode::SkSeed, Mode::PkU, Mode::SkU, Mode::SkSeedU];

impl Mode {
    fn public(self) -> bool {
        matches!(self, Mode::Pk | Mode::PkDest | Mode::PkU)
    }
    fn seeded(self) -> bool {
        matches!(self, Mode::SkSeed | Mode::SkSeedU)
    }
}

fn sch(s: Scheme) -> Sch {
    match s {
        Scheme::BFV => Sch::Bfv,
        Scheme::BGV => Sch::Bgv,
        Scheme::CKKS => Sch::Ckks,
    }
}

/// (key suffix, expected, observed)
type Bad = (String, String, String);

fn bad(k: impl Into<String>, e: impl Into<String>, o: impl Into<String>) -> Bad {
    (k.into(), e.into(), o.into())
}

struct LevelInfo {
    id: ParmsID,
    lvl: Level,
    /// prime dropped when coming from the previous (larger) level; None for the key level
    dropped: Option<u64>,
    /// level above the first data level (keys only)
    pure_key: bool,
}

struct World {
    kit: Kit,
    levels: Vec<LevelInfo>,
    /// index of the first data level in `levels`
    first: usize,
    s: Vec<i64>,
    sch: Sch,
    n: usize,
    t: u64,
    /// magnitudes of the small polynomials under the case's noise script
    mags: Mags,
    /// production-size reference: O(N log N) transforms and the small-residue shortcut of the CRT (exactly the same values as
    /// the schoolbook reference, which is run next to it for N <= 16)
    fast: bool,
    /// fast reference: transform of the secret key per (modulus, root)
    shat: RefCell<HashMap<(u64, u64), Rc<Vec<u64>>>>,
    /// fast reference, BFV: (floor(q/t) mod q_i, q mod t) per level
    bfvc: RefCell<HashMap<usize, Rc<(Vec<u64>, u64)>>>,
}

fn mag(x: Noise, max: u64) -> u64 {
    if x == Noise::Zero {
        0
    } else {
        max
    }
}

impl World {
    /// Context + keys under the key-generation part of the noise combo; Err(reason) when the library rejects the parameters.
    fn build(spec: &ParamSpec, nc: &NoiseCombo, seed: u64, tag: u64) -> Result<World, String> {
        World::build_with(spec, nc, seed, tag, false)
    }

    /// `fast`: use the O(N log N) reference (needed from N = 32 on; cross-checked against the schoolbook one for N <= 16)
    fn build_with(spec: &ParamSpec, nc: &NoiseCombo, seed: u64, tag: u64, fast: bool) -> Result<World, String> {
        he::env(seed, tag, nc.ks.mode(), nc.ke.mode());
        let kit = match guard(|| Kit::new(spec)) {
            Ok(Ok(k)) => k,
            Ok(Err(e)) => return Err(e),
            Err(p) => return Err(format!("panic while building context/keys: {p}")),
        };
        let n = spec.n;
        let mut levels = vec![];
        let mut cd = kit.ctx.key_context_data();
        let first_id = *kit.ctx.first_parms_id();
        let mut first = 0usize;
        let mut prev_last: Option<u64> = None;
        let mut seen_first = false;
        while let Some(c) = cd {
            let moduli: Vec<u64> = c.parms().coeff_modulus().iter().map(|m| m.value()).collect();
            let roots: Vec<u64> = c.small_ntt_tables().iter().map(|t| t.root()).collect();
            let id = *c.parms_id();
            if id == first_id {
                first = levels.len();
                seen_first = true;
            }
            let last = *moduli.last().unwrap();
            levels.push(LevelInfo { id, lvl: Level::new(n, moduli, roots), dropped: prev_last, pure_key: !seen_first });
            prev_last = Some(last);
            cd = c.next_context_data();
        }
        // secret key: NTT form at the key level; invert on the first modulus (and cross-check on the last)
        let key = &levels[0].lvl;
        let mut s = vec![0i64; n];
        for (which, mi) in [(0usize, 0usize), (1, key.moduli.len() - 1)] {
            let q = key.moduli[mi];
            let sk_i = &kit.sk.data()[mi * n..(mi + 1) * n];
            let c = if fast {
                // a table that belongs to another modulus cannot define an ordering
                if pow_mod(key.roots[mi], n as u64, q) != q - 1 {
                    return Err(format!("REFMODEL: NTTTables::root() = {} of key-level table {mi} is not a primitive 2N-th root modulo the {mi}-th coefficient modulus {q}", key.roots[mi]));
                }
                let f = fast_intt(sk_i, key.roots[mi], q);
                if n <= 16 && f != naive_intt(sk_i, key.roots[mi], q) {
                    return Err("REFMODEL: fast and schoolbook inverse transform disagree".into());
                }
                f
            } else {
                naive_intt(sk_i, key.roots[mi], q)
            };
            for j in 0..n {
                let v = if c[j] == 0 {
                    0
                } else if c[j] == 1 {
                    1
                } else if c[j] == q - 1 {
                    -1
                } else {
                    return Err(format!("REFMODEL: secret key is not ternary under the reference inverse NTT (modulus {q}, coefficient {j} = {})", c[j]));
                };
                if which == 0 {
                    s[j] = v;
                } else if s[j] != v {
                    return Err(format!("REFMODEL: secret key residues disagree between moduli (coefficient {j})"));
                }
            }
        }
        let t = spec.t;
        let mags = Mags { s: mag(nc.ks, 1), u: mag(nc.eu, 1), bk: mag(nc.ke, ERR_MAX), be: mag(nc.ee, ERR_MAX) };
        Ok(World { kit, levels, first, s, sch: sch(spec.scheme), n, t, mags, fast, shat: RefCell::new(HashMap::new()), bfvc: RefCell::new(HashMap::new()) })
    }

    fn first_level(&self) -> &LevelInfo {
        &self.levels[self.first]
    }

    /// a-priori bound of an encryption of zero at level index li
    fn bound(&self, li: usize, public: bool) -> Bound {
        fresh_noise_bound(self.sch, self.n, self.t, public, if public { self.levels[li].dropped } else { None }, self.mags)
    }

    /// phase of a size-2 ciphertext at level li: per-modulus components in coefficient form
    fn phase(&self, li: usize, ct: &Ciphertext) -> Vec<Vec<u64>> {
        let l = &self.levels[li].lvl;
        if !self.fast {
            return l.phase_components(ct.poly(0), ct.poly(1), ct.is_ntt_form(), &self.s);
        }
        let n = self.n;
        let ntt = ct.is_ntt_form();
        let (c0, c1) = (ct.poly(0), ct.poly(1));
        let f: Vec<Vec<u64>> = (0..l.moduli.len())
            .map(|i| {
                let (q, psi) = (l.moduli[i], l.roots[i]);
                let sh = self.s_hat(q, psi);
                let (a0, a1) = (&c0[i * n..(i + 1) * n], &c1[i * n..(i + 1) * n]);
                if ntt {
                    let y: Vec<u64> = (0..n).map(|j| add_mod(a0[j] % q, mul_mod(a1[j] % q, sh[j], q), q)).collect();
                    fast_intt(&y, psi, q)
                } else {
                    let f1 = fast_ntt(a1, psi, q);
                    let y: Vec<u64> = (0..n).map(|j| mul_mod(f1[j], sh[j], q)).collect();
                    let p = fast_intt(&y, psi, q);
                    (0..n).map(|j| add_mod(a0[j] % q, p[j], q)).collect()
                }
            })
            .collect();
        if n <= 16 && f != l.phase_components(c0, c1, ntt, &self.s) {
            panic!("REFMODEL: fast and schoolbook phase disagree");
        }
        f
    }

    /// fast reference: forward transform of the secret key modulo q in the ordering defined by psi
    fn s_hat(&self, q: u64, psi: u64) -> Rc<Vec<u64>> {
        if let Some(v) = self.shat.borrow().get(&(q, psi)) {
            return v.clone();
        }
        let sq: Vec<u64> = self.s.iter().map(|&x| if x >= 0 { x as u64 % q } else { q - ((-x) as u64 % q) }).collect();
        let v = Rc::new(fast_ntt(&sq, psi, q));
        self.shat.borrow_mut().insert((q, psi), v.clone());
        v
    }

    /// residues (component-major) -> coefficient form per modulus
    fn coeff_form(&self, li: usize, poly: &[u64], ntt: bool) -> Vec<Vec<u64>> {
        let l = &self.levels[li].lvl;
        if !self.fast || !ntt {
            return l.coeff_form(poly, ntt);
        }
        let n = self.n;
        let f: Vec<Vec<u64>> = (0..l.moduli.len()).map(|i| fast_intt(&poly[i * n..(i + 1) * n], l.roots[i], l.moduli[i])).collect();
        if n <= 16 && f != l.coeff_form(poly, ntt) {
            panic!("REFMODEL: fast and schoolbook inverse transform disagree");
        }
        f
    }

    /// CRT + centring of per-modulus coefficient vectors. Fast reference: when the residues of a coefficient are the residues of
    /// one integer d with 2|d| < min q_i, then d is the centred value (no multi-precision arithmetic); CRT otherwise.
    fn centered(&self, li: usize, comps: &[Vec<u64>]) -> Vec<BigI> {
        let l = &self.levels[li].lvl;
        if !self.fast {
            return l.compose_centered(comps);
        }
        let minq = *l.moduli.iter().min().unwrap() as i128;
        let f: Vec<BigI> = (0..self.n)
            .map(|j| {
                let q0 = l.moduli[0];
                let c0 = comps[0][j] % q0;
                let d: i128 = if 2 * c0 as u128 >= q0 as u128 { c0 as i128 - q0 as i128 } else { c0 as i128 };
                if 2 * d.abs() < minq && (0..l.moduli.len()).all(|i| d.rem_euclid(l.moduli[i] as i128) as u64 == comps[i][j] % l.moduli[i]) {
                    BigI::from_i128(d)
                } else {
                    let res: Vec<u64> = comps.iter().map(|c| c[j]).collect();
                    centered(&crt(&res, &l.moduli), &l.q)
                }
            })
            .collect();
        if self.n <= 16 && f != l.compose_centered(comps) {
            panic!("REFMODEL: small-residue shortcut and CRT disagree");
        }
        f
    }

    /// BFV: W_j = centred_{tq}(t*phase_j - q*m_j) for every coefficient.
    /// Fast reference: with M = floor((q*m + floor((t+1)/2)) / t) = floor(q/t)*m + floor(((q mod t)*m + floor((t+1)/2)) / t) one has
    /// t*phase - q*m = t*(phase - M) + (t*M - q*m) (mod tq), where phase - M is small and t*M - q*m is a machine integer.
    fn bfv_noise(&self, li: usize, comps: &[Vec<u64>], m: &[u64]) -> Vec<BigI> {
        let l = &self.levels[li].lvl;
        let t = self.t;
        let slow = |j: usize, ph: &[BigU]| bfv_scaled_noise(&ph[j], m[j], t, &l.q);
        if !self.fast {
            let ph = l.compose_unsigned(comps);
            return (0..self.n).map(|j| slow(j, &ph)).collect();
        }
        let cached = self.bfvc.borrow().get(&li).cloned();
        let cst = match cached {
            Some(c) => c,
            None => {
                let (qt, r) = l.q.divrem(&BigU::from_u64(t));
                let c = Rc::new((l.moduli.iter().map(|&qi| qt.rem_u64(qi)).collect::<Vec<u64>>(), r.to_u64().unwrap()));
                self.bfvc.borrow_mut().insert(li, c.clone());
                c
            }
        };
        let (qt, r) = (&cst.0, cst.1);
        let thr = (t + 1) >> 1;
        let n = self.n;
        let mut rho = vec![0i128; n];
        let mut d: Vec<Vec<u64>> = vec![vec![0u64; n]; l.moduli.len()];
        for j in 0..n {
            let num = r as u128 * m[j] as u128 + thr as u128;
            let fix = num / t as u128;
            rho[j] = thr as i128 - (num % t as u128) as i128;
            for i in 0..l.moduli.len() {
                let qi = l.moduli[i];
                let e = add_mod(mul_mod(qt[i], m[j] % qi, qi), (fix % qi as u128) as u64, qi);
                d[i][j] = sub_mod(comps[i][j], e, qi);
            }
        }
        let dc = self.centered(li, &d);
        let tq = l.q.mul_u64(t);
        let tb = BigI::from_u(BigU::from_u64(t));
        let f: Vec<BigI> = (0..n)
            .map(|j| {
                let x = dc[j].mul(&tb).add(&BigI::from_i128(rho[j]));
                if x.mag.shl(1) < tq {
                    x
                } else {
                    centered(&x.rem_u(&tq), &tq)
                }
            })
            .collect();
        if n <= 16 {
            let ph = l.compose_unsigned(comps);
            if (0..n).any(|j| f[j] != slow(j, &ph)) {
                panic!("REFMODEL: BFV noise through the rounded message term and through multi-precision arithmetic disagree");
            }
        }
        f
    }

    fn expect_ntt(&self) -> bool {
        self.sch != Sch::Bfv
    }

    /// metadata + validity of a fresh (non-seeded) ciphertext at a data level
    fn check_fresh_meta(&self, li: usize, ct: &Ciphertext, scale: f64) -> Result<(), Bad> {
        let l = &self.levels[li];
        let exp = format!("parms_id of level {li}, size=2 cms={} N={} ntt={} scale={:e} cf=1 len={}", l.lvl.moduli.len(), self.n, self.expect_ntt(), scale, 2 * self.n * l.lvl.moduli.len());
        if *ct.parms_id() != l.id
            || ct.size() != 2
            || ct.coeff_modulus_size() != l.lvl.moduli.len()
            || ct.poly_modulus_degree() != self.n
            || ct.is_ntt_form() != self.expect_ntt()
            || ct.scale().to_bits() != scale.to_bits()
            || ct.correction_factor() != 1
            || ct.data().len() != 2 * self.n * l.lvl.moduli.len()
        {
            return Err(bad("metadata", exp, format!("{} parms_id_matches={}", ct_meta(ct), *ct.parms_id() == l.id)));
        }
        if !l.pure_key {
            match guard(|| ct.is_valid_for(&self.kit.ctx)) {
                Ok(true) => {}
                Ok(false) => return Err(bad("is_valid_for-false", "fresh ciphertext is valid for its context", ct_meta(ct))),
                Err(p) => return Err(bad(format!("is_valid_for-panic:{}", panic_class(&p)), "no panic", p)),
            }
        }
        Ok(())
    }
}

fn prng(seed: u64) -> BlakeRNG {
    let mut b = [0u8; 64];
    for i in 0..8 {
        b[i * 8..i * 8 + 8].copy_from_slice(&h64(&(seed, i as u64, "c01-u-prng")).to_le_bytes());
    }
    BlakeRNG::from_seed(PRNGSeed(b))
}

/// A destination that already holds something unrelated (wrong size, flags, level, junk data).
fn dirty(w: &World) -> Ciphertext {
    let last = w.levels.last().unwrap();
    let k = last.lvl.moduli.len();
    Ciphertext::from_members(3, k, w.n, vec![0xAAAA_AAAA_AAAA_AAAAu64; 3 * k * w.n], last.id, 2.5, 7, !w.expect_ntt())
}

/// a destination that already "looks right" for an encryption at level li: same size (2) and parms id as the result, but a
/// stale representation flag, scale and BGV factor, and junk data (seeded round 4: two changes skipped the metadata reset for
/// a destination of matching size and level)
fn dirty_same(w: &World, li: usize) -> Ciphertext {
    let l = &w.levels[li];
    let k = l.lvl.moduli.len();
    Ciphertext::from_members(2, k, w.n, vec![0x5555_5555_5555_5555u64 >> 4; 2 * k * w.n], l.id, 2.5, 7, !w.expect_ntt())
}

fn same_ct(a: &Ciphertext, b: &Ciphertext) -> bool {
    ct_fingerprint(a) == ct_fingerprint(b) && a.data() == b.data()
}

/// words needed to store flag + seed
const SEED_WORDS: usize = 9;

/// Seed handling shared by all seeded modes: model says whether a seed fits; decrypt must refuse the compressed form.
fn unseed(w: &World, li: usize, ct: Ciphertext, want_seed: bool) -> Result<Ciphertext, Bad> {
    let fits = w.n * w.levels[li].lvl.moduli.len() >= SEED_WORDS;
    let has = ct.contains_seed();
    if !want_seed {
        if has {
            return Err(bad("seed-unexpected", "no seed in a ciphertext of a non-seeding call", "contains_seed() = true"));
        }
        return Ok(ct);
    }
    if has != fits {
        return Err(bad("seed-presence", format!("contains_seed() = {fits} (polynomial has {} words, 9 needed)", w.n * w.levels[li].lvl.moduli.len()), format!("{has}")));
    }
    if !has {
        return Ok(ct);
    }
    // the compressed form must be refused by the decryptor
    if !w.levels[li].pure_key {
        if let Ok(p) = guard(|| w.kit.dec.decrypt_new(&ct)) {
            return Err(bad("seeded-not-refused", "decrypt refuses a ciphertext that still contains its seed", format!("returned a plaintext with {} coefficients", p.coeff_count())));
        }
    }
    let ctx = w.kit.ctx.clone();
    match guard(move || ct.expand_seed(&ctx)) {
        Ok(e) => {
            if e.contains_seed() {
                return Err(bad("seed-still-present", "contains_seed() = false after expand_seed", "true"));
            }
            Ok(e)
        }
        Err(p) => Err(bad(format!("expand_seed-panic:{}", panic_class(&p)), "expand_seed succeeds", p)),
    }
}

// ------------------------------------------------------------------------------------------
// BFV / BGV: exact round trips
// ------------------------------------------------------------------------------------------

#[derive(Serialize, Deserialize, Clone, Copy, Debug, PartialEq, Eq, Hash)]
pub enum Alpha {
    /// all t^N polynomials, full length and zero-trimmed length
    All,
    /// boundary values {0,1,thr-1,thr,t-1}^len for every len 0..N
    Boundary,
    /// unit monomials x boundary values (short and full length), constant and alternating vectors
    Edge,
    /// as Edge, unit monomials at positions {0,1,N/2,N-2,N-1} only
    EdgeFew,
}

fn boundary_values(t: u64) -> Vec<u64> {
    let thr = (t + 1) >> 1;
    let mut v = vec![0, 1 % t, thr - 1, thr % t, t - 1];
    v.sort();
    v.dedup();
    v
}

/// plaintexts as coefficient vectors; the vector length is the plaintext's coeff_count (0 = empty plaintext)
fn plaintexts(n: usize, t: u64, alpha: Alpha) -> Vec<Vec<u64>> {
    let mut out: Vec<Vec<u64>> = vec![];
    let product = |vals: &[u64], len: usize, out: &mut Vec<Vec<u64>>| {
        let mut idx = vec![0usize; len];
        loop {
            out.push(idx.iter().map(|&i| vals[i]).collect());
            let mut p = 0;
            loop {
                if p == len {
                    return;
                }
                idx[p] += 1;
                if idx[p] < vals.len() {
                    break;
                }
                idx[p] = 0;
                p += 1;
            }
        }
    };
    match alpha {
        Alpha::All => {
            let vals: Vec<u64> = (0..t).collect();
            let mut full = vec![];
            product(&vals, n, &mut full);
            for v in full {
                if v[n - 1] == 0 {
                    let sig = v.iter().rposition(|&x| x != 0).map(|p| p + 1).unwrap_or(0);
                    out.push(v[..sig].to_vec());
                }
                out.push(v);
            }
        }
        Alpha::Boundary => {
            let vals = boundary_values(t);
            for len in 0..=n {
                product(&vals, len, &mut out);
            }
        }
        Alpha::Edge | Alpha::EdgeFew => {
            let vals = boundary_values(t);
            out.push(vec![]);
            out.push(vec![0]);
            out.push(vec![0; n]);
            for i in 0..n {
                if alpha == Alpha::EdgeFew && ![0, 1, n / 2, n.saturating_sub(2), n - 1].contains(&i) {
                    continue;
                }
                for &v in vals.iter().filter(|&&v| v != 0) {
                    let mut u = vec![0u64; i + 1];
                    u[i] = v;
                    out.push(u.clone());
                    if i + 1 < n {
                        u.resize(n, 0);
                        out.push(u);
                    }
                }
            }
            for &v in vals.iter().filter(|&&v| v != 0) {
                out.push(vec![v; n]);
            }
            let thr = (t + 1) >> 1;
            out.push((0..n).map(|i| if i % 2 == 0 { t - 1 } else { thr % t }).collect());
            out.push((0..n).map(|i| if i % 2 == 0 { thr - 1 } else { t - 1 }).collect());
            out.push((0..n).map(|i| ((i as u128 * (t - 1) as u128) / (n as u128 - 1).max(1)) as u64).collect());
            out.sort();
            out.dedup();
        }
    }
    out
}

#[derive(Serialize, Deserialize, Clone, Debug)]
pub struct XCase {
    pub spec: ParamSpec,
    pub noise: NoiseCombo,
    pub alpha: Alpha,
    /// also run the three *_with_u_prng modes
    #[serde(default)]
    pub umodes: bool,
}

/// One encryption in `mode` of the BFV/BGV plaintext `pt`; returns the (expanded) ciphertext.
fn encrypt_mode(w: &World, mode: Mode, pt: &Plaintext, seed: u64, item: u64, nc: &NoiseCombo) -> Result<Ciphertext, Bad> {
    encrypt_mode_at(w, w.first, mode, pt, seed, item, nc)
}

/// as `encrypt_mode`; `li` = level the plaintext lives at (CKKS: the plaintext's own level; BFV/BGV: the first data level)
fn encrypt_mode_at(w: &World, li: usize, mode: Mode, pt: &Plaintext, seed: u64, item: u64, nc: &NoiseCombo) -> Result<Ciphertext, Bad> {
    let enc = &w.kit.enc;
    let reset = || he::env(seed, item, nc.eu.mode(), nc.ee.mode());
    let pan = |what: &str, p: String| bad(format!("{what}-panic:{}", panic_class(&p)), format!("{what} succeeds on a valid plaintext"), p);
    reset();
    let ct = match mode {
        Mode::Pk => guard(|| enc.encrypt_new(pt)).map_err(|p| pan("encrypt_new", p))?,
        Mode::PkDest => {
            let a = guard(|| enc.encrypt_new(pt)).map_err(|p| pan("encrypt_new", p))?;
            reset();
            let mut d = dirty(w);
            guard(|| enc.encrypt(pt, &mut d)).map_err(|p| pan("encrypt", p))?;
            if !same_ct(&a, &d) {
                return Err(bad("dest-differs", "encrypt(plain, &mut reused destination) is byte-identical to encrypt_new under the same entropy", format!("new: {} / dest: {}", ct_meta(&a), ct_meta(&d))));
            }
            reset();
            let mut d2 = dirty_same(w, li);
            guard(|| enc.encrypt(pt, &mut d2)).map_err(|p| pan("encrypt", p))?;
            if !same_ct(&a, &d2) {
                return Err(bad("dest-differs", "encrypt(plain, &mut destination of the result's size and level with stale metadata) is byte-identical to encrypt_new under the same entropy", format!("new: {} / dest: {}", ct_meta(&a), ct_meta(&d2))));
            }
            d
        }
        Mode::Sk => {
            let mut a = Ciphertext::new();
            guard(|| enc.encrypt_symmetric(pt, &mut a)).map_err(|p| pan("encrypt_symmetric", p))?;
            reset();
            let mut d = dirty(w);
            guard(|| enc.encrypt_symmetric(pt, &mut d)).map_err(|p| pan("encrypt_symmetric", p))?;
            if !same_ct(&a, &d) {
                return Err(bad("dest-differs", "encrypt_symmetric into a reused destination equals the one into a fresh destination", format!("fresh: {} / reused: {}", ct_meta(&a), ct_meta(&d))));
            }
            reset();
            let mut d2 = dirty_same(w, li);
            guard(|| enc.encrypt_symmetric(pt, &mut d2)).map_err(|p| pan("encrypt_symmetric", p))?;
            if !same_ct(&a, &d2) {
                return Err(bad("dest-differs", "encrypt_symmetric into a destination of the result's size and level with stale metadata equals the one into a fresh destination", format!("fresh: {} / reused: {}", ct_meta(&a), ct_meta(&d2))));
            }
            d
        }
        Mode::SkSeed => guard(|| enc.encrypt_symmetric_new(pt)).map_err(|p| pan("encrypt_symmetric_new", p))?,
        Mode::PkU => {
            let mut r = prng(item);
            guard(|| enc.encrypt_new_with_u_prng(pt, &mut r)).map_err(|p| pan("encrypt_new_with_u_prng", p))?
        }
        Mode::SkU => {
            let mut r = prng(item);
            let mut d = Ciphertext::new();
            guard(|| enc.encrypt_symmetric_with_u_prng(pt, &mut r, &mut d)).map_err(|p| pan("encrypt_symmetric_with_u_prng", p))?;
            d
        }
        Mode::SkSeedU => {
            let mut r = prng(item);
            guard(|| enc.encrypt_symmetric_new_with_u_prng(pt, &mut r)).map_err(|p| pan("encrypt_symmetric_new_with_u_prng", p))?
        }
    };
    unseed(w, li, ct, mode.seeded())
}

/// Judge one fresh BFV/BGV ciphertext of message m (padded to N) at level li.
/// `judge_decrypt` = the a-priori bound is below the decryption threshold.
fn judge_exact(w: &World, li: usize, ct: &Ciphertext, m: &[u64], bound: &Bound, judge_decrypt: bool) -> Result<u64, Bad> {
    let l = &w.levels[li];
    w.check_fresh_meta(li, ct, 1.0)?;
    // exact noise
    let comps = w.phase(li, ct);
    let mut noise_class = 0u64;
    match w.sch {
        Sch::Bfv => {
            let wn = w.bfv_noise(li, &comps, m);
            // the library adds floor((q mod t)*m + floor((t+1)/2)) / t): off by at most (t+1)/(2t) from q*m/t
            let lim = bound.scale(w.t).plus_half_of(w.t + 1);
            for j in 0..w.n {
                let wj = &wn[j];
                if !lim.holds_for(wj) {
                    return Err(bad(
                        "noise-exceeds-apriori-bound",
                        format!("|t*phase - q*m| <= t*v + (t+1)/2 = {:.1} (v = {:.2})", lim.to_f64(), bound.to_f64()),
                        format!("coefficient {j}: {:.1}", wj.to_f64()),
                    ));
                }
                noise_class = noise_class.max(wj.mag.bits() as u64);
            }
        }
        Sch::Bgv => {
            let ph = w.centered(li, &comps);
            let lim = bound.plus_half_of(w.t);
            for j in 0..w.n {
                if !lim.holds_for(&ph[j]) {
                    return Err(bad(
                        "noise-exceeds-apriori-bound",
                        format!("|phase| <= v + t/2 = {:.1} (v = {:.2})", lim.to_f64(), bound.to_f64()),
                        format!("coefficient {j}: {:.1}", ph[j].to_f64()),
                    ));
                }
                // (only meaningful when the phase cannot wrap around q)
                if judge_decrypt && ph[j].rem_u64(w.t) != m[j] {
                    return Err(bad("phase-not-congruent", format!("phase = m (mod t): coefficient {j} = {}", m[j]), format!("{}", ph[j].rem_u64(w.t))));
                }
                noise_class = noise_class.max(ph[j].mag.bits() as u64);
            }
        }
        Sch::Ckks => unreachable!(),
    }
    if !judge_decrypt || l.pure_key {
        return Ok(noise_class);
    }
    let dec = match guard(|| w.kit.dec.decrypt_new(ct)) {
        Ok(p) => p,
        Err(p) => return Err(bad(format!("decrypt-panic:{}", panic_class(&p)), "decrypt succeeds on a fresh ciphertext", p)),
    };
    let sig = m.iter().rposition(|&x| x != 0).map(|p| p + 1).unwrap_or(0).max(1);
    let exp = &m[..sig];
    if dec.data().as_slice() != exp || dec.coeff_count() != sig {
        return Err(bad("wrong-plaintext", format!("{exp:?} (coeff_count {sig})"), format!("{:?} (coeff_count {})", dec.data(), dec.coeff_count())));
    }
    if *dec.parms_id() != PARMS_ID_ZERO || dec.scale() != 1.0 || !dec.is_valid_for(&w.kit.ctx) {
        return Err(bad("decrypted-metadata", "parms_id zero, scale 1, valid for the context", format!("ntt_form={} scale={} valid={}", dec.is_ntt_form(), dec.scale(), dec.is_valid_for(&w.kit.ctx))));
    }
    Ok(noise_class)
}

fn mode_valid(w: &World, li: usize, public: bool, extra: &BigU) -> (Bound, bool) {
    let b = w.bound(li, public);
    let ok = noise_valid(w.sch, &b, w.t, &w.levels[li].lvl.q, extra);
    (b, ok)
}

fn check_exact(section: &str, c: &XCase, seed: u64) -> CaseOut {
    if !maybe_valid(&c.spec, &c.noise) {
        return CaseOut::skip("not noise-valid in any mode (a-priori, from the parameters alone)");
    }
    let tag = h64(&serde_json::to_string(c).unwrap());
    let w = match World::build(&c.spec, &c.noise, seed, tag) {
        Ok(w) => w,
        Err(e) if e.starts_with("REFMODEL") || e.starts_with("panic") => return CaseOut::fail(format!("{section}:{:?}:setup", c.spec.scheme), "context and keys can be built for accepted parameters", e),
        Err(e) => return CaseOut::skip(&format!("library rejects the parameters: {e}")),
    };
    let li = w.first;
    let (bpk, okpk) = mode_valid(&w, li, true, &BigU::zero());
    let (bsk, oksk) = mode_valid(&w, li, false, &BigU::zero());
    if !okpk && !oksk {
        return CaseOut::skip("not noise-valid in any mode");
    }
    let pts = plaintexts(w.n, w.t, c.alpha);
    let mut steps = 0u64;
    let mut maxclass = 0u64;
    for (pi, v) in pts.iter().enumerate() {
        let pt = if v.is_empty() { Plaintext::new() } else { w.kit.plain(v) };
        let mut m = v.clone();
        m.resize(w.n, 0);
        for (mi, &mode) in MODES.iter().enumerate() {
            let (b, ok) = if mode.public() { (&bpk, okpk) } else { (&bsk, oksk) };
            if !ok || (!c.umodes && matches!(mode, Mode::PkU | Mode::SkU | Mode::SkSeedU)) {
                continue;
            }
            let item = h64(&(tag, pi as u64, mi as u64));
            let r = encrypt_mode(&w, mode, &pt, seed, item, &c.noise).and_then(|ct| judge_exact(&w, li, &ct, &m, b, true));
            match r {
                Ok(cl) => {
                    steps += 1;
                    maxclass = maxclass.max(cl);
                }
                Err((k, e, o)) => {
                    return CaseOut::fail(
                        format!("{section}:{:?}:{:?}:{k}", c.spec.scheme, mode),
                        format!("plaintext {v:?} ({}; noise {:?}): {e}", c.spec.label(), c.noise),
                        o,
                    )
                }
            }
        }
    }
    let fl = w.kit.ctx.first_context_data().unwrap().qualifiers().using_fast_plain_lift;
    let switched = w.first_level().dropped.is_some();
    CaseOut::pass(steps > 0, h64(&(c.spec.scheme, okpk, oksk, fl, switched, w.levels.len(), w.n * w.first_level().lvl.moduli.len() >= SEED_WORDS, maxclass / 4)), steps)
}

// ------------------------------------------------------------------------------------------
// parameter universes
// ------------------------------------------------------------------------------------------

/// distinct primes = 1 (mod 2n) of the given bit sizes (largest first within a size), all above the error range
fn prime_chain(n: usize, bits: &[usize]) -> Option<Vec<u64>> {
    let mut out: Vec<u64> = vec![];
    for &b in bits {
        let cnt = bits.iter().filter(|&&x| x == b).count();
        let c: Vec<u64> = primes_cached(2 * n as u64, b, cnt + 2).into_iter().filter(|&p| p > 2 * ERR_MAX).collect();
        let p = *c.iter().find(|p| !out.contains(p))?;
        out.push(p);
    }
    Some(out)
}

/// first prime = 1 mod 2n of `bits` bits that is not in `avoid`
fn batching_prime(n: usize, bits: usize, avoid: &[u64]) -> Option<u64> {
    primes_cached(2 * n as u64, bits, avoid.len() + 1).into_iter().find(|p| !avoid.contains(p))
}

/// `primes_1_mod`, memoised (the case lists ask for the same long chains again and again)
fn primes_cached(factor: u64, bits: usize, count: usize) -> Vec<u64> {
    static CACHE: std::sync::OnceLock<std::sync::Mutex<HashMap<(u64, usize, usize), Vec<u64>>>> = std::sync::OnceLock::new();
    let cache = CACHE.get_or_init(|| std::sync::Mutex::new(HashMap::new()));
    if let Some(v) = cache.lock().unwrap().get(&(factor, bits, count)) {
        return v.clone();
    }
    let v = primes_1_mod(factor, bits, count);
    cache.lock().unwrap().insert((factor, bits, count), v.clone());
    v
}

fn multisets(vals: &[usize], k: usize) -> Vec<Vec<usize>> {
    fn rec(vals: &[usize], k: usize, start: usize, cur: &mut Vec<usize>, out: &mut Vec<Vec<usize>>) {
        if cur.len() == k {
            out.push(cur.clone());
            return;
        }
        for i in start..vals.len() {
            cur.push(vals[i]);
            rec(vals, k, i, cur, out);
            cur.pop();
        }
    }
    let mut out = vec![];
    rec(vals, k, 0, &mut vec![], &mut out);
    out
}

/// ascending, descending and rotated order of a multiset of bit sizes
fn orders(ms: &[usize]) -> Vec<Vec<usize>> {
    let mut a = ms.to_vec();
    a.sort();
    let mut d = a.clone();
    d.reverse();
    let mut r = a.clone();
    r.rotate_left(1);
    let mut v = vec![a, d, r];
    v.sort();
    v.dedup();
    v
}

fn bit_chains(thorough: bool) -> Vec<Vec<usize>> {
    let mut v: Vec<Vec<usize>> = vec![];
    for b in [7usize, 10, 13, 16, 20, 25, 30, 31, 40, 50, 59, 60] {
        v.push(vec![b]);
    }
    let s2: &[usize] = if thorough { &[7, 13, 20, 30, 40, 60] } else { &[7, 20, 40, 60] };
    for &a in s2 {
        for &b in s2 {
            v.push(vec![a, b]);
        }
    }
    for p in [[59usize, 60], [60, 59], [31, 30], [30, 31]] {
        v.push(p.to_vec());
    }
    let s3: &[usize] = if thorough { &[10, 30, 40, 60] } else { &[10, 30, 60] };
    for ms in multisets(s3, 3) {
        v.extend(orders(&ms));
    }
    let s4: &[usize] = if thorough { &[13, 30, 60] } else { &[13, 60] };
    for ms in multisets(s4, 4) {
        v.extend(orders(&ms));
    }
    if thorough {
        for ms in multisets(&[20, 60], 5) {
            v.extend(orders(&ms));
        }
        for ms in multisets(&[30, 60], 6) {
            v.extend(orders(&ms));
        }
    }
    v.sort();
    v.dedup();
    v.sort_by_key(|c| (c.len(), c.iter().sum::<usize>()));
    v
}

/// plain moduli for a chain: t = 2, 3, odd composite, powers of two, batching primes below every q_i (fast lift),
/// a batching prime just above the smallest q_i (multi-precision lift), large t
fn plain_moduli(n: usize, q: &[u64], thorough: bool) -> Vec<u64> {
    let mut v: Vec<u64> = if thorough { vec![2, 3, 15, 256, 1 << 30] } else { vec![2, 3, 256] };
    for bits in if thorough { vec![6usize, 17, 20, 40] } else { vec![6usize, 20] } {
        if let Some(p) = batching_prime(n, bits, q) {
            v.push(p);
        }
    }
    if let Some(p) = batching_prime(n, 60, q) {
        v.push(p);
    }
    let minq = *q.iter().min().unwrap();
    let minbits = 64 - minq.leading_zeros() as usize;
    if q.len() >= 2 && minbits < 59 {
        if let Some(p) = batching_prime(n, minbits + 1, q) {
            v.push(p);
        }
        // just above the smallest prime: next odd number coprime to everything
        let mut x = minq + 2;
        while q.iter().any(|&p| x % p == 0) {
            x += 2;
        }
        v.push(x);
    }
    if thorough {
        v.extend([4, 255, 65537, 1 << 40, 1 << 59]);
    }
    v.retain(|&t| gcd_all(t, q));
    v.sort();
    v.dedup();
    v
}

fn gcd(mut a: u64, mut b: u64) -> u64 {
    while b != 0 {
        (a, b) = (b, a % b);
    }
    a
}
fn gcd_all(t: u64, q: &[u64]) -> bool {
    q.iter().all(|&p| gcd(t, p) == 1)
}

fn sweep_specs(thorough: bool) -> Vec<ParamSpec> {
    let ns: &[usize] = if thorough { &[2, 4, 8, 16] } else { &[2, 4, 8] };
    let mut out = vec![];
    for bits in bit_chains(thorough) {
        for &n in ns {
            if n >= 16 && bits.len() > 2 {
                continue;
            }
            let Some(q) = prime_chain(n, &bits) else { continue };
            for scheme in [Scheme::BFV, Scheme::BGV] {
                for t in plain_moduli(n, &q, thorough) {
                    if !gcd_all(t, &q) {
                        continue;
                    }
                    for sp in [false, true] {
                        if sp && q.len() == 1 {
                            continue;
                        }
                        let mut s = ParamSpec::new(scheme, n, q.clone(), t);
                        s.special_enc = sp;
                        out.push(s);
                    }
                }
            }
        }
    }
    out
}

/// cheap a-priori filter on the spec alone (assumes the regular chain shape): can any mode be noise-valid?
fn maybe_valid(s: &ParamSpec, nc: &NoiseCombo) -> bool {
    let k = s.q.len();
    let first: &[u64] = if k == 1 || s.special_enc { &s.q } else { &s.q[..k - 1] };
    let q = BigU::product(first);
    let b = fresh_noise_bound(sch(s.scheme), s.n, s.t, false, None, Mags { s: 0, u: 0, bk: 0, be: mag(nc.ee, ERR_MAX) });
    noise_valid(sch(s.scheme), &b, s.t, &q, &BigU::zero())
}

fn tiny_chains(size: u8) -> Vec<Vec<usize>> {
    if size == 0 {
        vec![vec![13], vec![60], vec![9, 9], vec![60, 7], vec![10, 9, 8], vec![40, 30, 20, 10]]
    } else if size == 2 {
        vec![
            vec![10], vec![11], vec![12], vec![13], vec![14], vec![16], vec![20], vec![30], vec![60],
            vec![7, 7], vec![8, 20], vec![9, 9], vec![10, 7], vec![10, 60], vec![13, 13], vec![20, 10], vec![30, 30], vec![60, 7], vec![60, 60],
            vec![7, 7, 7], vec![8, 9, 10], vec![10, 9, 8], vec![13, 13, 13], vec![20, 10, 30], vec![30, 60, 7], vec![60, 60, 60],
            vec![8, 8, 9, 9], vec![10, 20, 30, 40], vec![40, 30, 20, 10], vec![60, 60, 60, 60],
        ]
    } else {
        vec![
            vec![11], vec![12], vec![13], vec![20], vec![60],
            vec![7, 7], vec![9, 9], vec![10, 60], vec![60, 7], vec![60, 60],
            vec![7, 7, 7], vec![10, 9, 8], vec![30, 60, 7],
            vec![8, 8, 9, 9], vec![40, 30, 20, 10],
        ]
    }
}

fn tiny_specs(nts: &[(usize, u64)], chains: &[Vec<usize>]) -> Vec<ParamSpec> {
    let mut out = vec![];
    for &(n, t) in nts {
        for bits in chains {
            let Some(q) = prime_chain(n, bits) else { continue };
            if !gcd_all(t, &q) {
                continue;
            }
            for scheme in [Scheme::BFV, Scheme::BGV] {
                for sp in [false, true] {
                    if sp && q.len() == 1 {
                        continue;
                    }
                    let mut s = ParamSpec::new(scheme, n, q.clone(), t);
                    s.special_enc = sp;
                    out.push(s);
                }
            }
        }
    }
    out
}

/// (N,t) groups of the `tiny_all` section with their chain list and noise scripts
fn tiny_cases(thorough: bool) -> Vec<XCase> {
    let mut groups: Vec<(Vec<(usize, u64)>, u8, Vec<NoiseCombo>)> = vec![];
    if thorough {
        groups.push((vec![(2, 2), (2, 3), (2, 5)], 2, combos(true)));
        groups.push((vec![(4, 2), (4, 3)], 1, combos(true)));
        groups.push((vec![(2, 4), (2, 17), (4, 4), (4, 5), (8, 2)], 2, combos(false)));
        groups.push((vec![(2, 64)], 1, combos(false)));
        groups.push((vec![(4, 8)], 1, combos_small()));
    } else {
        groups.push((vec![(2, 2), (2, 3), (2, 5), (2, 17)], 1, combos(false)));
        groups.push((vec![(4, 3)], 1, combos_small()));
        groups.push((vec![(4, 5)], 0, combos_small()));
    }
    let mut cases = vec![];
    for (nts, size, cs) in groups {
        for spec in tiny_specs(&nts, &tiny_chains(size)) {
            for nc in &cs {
                cases.push(XCase { spec: spec.clone(), noise: *nc, alpha: Alpha::All, umodes: true });
            }
        }
    }
    // simplest first: by number of plaintexts, then by chain length
    cases.sort_by_key(|c| ((c.spec.t as u128).pow(c.spec.n as u32), c.spec.q.len()));
    cases
}

// ------------------------------------------------------------------------------------------
// encrypt_zero at every level, all three schemes
// ------------------------------------------------------------------------------------------

#[derive(Serialize, Deserialize, Clone, Debug)]
pub struct LCase {
    pub spec: ParamSpec,
    pub noise: NoiseCombo,
}

#[derive(Clone, Copy, Debug, PartialEq, Eq)]
enum ZForm {
    PkNewAt,
    PkAt,
    SkAt,
    SkSeedAt,
    PkNewAtU,
    PkAtU,
    SkAtU,
    SkSeedAtU,
}

const ZFORMS: [ZForm; 8] = [ZForm::PkNewAt, ZForm::PkAt, ZForm::SkAt, ZForm::SkSeedAt, ZForm::PkNewAtU, ZForm::PkAtU, ZForm::SkAtU, ZForm::SkSeedAtU];

impl ZForm {
    fn public(self) -> bool {
        matches!(self, ZForm::PkNewAt | ZForm::PkAt | ZForm::PkNewAtU | ZForm::PkAtU)
    }
    fn seeded(self) -> bool {
        matches!(self, ZForm::SkSeedAt | ZForm::SkSeedAtU)
    }
}

fn zero_at(w: &World, f: ZForm, id: &ParmsID, item: u64) -> Result<Ciphertext, String> {
    let e = &w.kit.enc;
    match f {
        ZForm::PkNewAt => guard(|| e.encrypt_zero_new_at(id)),
        ZForm::PkAt => {
            let mut d = dirty(w);
            guard(|| e.encrypt_zero_at(id, &mut d)).map(|_| d)
        }
        ZForm::SkAt => {
            let mut d = dirty(w);
            guard(|| e.encrypt_zero_symmetric_at(id, &mut d)).map(|_| d)
        }
        ZForm::SkSeedAt => guard(|| e.encrypt_zero_symmetric_new_at(id)),
        ZForm::PkNewAtU => {
            let mut r = prng(item);
            guard(|| e.encrypt_zero_new_at_with_u_prng(id, &mut r))
        }
        ZForm::PkAtU => {
            let mut r = prng(item);
            let mut d = dirty(w);
            guard(|| e.encrypt_zero_at_with_u_prng(id, &mut r, &mut d)).map(|_| d)
        }
        ZForm::SkAtU => {
            let mut r = prng(item);
            let mut d = dirty(w);
            guard(|| e.encrypt_zero_symmetric_at_with_u_prng(id, &mut r, &mut d)).map(|_| d)
        }
        ZForm::SkSeedAtU => {
            let mut r = prng(item);
            guard(|| e.encrypt_zero_symmetric_new_at_with_u_prng(id, &mut r))
        }
    }
}

/// the same form without a level argument (first data level)
fn zero_first(w: &World, f: ZForm, item: u64) -> Result<Ciphertext, String> {
    let e = &w.kit.enc;
    match f {
        ZForm::PkNewAt => guard(|| e.encrypt_zero_new()),
        ZForm::PkAt => {
            let mut d = dirty(w);
            guard(|| e.encrypt_zero(&mut d)).map(|_| d)
        }
        ZForm::SkAt => {
            let mut d = dirty(w);
            guard(|| e.encrypt_zero_symmetric(&mut d)).map(|_| d)
        }
        ZForm::SkSeedAt => guard(|| e.encrypt_zero_symmetric_new()),
        ZForm::PkNewAtU => {
            let mut r = prng(item);
            guard(|| e.encrypt_zero_new_with_u_prng(&mut r))
        }
        ZForm::PkAtU => {
            let mut r = prng(item);
            let mut d = dirty(w);
            guard(|| e.encrypt_zero_with_u_prng(&mut r, &mut d)).map(|_| d)
        }
        ZForm::SkAtU => {
            let mut r = prng(item);
            let mut d = dirty(w);
            guard(|| e.encrypt_zero_symmetric_with_u_prng(&mut r, &mut d)).map(|_| d)
        }
        ZForm::SkSeedAtU => {
            let mut r = prng(item);
            guard(|| e.encrypt_zero_symmetric_new_with_u_prng(&mut r))
        }
    }
}

/// CKKS: exact coefficient-level difference between a decrypted plaintext and the encrypted one
fn ckks_noise(w: &World, li: usize, dec: &[u64], plain: &[u64]) -> Vec<BigI> {
    let l = &w.levels[li].lvl;
    let n = w.n;
    let diff: Vec<u64> = (0..l.moduli.len() * n).map(|x| sub_mod(dec[x], plain[x], l.moduli[x / n])).collect();
    w.centered(li, &w.coeff_form(li, &diff, true))
}

/// Judge an encryption of zero at level li (any scheme).
fn judge_zero(w: &World, li: usize, ct: &Ciphertext, public: bool) -> Result<u64, Bad> {
    let l = &w.levels[li];
    let b = w.bound(li, public);
    if w.sch != Sch::Ckks {
        let ok = noise_valid(w.sch, &b, w.t, &l.lvl.q, &BigU::zero());
        let cl = judge_exact(w, li, ct, &vec![0u64; w.n], &b, ok)?;
        if l.pure_key {
            judge_pure_key(w, ct)?;
        }
        return Ok(cl * 2 + ok as u64);
    }
    w.check_fresh_meta(li, ct, 1.0)?;
    let ph = w.centered(li, &w.phase(li, ct));
    let mut cl = 0;
    for (j, p) in ph.iter().enumerate() {
        if !b.holds_for(p) {
            return Err(bad("noise-exceeds-apriori-bound", format!("|phase| <= {:.2}", b.to_f64()), format!("coefficient {j}: {:.1}", p.to_f64())));
        }
        cl = cl.max(p.mag.bits() as u64);
    }
    if l.pure_key {
        judge_pure_key(w, ct)?;
        return Ok(cl * 2);
    }
    let ok = noise_valid(Sch::Ckks, &b, 0, &l.lvl.q, &BigU::zero());
    if !ok {
        return Ok(cl * 2);
    }
    let dec = match guard(|| w.kit.dec.decrypt_new(ct)) {
        Ok(p) => p,
        Err(p) => return Err(bad(format!("decrypt-panic:{}", panic_class(&p)), "decrypt succeeds on a fresh ciphertext", p)),
    };
    let k = l.lvl.moduli.len();
    if *dec.parms_id() != l.id || dec.scale() != 1.0 || dec.coeff_count() != k * w.n || dec.data().len() != k * w.n || !dec.is_valid_for(&w.kit.ctx) {
        return Err(bad("decrypted-metadata", "plaintext at the ciphertext's level, scale 1, N*k words, valid", format!("level_matches={} scale={} coeff_count={} len={}", *dec.parms_id() == l.id, dec.scale(), dec.coeff_count(), dec.data().len())));
    }
    let v = ckks_noise(w, li, dec.data(), &vec![0u64; k * w.n]);
    if v != ph {
        return Err(bad("wrong-plaintext", "decrypted polynomial equals the phase c0 + c1*s", format!("{:?} vs phase {:?}", v.iter().map(|x| x.to_f64()).collect::<Vec<_>>(), ph.iter().map(|x| x.to_f64()).collect::<Vec<_>>())));
    }
    Ok(cl * 2 + 1)
}

/// A ciphertext produced at the pure key level: structurally fine, not usable as data.
fn judge_pure_key(w: &World, ct: &Ciphertext) -> Result<(), Bad> {
    let ctx = &w.kit.ctx;
    let l = &w.levels[0];
    if !ct.is_metadata_valid_for(ctx, true) || !ct.is_buffer_valid() {
        return Err(bad("keylevel-metadata", "metadata valid when key levels are allowed, buffer valid", ct_meta(ct)));
    }
    let n = w.n;
    for (x, &v) in ct.data().iter().enumerate() {
        let q = l.lvl.moduli[(x / n) % l.lvl.moduli.len()];
        if v >= q {
            return Err(bad("keylevel-residue", format!("residue {x} < {q}"), format!("{v}")));
        }
    }
    if ct.is_valid_for(ctx) {
        return Err(bad("keylevel-valid", "a ciphertext at the pure key level is not valid data", "is_valid_for = true"));
    }
    if let Ok(p) = guard(|| w.kit.dec.decrypt_new(ct)) {
        return Err(bad("keylevel-decrypt", "decrypt refuses a ciphertext at the pure key level", format!("returned {} coefficients", p.coeff_count())));
    }
    Ok(())
}

fn check_levels(c: &LCase, seed: u64) -> CaseOut {
    check_levels_in("levels", c, seed, false)
}

fn check_levels_in(section: &str, c: &LCase, seed: u64, fast: bool) -> CaseOut {
    let tag = h64(&serde_json::to_string(c).unwrap());
    let sname = format!("{section}:{:?}", c.spec.scheme);
    let w = match World::build_with(&c.spec, &c.noise, seed, tag, fast) {
        Ok(w) => w,
        Err(e) if e.starts_with("REFMODEL") || e.starts_with("panic") => return CaseOut::fail(format!("{sname}:setup"), "context and keys can be built for accepted parameters", e),
        Err(e) => return CaseOut::skip(&format!("library rejects the parameters: {e}")),
    };
    let mut steps = 0u64;
    let mut classes: Vec<u64> = vec![];
    let mut judged_decrypt = false;
    for li in 0..w.levels.len() {
        let id = w.levels[li].id;
        for (fi, &f) in ZFORMS.iter().enumerate() {
            let item = h64(&(tag, li as u64, fi as u64));
            he::env(seed, item, c.noise.eu.mode(), c.noise.ee.mode());
            let what = format!("{f:?}");
            let ct = match zero_at(&w, f, &id, item) {
                Ok(ct) => ct,
                Err(p) => return CaseOut::fail(format!("{sname}:{what}:panic:{}", panic_class(&p)), format!("encryption of zero at level {li} of {} succeeds", c.spec.label()), p),
            };
            let r = unseed(&w, li, ct.clone(), f.seeded()).and_then(|x| judge_zero(&w, li, &x, f.public()).map(|cl| (x, cl)));
            let (_x, cl) = match r {
                Ok(v) => v,
                Err((k, e, o)) => return CaseOut::fail(format!("{sname}:{what}:{k}"), format!("level {li}{} of {} (noise {:?}): {e}", if w.levels[li].pure_key { " (key level)" } else { "" }, c.spec.label(), c.noise), o),
            };
            judged_decrypt |= cl & 1 == 1;
            classes.push(cl);
            steps += 1;
            if li == w.first {
                // the form without a level argument is the same call
                he::env(seed, item, c.noise.eu.mode(), c.noise.ee.mode());
                match zero_first(&w, f, item) {
                    Ok(d) => {
                        if !same_ct(&ct, &d) {
                            return CaseOut::fail(format!("{sname}:{what}:first-level-form-differs"), "the form without a level equals the _at(first_parms_id) form under the same entropy", format!("{} vs {}", ct_meta(&ct), ct_meta(&d)));
                        }
                    }
                    Err(p) => return CaseOut::fail(format!("{sname}:{what}:first-form-panic:{}", panic_class(&p)), "encryption of zero succeeds", p),
                }
                steps += 1;
            }
        }
    }
    // unknown level: refusal
    let mut bogus = w.levels[0].id;
    bogus[0] ^= 0x5a5a;
    for f in [ZForm::PkNewAt, ZForm::SkAt, ZForm::SkSeedAt] {
        if let Ok(ct) = zero_at(&w, f, &bogus, 1) {
            return CaseOut::fail(format!("{sname}:{f:?}:unknown-level-accepted"), "a parms_id that is not in the chain is refused", ct_meta(&ct));
        }
        steps += 1;
    }
    CaseOut::pass(judged_decrypt, h64(&(c.spec.scheme, w.levels.len(), w.first, classes.iter().map(|c| c & 1).sum::<u64>(), classes.iter().max().map(|c| c / 8))), steps)
}

fn level_specs(thorough: bool) -> Vec<ParamSpec> {
    let ns: &[usize] = if thorough { &[2, 4, 8, 16] } else { &[2, 4, 8] };
    let chains: Vec<Vec<usize>> = {
        let mut v: Vec<Vec<usize>> = vec![
            vec![20], vec![60],
            vec![20, 20], vec![30, 60], vec![60, 30], vec![13, 13], vec![60, 60],
            vec![20, 30, 40], vec![40, 30, 20], vec![30, 60, 13], vec![60, 60, 60], vec![13, 13, 13],
            vec![20, 30, 40, 50], vec![50, 40, 30, 20], vec![60, 13, 60, 13], vec![60, 60, 60, 60], vec![13, 20, 13, 20],
        ];
        if thorough {
            v.extend([vec![30, 30, 30, 30, 30], vec![60, 50, 40, 30, 20], vec![20, 30, 40, 50, 60, 60], vec![60, 60, 60, 60, 60, 60], vec![13, 13, 20, 20, 30, 30], vec![10, 10], vec![10, 10, 10], vec![7, 8, 9, 10]]);
        }
        v
    };
    let mut out = vec![];
    for bits in &chains {
        for &n in ns {
            let Some(q) = prime_chain(n, bits) else { continue };
            for scheme in Scheme::all() {
                let ts: Vec<u64> = if scheme == Scheme::CKKS { vec![0] } else { vec![2, 17, 256, batching_prime(n, 20, &q).unwrap_or(65537)] };
                for t in ts {
                    if scheme != Scheme::CKKS && !gcd_all(t, &q) {
                        continue;
                    }
                    for sp in [false, true] {
                        if sp && q.len() == 1 {
                            continue;
                        }
                        let mut s = ParamSpec::new(scheme, n, q.clone(), t);
                        s.special_enc = sp;
                        out.push(s);
                    }
                }
            }
        }
    }
    out
}

// ------------------------------------------------------------------------------------------
// *_with_u_prng
// ------------------------------------------------------------------------------------------

#[derive(Serialize, Deserialize, Clone, Debug)]
pub struct UCase {
    pub spec: ParamSpec,
    /// error script of key generation and encryption (the mask is always really sampled)
    pub err: Noise,
}

/// c_j - c'_j, centred, in coefficient form
fn ct_diff(w: &World, li: usize, a: &Ciphertext, b: &Ciphertext, poly: usize) -> Vec<BigI> {
    let l = &w.levels[li].lvl;
    let n = w.n;
    let (pa, pb) = (a.poly(poly), b.poly(poly));
    let d: Vec<u64> = (0..l.moduli.len() * n).map(|x| sub_mod(pa[x], pb[x], l.moduli[x / n])).collect();
    w.centered(li, &w.coeff_form(li, &d, a.is_ntt_form()))
}

fn check_uprng(c: &UCase, seed: u64) -> CaseOut {
    check_uprng_in("uprng", c, seed, false)
}

fn check_uprng_in(section: &str, c: &UCase, seed: u64, fast: bool) -> CaseOut {
    let tag = h64(&serde_json::to_string(c).unwrap());
    let sname = format!("{section}:{:?}", c.spec.scheme);
    let nc = NoiseCombo::new(Noise::Real, c.err, Noise::Real, c.err);
    let w = match World::build_with(&c.spec, &nc, seed, tag, fast) {
        Ok(w) => w,
        Err(e) if e.starts_with("REFMODEL") || e.starts_with("panic") => return CaseOut::fail(format!("{sname}:setup"), "context and keys can be built", e),
        Err(e) => return CaseOut::skip(&format!("library rejects the parameters: {e}")),
    };
    let li = w.first;
    let l = &w.levels[li];
    let e = &w.kit.enc;
    let mut steps = 0u64;
    let fails = |k: String, ex: String, ob: String| CaseOut::fail(format!("{sname}:{k}"), format!("{} err={:?}: {ex}", c.spec.label(), c.err), ob);
    // a plaintext (BFV/BGV) / encoded vector (CKKS) to encrypt
    let pt: Plaintext = if w.sch == Sch::Ckks {
        let enc = CKKSEncoder::new(w.kit.ctx.clone());
        let bits = l.lvl.q.bits();
        let scale = 2f64.powi(((bits as i32) / 2).clamp(2, 30));
        match guard(|| enc.encode_c64_array_new(&[Complex::new(1.0, -0.5)], Some(l.id), scale)) {
            Ok(p) => p,
            Err(_) => return CaseOut::skip("encoder refuses the probe value"),
        }
    } else {
        w.kit.plain(&(0..w.n as u64).map(|i| (i * 7 + 1) % w.t).collect::<Vec<_>>())
    };
    // bound on |c - c'| for equal mask, different error
    let b2 = ERR_MAX as u128 * 2 * if w.sch == Sch::Bgv { w.t as u128 } else { 1 };
    let diff_bound = |public: bool| -> Bound {
        match (public, l.dropped) {
            (true, Some(p)) => {
                let extra: u128 = if w.sch == Sch::Bgv { w.t as u128 + 1 } else { 1 };
                Bound { num: BigU::from_u128(b2).add(&BigU::from_u128(extra).mul_u64(p)), den: BigU::from_u64(p) }
            }
            _ => Bound::int(b2),
        }
    };
    for (fi, form) in ["pk", "pk_zero", "sk", "sk_seed", "sk_zero_seed"].iter().enumerate() {
        let public = form.starts_with("pk");
        let call = |rng: &mut BlakeRNG| -> Result<Ciphertext, String> {
            match *form {
                "pk" => guard(|| e.encrypt_new_with_u_prng(&pt, rng)),
                "pk_zero" => guard(|| e.encrypt_zero_new_with_u_prng(rng)),
                "sk" => {
                    let mut d = Ciphertext::new();
                    guard(|| e.encrypt_symmetric_with_u_prng(&pt, rng, &mut d)).map(|_| d)
                }
                "sk_seed" => guard(|| e.encrypt_symmetric_new_with_u_prng(&pt, rng)),
                _ => guard(|| e.encrypt_zero_symmetric_new_with_u_prng(rng)),
            }
        };
        let item = h64(&(tag, fi as u64));
        let run = |ent: u64, rng: &mut BlakeRNG| -> Result<(Ciphertext, Ciphertext), CaseOut> {
            he::env(seed, ent, Noise::Real.mode(), c.err.mode());
            let raw = call(rng).map_err(|p| fails(format!("{form}:panic:{}", panic_class(&p)), "the call succeeds".into(), p))?;
            let ex = unseed(&w, li, raw.clone(), form.contains("seed")).map_err(|(k, ex, ob)| fails(format!("{form}:{k}"), ex, ob))?;
            w.check_fresh_meta(li, &ex, if w.sch == Sch::Ckks && !form.contains("zero") { pt.scale() } else { 1.0 }).map_err(|(k, ex, ob)| fails(format!("{form}:{k}"), ex, ob))?;
            Ok((raw, ex))
        };
        let mut ra = prng(item);
        let (a_raw, a) = match run(item, &mut ra) {
            Ok(x) => x,
            Err(o) => return o,
        };
        // same generator state, different entropy for everything else
        let mut ra2 = prng(item);
        let (a2_raw, a2) = match run(item ^ 0x1111, &mut ra2) {
            Ok(x) => x,
            Err(o) => return o,
        };
        // different generator states (the mask space of tiny N is small: 3^N masks; several states are tried and at least one
        // must give a different mask) and the generator used for `a` again (it must have advanced)
        let mut others: Vec<Ciphertext> = vec![];
        let mut repeats: Vec<Ciphertext> = vec![];
        for alt in 1..=8u64 {
            let mut rb = prng(item ^ (0x2222 * alt));
            match run(item, &mut rb) {
                Ok((_, x)) => others.push(x),
                Err(o) => return o,
            }
            match run(item, &mut ra) {
                Ok((_, x)) => repeats.push(x),
                Err(o) => return o,
            }
        }
        steps += 2 + others.len() as u64 + repeats.len() as u64;
        // "different" is only observable when the modulus is much larger than the error-sized differences
        let dbp = diff_bound(public);
        let big_enough = l.lvl.q.bits() >= 24 && l.lvl.q.mul(&dbp.den) > dbp.num.shl(12);
        if public {
            if c.err == Noise::Zero && !same_ct(&a, &a2) {
                return fails(format!("{form}:same-state-different-mask"), "equal u_prng state and zero error give byte-identical ciphertexts".into(), format!("{} vs {}", ct_meta(&a), ct_meta(&a2)));
            }
            let db = diff_bound(true);
            for poly in 0..2 {
                let d = ct_diff(&w, li, &a, &a2, poly);
                if let Some(x) = d.iter().find(|x| !db.holds_for(x)) {
                    return fails(format!("{form}:same-state-different-mask"), format!("equal u_prng state: the two ciphertexts differ by error terms only (|difference| <= {:.1})", db.to_f64()), format!("polynomial {poly}: difference {:.1}", x.to_f64()));
                }
            }
            if big_enough {
                for (set, why) in [(&others, "different-state-same-mask"), (&repeats, "generator-not-advanced")] {
                    let all_same = set.iter().all(|o| ct_diff(&w, li, &a, o, 1).iter().all(|x| db.holds_for(x)));
                    if all_same {
                        return fails(format!("{form}:{why}"), "8 different u_prng states give at least one different mask".into(), "c1 differs by error terms only in all 8".into());
                    }
                }
            }
        } else {
            // symmetric: the generator determines c1 completely (and the stored seed)
            if a.poly(1) != a2.poly(1) || a_raw.poly(1) != a2_raw.poly(1) {
                return fails(format!("{form}:same-state-different-mask"), "equal c1 generator state gives the same c1 (and the same stored seed)".into(), "c1 differs".into());
            }
            if big_enough && (others.iter().any(|o| a.poly(1) == o.poly(1)) || repeats.iter().any(|o| a.poly(1) == o.poly(1))) {
                return fails(format!("{form}:different-state-same-mask"), "a different / advanced generator state gives a different c1".into(), "c1 identical".into());
            }
        }
        // and they decrypt
        if w.sch != Sch::Ckks {
            let m: Vec<u64> = if form.contains("zero") { vec![0; w.n] } else { w.kit.dec_pad(&pt, w.n) };
            let (bd, ok) = mode_valid(&w, li, public, &BigU::zero());
            for x in [&a, &a2].into_iter().chain(others.iter()).chain(repeats.iter()) {
                if let Err((k, ex, ob)) = judge_exact(&w, li, x, &m, &bd, ok) {
                    return fails(format!("{form}:{k}"), ex, ob);
                }
                steps += 1;
            }
        }
    }
    CaseOut::pass(true, h64(&(c.spec.scheme, l.dropped.is_some(), c.err, w.n * l.lvl.moduli.len() >= SEED_WORDS)), steps)
}

trait DecPad {
    fn dec_pad(&self, p: &Plaintext, n: usize) -> Vec<u64>;
}
impl DecPad for Kit {
    fn dec_pad(&self, p: &Plaintext, n: usize) -> Vec<u64> {
        let mut v = p.data()[..p.coeff_count()].to_vec();
        v.resize(n, 0);
        v
    }
}

// ------------------------------------------------------------------------------------------
// CKKS
// ------------------------------------------------------------------------------------------

#[derive(Serialize, Deserialize, Clone, Debug)]
pub struct KCase {
    pub spec: ParamSpec,
    pub noise: NoiseCombo,
}

fn slot_values(thorough: bool) -> Vec<Complex<f64>> {
    let c = Complex::new;
    let mut v = vec![c(0.0, 0.0), c(1.0, 0.0), c(-1.0, 0.0), c(0.0, 1.0), c(0.125, 0.0), c(-256.0, 0.0), c(1048576.0, 0.0), c(1.5, -0.25)];
    if thorough {
        v.extend([c(0.0, -1.0), c(-0.125, 0.0), c(256.0, 0.0), c(-1048576.0, 0.0), c(1000.25, 3.0)]);
    }
    v
}

fn slot_vectors(slots: usize, thorough: bool) -> Vec<Vec<Complex<f64>>> {
    let a = slot_values(thorough);
    let mut out: Vec<Vec<Complex<f64>>> = vec![vec![]];
    if slots <= 2 {
        for len in 1..=slots {
            let mut idx = vec![0usize; len];
            'outer: loop {
                out.push(idx.iter().map(|&i| a[i]).collect());
                let mut p = 0;
                loop {
                    if p == len {
                        break 'outer;
                    }
                    idx[p] += 1;
                    if idx[p] < a.len() {
                        break;
                    }
                    idx[p] = 0;
                    p += 1;
                }
            }
        }
    } else {
        for i in 0..slots {
            for &v in a.iter().skip(1) {
                let mut u = vec![Complex::new(0.0, 0.0); i + 1];
                u[i] = v;
                out.push(u.clone());
                if i + 1 < slots {
                    u.resize(slots, Complex::new(0.0, 0.0));
                    out.push(u);
                }
            }
        }
        for &v in a.iter() {
            out.push(vec![v; slots]);
        }
        out.push((0..slots).map(|i| a[1 + i % (a.len() - 1)]).collect());
    }
    out
}

fn scale_grid(qbits: usize, thorough: bool) -> Vec<f64> {
    let hi = qbits as i32 - 2;
    if hi < 1 {
        return vec![];
    }
    let lo = hi.min(10);
    let steps = if thorough { 6 } else { 4 };
    let mut e: Vec<i32> = (0..steps).map(|i| lo + (hi - lo) * i / (steps - 1)).collect();
    e.dedup();
    let mut v: Vec<f64> = e.iter().map(|&x| 2f64.powi(x)).collect();
    if hi >= 16 {
        v.push(12345.678);
    }
    v
}

fn check_ckks(c: &KCase, seed: u64, thorough: bool) -> CaseOut {
    check_ckks_in("ckks", c, seed, thorough)
}

fn check_ckks_in(section: &str, c: &KCase, seed: u64, thorough: bool) -> CaseOut {
    let tag = h64(&serde_json::to_string(c).unwrap());
    let w = match World::build(&c.spec, &c.noise, seed, tag) {
        Ok(w) => w,
        Err(e) if e.starts_with("REFMODEL") || e.starts_with("panic") => return CaseOut::fail(format!("{section}:setup"), "context and keys can be built for accepted parameters", e),
        Err(e) => return CaseOut::skip(&format!("library rejects the parameters: {e}")),
    };
    let encoder = match guard(|| CKKSEncoder::new(w.kit.ctx.clone())) {
        Ok(e) => e,
        Err(p) => return CaseOut::fail(format!("{section}:encoder-new-panic"), "CKKSEncoder::new succeeds", p),
    };
    let slots = w.n / 2;
    let vectors = slot_vectors(slots, thorough);
    let mut steps = 0u64;
    let mut refused = 0u64;
    let mut unjudged = 0u64;
    let mut classes = 0u64;
    let fail = |k: String, e: String, o: String| CaseOut::fail(format!("{section}:{k}"), format!("{} noise {:?}: {e}", c.spec.label(), c.noise), o);
    for li in 0..w.levels.len() {
        let l = &w.levels[li];
        let k = l.lvl.moduli.len();
        for (si, &scale) in scale_grid(l.lvl.q.bits(), thorough).iter().enumerate() {
            for (vi, z) in vectors.iter().enumerate() {
                let p = match guard(|| encoder.encode_c64_array_new(z, Some(l.id), scale)) {
                    Ok(p) => p,
                    Err(_) => {
                        refused += 1;
                        continue;
                    }
                };
                if l.pure_key {
                    // a plaintext at the pure key level is not data: encryption refuses it (or, if it accepts, nothing is claimed)
                    he::env(seed, tag, c.noise.eu.mode(), c.noise.ee.mode());
                    if guard(|| w.kit.enc.encrypt_symmetric_new(&p)).is_err() {
                        refused += 1;
                    }
                    continue;
                }
                // exact message coefficients
                let pc = l.lvl.compose_centered(&l.lvl.coeff_form(p.data(), true));
                let zmax = z.iter().map(|x| x.norm()).fold(0.0f64, f64::max);
                // message magnitude: what the residues say, and (a-priori, the encoder's own range check is loose) scale*max|z|+1
                let mmax = pc.iter().map(|x| x.mag.clone()).max().unwrap().max(ceil_to_bigu(scale * zmax).add(&BigU::one()));
                for (mi, &mode) in [Mode::Pk, Mode::PkDest, Mode::Sk, Mode::SkSeed].iter().enumerate() {
                    let b = w.bound(li, mode.public());
                    if !noise_valid(Sch::Ckks, &b, 0, &l.lvl.q, &mmax) {
                        unjudged += 1;
                        continue;
                    }
                    let item = h64(&(tag, li as u64, si as u64, vi as u64, mi as u64));
                    let what = format!("{mode:?}");
                    let enc = &w.kit.enc;
                    he::env(seed, item, c.noise.eu.mode(), c.noise.ee.mode());
                    let r = match mode {
                        Mode::Pk => guard(|| enc.encrypt_new(&p)),
                        Mode::PkDest => {
                            let mut d = dirty(&w);
                            guard(|| enc.encrypt(&p, &mut d)).map(|_| d)
                        }
                        Mode::Sk => {
                            let mut d = dirty(&w);
                            guard(|| enc.encrypt_symmetric(&p, &mut d)).map(|_| d)
                        }
                        _ => guard(|| enc.encrypt_symmetric_new(&p)),
                    };
                    let ct = match r {
                        Ok(ct) => ct,
                        Err(pn) => return fail(format!("{what}:encrypt-panic:{}", panic_class(&pn)), format!("level {li} scale {scale} values {z:?}: encryption of a valid plaintext succeeds"), pn),
                    };
                    let ct = match unseed(&w, li, ct, mode.seeded()).and_then(|ct| w.check_fresh_meta(li, &ct, scale).map(|_| ct)) {
                        Ok(ct) => ct,
                        Err((kk, e, o)) => return fail(format!("{what}:{kk}"), format!("level {li} scale {scale} values {z:?}: {e}"), o),
                    };
                    let dec = match guard(|| w.kit.dec.decrypt_new(&ct)) {
                        Ok(d) => d,
                        Err(pn) => return fail(format!("{what}:decrypt-panic:{}", panic_class(&pn)), format!("level {li} scale {scale} values {z:?}: decryption succeeds"), pn),
                    };
                    if *dec.parms_id() != l.id || dec.scale().to_bits() != scale.to_bits() || dec.coeff_count() != k * w.n || dec.data().len() != k * w.n || !dec.is_valid_for(&w.kit.ctx) {
                        return fail(format!("{what}:decrypted-metadata"), format!("level {li} scale {scale}: plaintext at the same level with the same scale, N*k words, valid"), format!("level_matches={} scale={} coeff_count={}", *dec.parms_id() == l.id, dec.scale(), dec.coeff_count()));
                    }
                    // coefficient level, exact
                    let v = ckks_noise(&w, li, dec.data(), p.data());
                    for (j, x) in v.iter().enumerate() {
                        if !b.holds_for(x) {
                            return fail(format!("{what}:noise-exceeds-apriori-bound"), format!("level {li} scale {scale} values {z:?}: |decrypted - encoded| <= {:.2} per coefficient", b.to_f64()), format!("coefficient {j}: {:.1}", x.to_f64()));
                        }
                        classes = classes.max(x.mag.bits() as u64);
                    }
                    if c.noise.all_zero() && dec.data() != p.data() {
                        return fail(format!("{what}:zero-noise-not-exact"), format!("level {li} scale {scale}: with all-zero noise the decrypted plaintext equals the encoded one"), "differs".to_string());
                    }
                    // slot level
                    let out = match guard(|| encoder.decode_new(&dec)) {
                        Ok(o) => o,
                        Err(pn) => return fail(format!("{what}:decode-panic:{}", panic_class(&pn)), format!("level {li} scale {scale} values {z:?}: decode succeeds"), pn),
                    };
                    let tol = w.n as f64 * (b.to_f64() + 0.5) / scale + (zmax + 1.0) * w.n as f64 * 2f64.powi(-40);
                    for sidx in 0..slots {
                        let want = z.get(sidx).copied().unwrap_or(Complex::new(0.0, 0.0));
                        let err = (out[sidx] - want).norm();
                        if !(err <= tol) {
                            return fail(format!("{what}:slot-error"), format!("level {li} scale {scale} values {z:?}: slot {sidx} within {tol:e} of {want}"), format!("{} (error {err:e})", out[sidx]));
                        }
                    }
                    steps += 1;
                }
            }
        }
    }
    if steps == 0 {
        return CaseOut::skip("no (level, scale, value) is noise-valid");
    }
    CaseOut::pass(true, h64(&(w.levels.len(), w.first, refused > 0, unjudged > 0, classes / 4)), steps)
}

fn ckks_specs(thorough: bool) -> Vec<ParamSpec> {
    let ns: &[usize] = if thorough { &[2, 4, 8, 16] } else { &[2, 4, 8] };
    let mut chains: Vec<Vec<usize>> = vec![
        vec![20], vec![30], vec![60],
        vec![30, 30], vec![40, 60], vec![60, 40], vec![60, 60], vec![20, 13],
        vec![30, 40, 50], vec![50, 40, 30], vec![60, 60, 60], vec![25, 60, 25],
        vec![40, 40, 40, 40], vec![60, 50, 40, 30], vec![30, 40, 50, 60],
    ];
    if thorough {
        chains.extend([vec![13], vec![16], vec![40], vec![13, 13], vec![20, 20, 20], vec![60, 20, 60], vec![30, 30, 30, 30, 30], vec![60, 60, 60, 60, 60, 60], vec![20, 30, 40, 50, 59, 60]]);
    }
    let mut out = vec![];
    for bits in &chains {
        for &n in ns {
            let Some(q) = prime_chain(n, bits) else { continue };
            for sp in [false, true] {
                if sp && q.len() == 1 {
                    continue;
                }
                let mut s = ParamSpec::new(Scheme::CKKS, n, q.clone(), 0);
                s.special_enc = sp;
                out.push(s);
            }
        }
    }
    out
}

// ------------------------------------------------------------------------------------------
// chains with a prime inside the error range
// ------------------------------------------------------------------------------------------

#[derive(Serialize, Deserialize, Clone, Debug)]
pub struct TCase {
    pub spec: ParamSpec,
    /// number of round trips per mode
    pub rounds: u64,
    /// Real = the library's sampler (scripted entropy); scripted errors are reduced modulo every prime by the hook itself
    #[serde(default = "real_combo")]
    pub noise: NoiseCombo,
}

fn real_combo() -> NoiseCombo {
    NoiseCombo::new(Noise::Real, Noise::Real, Noise::Real, Noise::Real)
}

fn check_tinyprime(c: &TCase, seed: u64) -> CaseOut {
    let tag = h64(&serde_json::to_string(c).unwrap());
    let nc = c.noise;
    let sname = format!("tinyprime:{:?}", c.spec.scheme);
    // key generation itself samples an error polynomial: a panic there is a finding, not a rejection
    let w = match World::build(&c.spec, &nc, seed, tag) {
        Ok(w) => w,
        Err(e) if e.starts_with("panic") => return CaseOut::fail(format!("{sname}:panic"), format!("{}: keys can be generated for accepted parameters", c.spec.label()), e),
        Err(e) if e.starts_with("REFMODEL") => return CaseOut::fail(format!("{sname}:setup"), format!("{}: reference model applies", c.spec.label()), e),
        Err(e) => return CaseOut::skip(&format!("library rejects the parameters: {e}")),
    };
    let li = w.first;
    if w.sch == Sch::Ckks {
        return CaseOut::skip("BFV/BGV only");
    }
    let (bpk, okpk) = mode_valid(&w, li, true, &BigU::zero());
    let (bsk, oksk) = mode_valid(&w, li, false, &BigU::zero());
    if !okpk && !oksk {
        return CaseOut::skip("not noise-valid in any mode");
    }
    let mut steps = 0;
    for r in 0..c.rounds {
        let v: Vec<u64> = (0..w.n as u64).map(|i| (r + i * 3) % w.t).collect();
        let pt = w.kit.plain(&v);
        for (mi, &mode) in [Mode::Pk, Mode::Sk, Mode::SkSeed].iter().enumerate() {
            let (b, ok) = if mode.public() { (&bpk, okpk) } else { (&bsk, oksk) };
            if !ok {
                continue;
            }
            let item = h64(&(tag, r, mi as u64));
            match encrypt_mode(&w, mode, &pt, seed, item, &nc).and_then(|ct| judge_exact(&w, li, &ct, &v, b, true)) {
                Ok(_) => steps += 1,
                Err((k, e, o)) => {
                    // one root cause is expected here (error samples outside [0, q)); keep the signature coarse
                    let class = if k.contains("-panic:") { "panic".to_string() } else { k.clone() };
                    return CaseOut::fail(format!("{sname}:{class}"), format!("{} round {r} plaintext {v:?} mode {mode:?} noise {:?} [{k}]: {e}", c.spec.label(), c.noise), o);
                }
            }
        }
    }
    CaseOut::pass(steps > 0, h64(&(c.spec.scheme, okpk, oksk, w.levels.len())), steps)
}

fn tinyprime_specs(thorough: bool) -> Vec<ParamSpec> {
    let mut out = vec![];
    // (N, small primes = 1 mod 2N that lie inside the error range [-21, 21])
    let smalls: &[(usize, &[u64])] = &[(2, &[5, 13, 17]), (4, &[17]), (8, &[17])];
    for &(n, ps) in smalls {
        let big = prime_chain(n, &[30, 40]).unwrap();
        for &p in ps {
            let chains: Vec<Vec<u64>> = vec![vec![big[0], p], vec![p, big[0]], vec![big[0], p, big[1]], vec![big[0], big[1], p]];
            for q in chains {
                for scheme in [Scheme::BFV, Scheme::BGV] {
                    for t in if thorough { vec![2u64, 3, 256] } else { vec![3u64] } {
                        for sp in [false, true] {
                            let mut s = ParamSpec::new(scheme, n, q.clone(), t);
                            s.special_enc = sp;
                            out.push(s);
                        }
                    }
                }
            }
        }
    }
    out
}

// ------------------------------------------------------------------------------------------
// production sizes: many primes (tiny N) and large N (few..many primes)
// ------------------------------------------------------------------------------------------

/// the existing oracles (schoolbook reference) on chains of 1..18 primes at N = 4 / 8
#[derive(Serialize, Deserialize, Clone, Debug)]
pub enum MCase {
    Exact(XCase),
    Levels(LCase),
    Uprng(UCase),
    Ckks(KCase),
}

fn check_many(c: &MCase, seed: u64) -> CaseOut {
    match c {
        MCase::Exact(x) => check_exact("manyprimes", x, seed),
        MCase::Levels(l) => check_levels_in("manyprimes:levels", l, seed, false),
        MCase::Uprng(u) => check_uprng_in("manyprimes:uprng", u, seed, false),
        MCase::Ckks(k) => check_ckks_in("manyprimes:ckks", k, seed, false),
    }
}

/// bit sizes of a chain of k primes following a repeating pattern
fn pattern_bits(k: usize, pat: &[usize]) -> Vec<usize> {
    (0..k).map(|i| pat[i % pat.len()]).collect()
}

/// all primes of 60 bits
const PAT_A: &[usize] = &[60];
/// mixed sizes, not monotone (a plain modulus of 21 bits lies above one prime and below the others)
const PAT_B: &[usize] = &[60, 20, 50, 30, 40];
/// ascending start (a plain modulus of 41 bits lies above the first prime)
const PAT_C: &[usize] = &[40, 50, 60];

fn log2(n: usize) -> usize {
    n.trailing_zeros() as usize
}

/// a batching prime of at least `bits` bits (large enough for 2N | t-1 to have solutions)
fn tbatch(n: usize, bits: usize, q: &[u64]) -> Option<u64> {
    batching_prime(n, bits.max(log2(n) + 6), q)
}

/// plain moduli that go with a chain pattern: 60-bit batching prime where two data primes of 60 bits exist, a batching prime
/// one bit above the smallest coefficient prime (BGV: multi-precision lift over k words; BFV: t > q_i), a small one otherwise
fn ts_for(n: usize, q: &[u64], pat: &[usize], sp: bool, every: bool) -> Vec<u64> {
    let data = if q.len() == 1 || sp { q.len() } else { q.len() - 1 };
    let minbits = 64 - q.iter().min().unwrap().leading_zeros() as usize;
    let small = if n <= 8 { Some(17) } else { tbatch(n, 20, q) };
    let mut v: Vec<Option<u64>> = vec![];
    if pat == PAT_A {
        v.push(if data >= 2 { batching_prime(n, 60, q) } else { small });
        if every {
            v.push(small);
        }
    } else {
        v.push(if data >= 2 && minbits < 59 { tbatch(n, minbits + 1, q) } else { small });
        if every {
            v.push(small);
            if data >= 3 {
                v.push(batching_prime(n, 60, q));
            }
        }
    }
    let mut v: Vec<u64> = v.into_iter().flatten().filter(|&t| gcd_all(t, q)).collect();
    v.sort();
    v.dedup();
    v
}

const KS_EDGE: [usize; 8] = [1, 2, 7, 8, 9, 16, 17, 18];

/// (N, chain, pattern) of the many-primes families: N = 4 with every k = 1..18, N = 8 with the k around 8 and 16 (thorough: every k)
fn many_chains(thorough: bool) -> Vec<(usize, Vec<u64>, &'static [usize])> {
    let mut out = vec![];
    for n in [4usize, 8] {
        for k in 1..=18usize {
            if n == 8 && !thorough && ![8, 9, 16, 17].contains(&k) {
                continue;
            }
            for pat in [PAT_A, PAT_B] {
                // (quick: the mixed-size chain at the k next to 1, 8 and 16 only)
                if pat == PAT_B && (k == 1 || (!thorough && (n == 8 || !KS_EDGE.contains(&k)))) {
                    continue;
                }
                if let Some(q) = prime_chain(n, &pattern_bits(k, pat)) {
                    out.push((n, q, pat));
                }
            }
        }
    }
    out
}

fn many_cases(thorough: bool) -> Vec<MCase> {
    use Noise::*;
    let ext = NoiseCombo::new(AllMax, AllMin, AllMax, AllMax);
    let real = NoiseCombo::new(Real, Real, Real, Real);
    let mut cases: Vec<(usize, MCase)> = vec![];
    for (n, q, pat) in many_chains(thorough) {
        let k = q.len();
        let edge = KS_EDGE.contains(&k);
        let weight = n * k;
        for sp in [false, true] {
            if sp && k == 1 {
                continue;
            }
            // round trips of the boundary plaintexts in all 7 modes
            for scheme in [Scheme::BFV, Scheme::BGV] {
                for t in ts_for(n, &q, pat, sp, thorough) {
                    let combos: Vec<NoiseCombo> = if thorough { combos_small() } else if edge { vec![ext, real] } else { vec![ext] };
                    for nc in combos {
                        let mut s = ParamSpec::new(scheme, n, q.clone(), t);
                        s.special_enc = sp;
                        cases.push((weight, MCase::Exact(XCase { spec: s, noise: nc, alpha: Alpha::EdgeFew, umodes: true })));
                    }
                }
            }
            // encryptions of zero at every level, generator variants
            if thorough || edge || n == 4 {
                for scheme in Scheme::all() {
                    let t = if scheme == Scheme::CKKS { 0 } else { 17 };
                    let mut s = ParamSpec::new(scheme, n, q.clone(), t);
                    s.special_enc = sp;
                    let combos: Vec<NoiseCombo> = if thorough { combos_small() } else if edge { vec![ext, real] } else { vec![ext] };
                    for nc in combos {
                        cases.push((weight, MCase::Levels(LCase { spec: s.clone(), noise: nc })));
                    }
                    if thorough || (edge && pat == PAT_A) {
                        for err in if thorough { vec![Zero, Real, AllMax] } else { vec![Zero, AllMax] } {
                            cases.push((weight, MCase::Uprng(UCase { spec: s.clone(), err })));
                        }
                    }
                }
            }
            // the full CKKS grid (every level x scale x slot vector x mode) is expensive with 17 levels: boundary k only, thorough only
            if thorough && n == 4 && [8usize, 9, 16, 17].contains(&k) && pat == PAT_A {
                let mut s = ParamSpec::new(Scheme::CKKS, n, q.clone(), 0);
                s.special_enc = sp;
                for nc in [ext, real] {
                    cases.push((weight, MCase::Ckks(KCase { spec: s.clone(), noise: nc })));
                }
            }
        }
    }
    cases.sort_by_key(|c| c.0);
    cases.into_iter().map(|c| c.1).collect()
}

#[derive(Serialize, Deserialize, Clone, Copy, Debug, PartialEq, Eq, Hash)]
pub enum SKind {
    /// round trips of the structured plaintext / slot-vector family
    Messages,
    /// the 8 encrypt_zero forms at every level of the chain
    Zeros,
}

#[derive(Serialize, Deserialize, Clone, Debug)]
pub struct SCase {
    pub spec: ParamSpec,
    pub noise: NoiseCombo,
    pub kind: SKind,
    pub family: Fam,
    /// true: every plaintext in all 7 modes; false: one public-key and one secret-key mode per plaintext, in rotation
    pub all_modes: bool,
    /// this case handles the family members with index = part (mod parts)
    pub part: u32,
    pub parts: u32,
}

#[derive(Serialize, Deserialize, Clone, Copy, Debug, PartialEq, Eq, Hash)]
pub enum Fam {
    /// a monomial at EVERY position 0..N-1 and a dense plaintext of EVERY length 0..N (CKKS: every unit slot, every vector length)
    Every,
    /// positions / lengths at the marks {0,1,2, 2^j-1, 2^j, 2^j+1, N-2, N-1, N}
    Marks,
    /// a dozen plaintexts: empty, zero, 1, thr*X^(N/2) (short), (t-1)*X^(N-1), dense of length N/2+1 and N, alternating, ramp, generic
    Few,
}

/// boundary positions below n: 0,1,2, every power of two with its neighbours, n-2, n-1
fn marks(n: usize) -> Vec<usize> {
    let mut v: Vec<usize> = vec![0, 1, 2, n.saturating_sub(2), n.saturating_sub(1)];
    let mut b = 4usize;
    while b <= n {
        v.extend([b - 1, b, b + 1]);
        b *= 2;
    }
    v.retain(|&x| x < n);
    v.sort();
    v.dedup();
    v
}

/// structured BFV/BGV plaintext family (coefficient vectors; the vector length is the plaintext's coeff_count)
fn plaintexts_sized(n: usize, t: u64, family: Fam) -> Vec<Vec<u64>> {
    let vals: Vec<u64> = boundary_values(t).into_iter().filter(|&v| v != 0).collect();
    let thr = (t + 1) >> 1;
    let mut out: Vec<Vec<u64>> = vec![vec![], vec![0], vec![0; n]];
    let generic = |j: usize| ((j as u128 * j as u128 * 7919 + 13 * j as u128 + 5) % t as u128) as u64;
    if family == Fam::Few {
        out.push(vec![1]);
        let mut u = vec![0u64; n / 2 + 1];
        u[n / 2] = thr % t;
        out.push(u);
        let mut u = vec![0u64; n];
        u[n - 1] = t - 1;
        out.push(u);
        out.push(vec![t - 1; n / 2 + 1]);
        out.push(vec![t - 1; n]);
        out.push((0..n).map(|i| if i % 2 == 0 { t - 1 } else { thr % t }).collect());
        out.push((0..n).map(|i| ((i as u128 * (t - 1) as u128) / (n as u128 - 1).max(1)) as u64).collect());
        out.push((0..n).map(generic).collect());
        out.sort();
        out.dedup();
        return out;
    }
    let complete = family == Fam::Every;
    let positions: Vec<usize> = if complete { (0..n).collect() } else { marks(n) };
    for (x, &i) in positions.iter().enumerate() {
        // short form (coeff_count = i+1) and full-length form
        let mut u = vec![0u64; i + 1];
        u[i] = vals[x % vals.len()];
        out.push(u.clone());
        u[i] = vals[(x + 1) % vals.len()];
        u.resize(n, 0);
        out.push(u);
    }
    let lengths: Vec<usize> = if complete { (1..=n).collect() } else { marks(n + 1).into_iter().filter(|&l| l > 0).collect() };
    for &l in &lengths {
        out.push(vec![t - 1; l]);
    }
    for l in marks(n + 1).into_iter().filter(|&l| l > 0) {
        out.push((0..l).map(generic).collect());
    }
    for &v in &vals {
        out.push(vec![v; n]);
    }
    out.push((0..n).map(|i| if i % 2 == 0 { t - 1 } else { thr % t }).collect());
    out.push((0..n).map(|i| if i % 2 == 0 { thr - 1 } else { t - 1 }).collect());
    out.push((0..n).map(|i| ((i as u128 * (t - 1) as u128) / (n as u128 - 1).max(1)) as u64).collect());
    out.sort();
    out.dedup();
    out
}

/// structured CKKS slot-vector family
fn slot_family(slots: usize, family: Fam) -> Vec<Vec<Complex<f64>>> {
    if family == Fam::Few {
        return slot_short(slots);
    }
    let complete = family == Fam::Every;
    let a = slot_values(false);
    let zero = Complex::new(0.0, 0.0);
    let mut out: Vec<Vec<Complex<f64>>> = vec![vec![]];
    let positions: Vec<usize> = if complete { (0..slots).collect() } else { marks(slots) };
    for (x, &i) in positions.iter().enumerate() {
        let mut u = vec![zero; i + 1];
        u[i] = a[1 + x % (a.len() - 1)];
        out.push(u.clone());
        if i + 1 < slots {
            u[i] = a[1 + (x + 1) % (a.len() - 1)];
            u.resize(slots, zero);
            out.push(u);
        }
    }
    let lengths: Vec<usize> = if complete { (1..=slots).collect() } else { marks(slots + 1).into_iter().filter(|&l| l > 0).collect() };
    for l in lengths {
        out.push(vec![Complex::new(1.5, -0.25); l]);
    }
    for &v in &a {
        out.push(vec![v; slots]);
    }
    out.push((0..slots).map(|i| a[1 + i % (a.len() - 1)]).collect());
    out
}

/// the few vectors used at the levels between the first and the last
fn slot_short(slots: usize) -> Vec<Vec<Complex<f64>>> {
    let a = slot_values(false);
    let zero = Complex::new(0.0, 0.0);
    let mut last = vec![zero; slots];
    last[slots - 1] = Complex::new(0.0, 1.0);
    vec![vec![], vec![Complex::new(-1.0, 0.0)], last, vec![Complex::new(1.5, -0.25); slots], (0..slots).map(|i| a[1 + i % (a.len() - 1)]).collect()]
}

fn describe_u64s(v: &[u64]) -> String {
    if v.len() <= 16 {
        return format!("{v:?}");
    }
    let nz: Vec<(usize, u64)> = v.iter().enumerate().filter(|(_, &x)| x != 0).map(|(i, &x)| (i, x)).collect();
    format!("coeff_count {} with {} non-zero coefficients, the first (position, value): {:?}, the last: {:?}", v.len(), nz.len(), &nz[..nz.len().min(3)], nz.last())
}

fn describe_slots(z: &[Complex<f64>]) -> String {
    if z.len() <= 8 {
        return format!("{z:?}");
    }
    let nz: Vec<(usize, Complex<f64>)> = z.iter().enumerate().filter(|(_, x)| x.norm() != 0.0).map(|(i, &x)| (i, x)).collect();
    format!("{} values with {} non-zero, the first (slot, value): {:?}, the last: {:?}", z.len(), nz.len(), &nz[..nz.len().min(3)], nz.last())
}

const MODES_PUB: [Mode; 3] = [Mode::Pk, Mode::PkDest, Mode::PkU];
const MODES_SYM: [Mode; 4] = [Mode::Sk, Mode::SkSeed, Mode::SkU, Mode::SkSeedU];

fn modes_of(c: &SCase, idx: usize) -> Vec<Mode> {
    if c.all_modes {
        MODES.to_vec()
    } else {
        vec![MODES_PUB[idx % 3], MODES_SYM[idx % 4]]
    }
}

/// When the reference cannot even read the secret key: does a plain encrypt -> decrypt round trip still work?
fn blackbox_roundtrip(c: &SCase, seed: u64, tag: u64) -> Option<Bad> {
    if c.spec.scheme == Scheme::CKKS {
        return None;
    }
    he::env(seed, tag, c.noise.ks.mode(), c.noise.ke.mode());
    let kit = match guard(|| Kit::new(&c.spec)) {
        Ok(Ok(k)) => k,
        _ => return None,
    };
    let (n, t) = (c.spec.n, c.spec.t);
    let mut v = vec![0u64; n];
    v[0] = 1;
    v[n - 1] = t - 1;
    let pt = kit.plain(&v);
    for (name, public) in [("Pk", true), ("Sk", false)] {
        he::env(seed, tag ^ 1, c.noise.eu.mode(), c.noise.ee.mode());
        let r = guard(|| {
            let ct = if public {
                kit.enc.encrypt_new(&pt)
            } else {
                let mut d = Ciphertext::new();
                kit.enc.encrypt_symmetric(&pt, &mut d);
                d
            };
            kit.dec.decrypt_new(&ct)
        });
        match r {
            Ok(d) => {
                if d.data().as_slice() != v.as_slice() {
                    return Some(bad(format!("{name}:wrong-plaintext"), format!("1 + (t-1)*X^(N-1) decrypts to itself ({})", c.spec.label()), describe_u64s(d.data())));
                }
            }
            Err(p) => return Some(bad(format!("{name}:roundtrip-panic:{}", panic_class(&p)), "encrypt and decrypt succeed", p)),
        }
    }
    None
}

fn check_sizes(c: &SCase, seed: u64) -> CaseOut {
    if c.kind == SKind::Zeros {
        return check_levels_in("sizes:zero", &LCase { spec: c.spec.clone(), noise: c.noise }, seed, true);
    }
    let tag = h64(&serde_json::to_string(c).unwrap());
    let sname = format!("sizes:{:?}", c.spec.scheme);
    if c.spec.scheme != Scheme::CKKS && !maybe_valid(&c.spec, &c.noise) {
        return CaseOut::skip("not noise-valid in any mode (a-priori, from the parameters alone)");
    }
    let w = match World::build_with(&c.spec, &c.noise, seed, tag, true) {
        Ok(w) => w,
        Err(e) if e.starts_with("REFMODEL") => {
            // the secret key (or its table) is not what the reference expects: classify by a black-box round trip
            return match blackbox_roundtrip(c, seed, tag) {
                Some((k, ex, ob)) => CaseOut::fail(format!("{sname}:{k}"), format!("{ex} [noise {:?}; reference: {e}]", c.noise), ob),
                None => CaseOut::fail(format!("{sname}:setup"), format!("{}: the secret key is the transform of a ternary polynomial in the order defined by the level's own tables", c.spec.label()), e),
            };
        }
        Err(e) if e.starts_with("panic") => return CaseOut::fail(format!("{sname}:setup"), "context and keys can be built for accepted parameters", e),
        Err(e) => return CaseOut::skip(&format!("library rejects the parameters: {e}")),
    };
    if w.sch == Sch::Ckks {
        return sizes_ckks(c, &w, seed, tag);
    }
    let li = w.first;
    let (bpk, okpk) = mode_valid(&w, li, true, &BigU::zero());
    let (bsk, oksk) = mode_valid(&w, li, false, &BigU::zero());
    if !okpk && !oksk {
        return CaseOut::skip("not noise-valid in any mode");
    }
    let pts = plaintexts_sized(w.n, w.t, c.family);
    let mut steps = 0u64;
    let mut maxclass = 0u64;
    for (pi, v) in pts.iter().enumerate() {
        if pi as u32 % c.parts.max(1) != c.part {
            continue;
        }
        let pt = if v.is_empty() { Plaintext::new() } else { w.kit.plain(v) };
        let mut m = v.clone();
        m.resize(w.n, 0);
        for mode in modes_of(c, pi) {
            let (b, ok) = if mode.public() { (&bpk, okpk) } else { (&bsk, oksk) };
            if !ok {
                continue;
            }
            let item = h64(&(tag, pi as u64, mode));
            match encrypt_mode(&w, mode, &pt, seed, item, &c.noise).and_then(|ct| judge_exact(&w, li, &ct, &m, b, true)) {
                Ok(cl) => {
                    steps += 1;
                    maxclass = maxclass.max(cl);
                }
                Err((k, e, o)) => {
                    let o = if o.len() > 600 { format!("{} ...", &o[..600]) } else { o };
                    let e = if e.len() > 600 { format!("{} ...", &e[..600]) } else { e };
                    return CaseOut::fail(format!("{sname}:{mode:?}:{k}"), format!("plaintext {} ({}; noise {:?}): {e}", describe_u64s(v), c.spec.label(), c.noise), o);
                }
            }
        }
    }
    if steps == 0 {
        return CaseOut::skip("no family member in this part is noise-valid");
    }
    let fl = w.kit.ctx.first_context_data().unwrap().qualifiers().using_fast_plain_lift;
    CaseOut::pass(true, h64(&(c.spec.scheme, okpk, oksk, fl, w.first_level().dropped.is_some(), w.levels.len(), log2(w.n), maxclass / 4)), steps)
}

fn sizes_ckks(c: &SCase, w: &World, seed: u64, tag: u64) -> CaseOut {
    let encoder = match guard(|| CKKSEncoder::new(w.kit.ctx.clone())) {
        Ok(e) => e,
        Err(p) => return CaseOut::fail("sizes:CKKS:encoder-new-panic", "CKKSEncoder::new succeeds", p),
    };
    let slots = w.n / 2;
    let family = slot_family(slots, c.family);
    let short = slot_short(slots);
    let mut steps = 0u64;
    let mut refused = 0u64;
    let mut unjudged = 0u64;
    let mut classes = 0u64;
    let mut gi = 0usize;
    let fail = |k: String, e: String, o: String| CaseOut::fail(format!("sizes:CKKS:{k}"), format!("{} noise {:?}: {e}", c.spec.label(), c.noise), if o.len() > 600 { format!("{} ...", &o[..600]) } else { o });
    let last = w.levels.len() - 1;
    for li in 0..w.levels.len() {
        let l = &w.levels[li];
        if l.pure_key {
            continue;
        }
        let k = l.lvl.moduli.len();
        let full = li == w.first || li == last;
        // (a scale must stay a finite f64 with room for the values)
        let hi = (l.lvl.q.bits() as i32 - 2).min(1000);
        if hi < 1 {
            continue;
        }
        let mut scales = vec![2f64.powi(hi.min(20))];
        if full && hi > 20 {
            scales.push(2f64.powi(hi));
        }
        for (si, &scale) in scales.iter().enumerate() {
            for (vi, z) in (if full { &family } else { &short }).iter().enumerate() {
                gi += 1;
                if (gi - 1) as u32 % c.parts.max(1) != c.part {
                    continue;
                }
                let p = match guard(|| encoder.encode_c64_array_new(z, Some(l.id), scale)) {
                    Ok(p) => p,
                    Err(_) => {
                        refused += 1;
                        continue;
                    }
                };
                let zmax = z.iter().map(|x| x.norm()).fold(0.0f64, f64::max);
                // |coefficient| <= scale * (2/N) * sum|z_i| + 1/2 <= scale * max|z| + 1/2 (the 2^-10 margin of the validity test absorbs the f64 error)
                let mut mmax = if (scale * zmax).is_finite() { ceil_to_bigu(scale * zmax) } else { ceil_to_bigu(scale).mul(&ceil_to_bigu(zmax)) }.add(&BigU::one());
                let pcoef = w.coeff_form(li, p.data(), true);
                if w.n <= 16 {
                    mmax = w.centered(li, &pcoef).iter().map(|x| x.mag.clone()).max().unwrap().max(mmax);
                }
                let what_in = format!("level {li} scale {scale:e} values {}", describe_slots(z));
                // levels between the first and the last: one public-key and one secret-key mode in rotation
                let modes = if full { modes_of(c, gi) } else { vec![MODES_PUB[gi % 3], MODES_SYM[gi % 4]] };
                for mode in modes {
                    let b = w.bound(li, mode.public());
                    if !noise_valid(Sch::Ckks, &b, 0, &l.lvl.q, &mmax) {
                        unjudged += 1;
                        continue;
                    }
                    let item = h64(&(tag, li as u64, si as u64, vi as u64, mode));
                    let what = format!("{mode:?}");
                    let ct = match encrypt_mode_at(w, li, mode, &p, seed, item, &c.noise).and_then(|ct| w.check_fresh_meta(li, &ct, scale).map(|_| ct)) {
                        Ok(ct) => ct,
                        Err((kk, e, o)) => return fail(format!("{what}:{kk}"), format!("{what_in}: {e}"), o),
                    };
                    // exact phase noise c0 + c1*s - plaintext
                    let ph = w.phase(li, &ct);
                    let diff: Vec<Vec<u64>> = (0..k).map(|i| (0..w.n).map(|j| sub_mod(ph[i][j], pcoef[i][j], l.lvl.moduli[i])).collect()).collect();
                    for (j, x) in w.centered(li, &diff).iter().enumerate() {
                        if !b.holds_for(x) {
                            return fail(format!("{what}:noise-exceeds-apriori-bound"), format!("{what_in}: |c0 + c1*s - encoded| <= {:.2} per coefficient", b.to_f64()), format!("coefficient {j}: {:.1}", x.to_f64()));
                        }
                    }
                    let dec = match guard(|| w.kit.dec.decrypt_new(&ct)) {
                        Ok(d) => d,
                        Err(pn) => return fail(format!("{what}:decrypt-panic:{}", panic_class(&pn)), format!("{what_in}: decryption succeeds"), pn),
                    };
                    if *dec.parms_id() != l.id || dec.scale().to_bits() != scale.to_bits() || dec.coeff_count() != k * w.n || dec.data().len() != k * w.n || !dec.is_valid_for(&w.kit.ctx) {
                        return fail(format!("{what}:decrypted-metadata"), format!("level {li} scale {scale}: plaintext at the same level with the same scale, N*k words, valid"), format!("level_matches={} scale={} coeff_count={}", *dec.parms_id() == l.id, dec.scale(), dec.coeff_count()));
                    }
                    for (j, x) in ckks_noise(w, li, dec.data(), p.data()).iter().enumerate() {
                        if !b.holds_for(x) {
                            return fail(format!("{what}:noise-exceeds-apriori-bound"), format!("{what_in}: |decrypted - encoded| <= {:.2} per coefficient", b.to_f64()), format!("coefficient {j}: {:.1}", x.to_f64()));
                        }
                        classes = classes.max(x.mag.bits() as u64);
                    }
                    if c.noise.all_zero() && dec.data() != p.data() {
                        return fail(format!("{what}:zero-noise-not-exact"), format!("{what_in}: with all-zero noise the decrypted plaintext equals the encoded one"), "differs".to_string());
                    }
                    let out = match guard(|| encoder.decode_new(&dec)) {
                        Ok(o) => o,
                        Err(pn) => return fail(format!("{what}:decode-panic:{}", panic_class(&pn)), format!("{what_in}: decode succeeds"), pn),
                    };
                    let tol = w.n as f64 * (b.to_f64() + 0.5) / scale + (zmax + 1.0) * w.n as f64 * 2f64.powi(-40);
                    for sidx in 0..slots {
                        let want = z.get(sidx).copied().unwrap_or(Complex::new(0.0, 0.0));
                        let err = (out[sidx] - want).norm();
                        if !(err <= tol) {
                            return fail(format!("{what}:slot-error"), format!("{what_in}: slot {sidx} within {tol:e} of {want}"), format!("{} (error {err:e})", out[sidx]));
                        }
                    }
                    steps += 1;
                }
            }
        }
    }
    if steps == 0 {
        return CaseOut::skip("no (level, scale, value) of this part is noise-valid");
    }
    CaseOut::pass(true, h64(&(w.levels.len(), w.first, log2(w.n), refused > 0, unjudged > 0, classes / 4)), steps)
}

/// the `sizes` section: (N, chain pattern, k, family, all modes?, parts, noise scripts) x special-prime flag x scheme x plain modulus
fn sizes_cases(thorough: bool) -> Vec<SCase> {
    use Noise::*;
    let extp = NoiseCombo::new(AllMax, AllMin, AllMax, AllMax);
    let extm = NoiseCombo::new(AllMax, AllMax, AllMax, AllMin);
    let alt = NoiseCombo::new(Alt, AllMin, Alt, Alt);
    let real = NoiseCombo::new(Real, Real, Real, Real);
    let mut fam: Vec<(usize, &'static [usize], usize, Fam, bool, u32, Vec<NoiseCombo>)> = vec![];
    // (a) many primes at tiny N, fast reference next to the schoolbook one
    for (n, q, pat) in many_chains(thorough) {
        let k = q.len();
        let noise = if thorough { vec![extp, extm, alt, real] } else if KS_EDGE.contains(&k) && pat == PAT_A { vec![extp, real] } else { vec![extp] };
        fam.push((n, pat, k, Fam::Every, true, 1, noise));
    }
    // (b) every power of two, few primes
    for n in [16usize, 32, 64, 128, 256, 512, 1024] {
        if n == 512 && !thorough {
            continue;
        }
        let every = n <= if thorough { 1024 } else { 128 };
        let parts = if every { (n / 128).max(1) as u32 } else { 1 };
        for (pat, k) in [(PAT_A, 2usize), (PAT_C, 3)] {
            let noise = if thorough { vec![extp, extm, real] } else if [128usize, 256].contains(&n) { vec![extp, real] } else { vec![extp] };
            fam.push((n, pat, k, if every { Fam::Every } else { Fam::Marks }, if every { n <= 64 } else { thorough }, parts, noise));
        }
        if thorough {
            fam.push((n, PAT_A, 3, Fam::Marks, true, 1, vec![extp, real]));
            fam.push((n, PAT_B, 6, Fam::Marks, true, 1, vec![extm]));
        }
    }
    // (c) N and the number of primes across their boundaries together
    for (n, ks) in [(128usize, vec![9usize, 17]), (1024, vec![9, 10, 17])] {
        for k in ks {
            if thorough {
                fam.push((n, PAT_A, k, Fam::Marks, true, 2, vec![extp, real]));
                fam.push((n, PAT_B, k, Fam::Marks, false, 1, vec![extm]));
            } else {
                fam.push((n, PAT_A, k, Fam::Few, true, 1, vec![extp]));
            }
        }
    }
    // (d) production degrees
    if thorough {
        for n in [2048usize, 4096, 8192, 16384] {
            if n <= 4096 {
                fam.push((n, PAT_A, 2, Fam::Every, false, (n / 128) as u32, vec![extp]));
            }
            for (pat, k) in [(PAT_A, 2usize), (PAT_C, 3), (PAT_B, 5), (PAT_A, 9), (PAT_A, 10)] {
                if n == 16384 && k == 9 {
                    continue;
                }
                fam.push((n, pat, k, Fam::Marks, false, if n * k >= 40000 { 4 } else { 1 }, if k <= 3 { vec![extp, real] } else { vec![extp] }));
            }
        }
        // every mode on the same plaintexts at the largest sizes
        for n in [8192usize, 16384] {
            for k in [2usize, 10] {
                fam.push((n, PAT_A, k, Fam::Few, true, 1, vec![extm]));
            }
        }
        fam.push((4096, PAT_A, 17, Fam::Marks, false, 4, vec![extp]));
        fam.push((2048, PAT_B, 16, Fam::Marks, false, 2, vec![extm]));
    }
    let mut cases: Vec<(usize, SCase)> = vec![];
    for (n, pat, k, family, all_modes, parts, noise) in fam {
        let Some(q) = prime_chain(n, &pattern_bits(k, pat)) else { continue };
        for sp in [false, true] {
            if sp && (k == 1 || (n >= 2048 && k > 3) || (!thorough && n >= 1024 && k > 3)) {
                continue;
            }
            let mut specs: Vec<ParamSpec> = vec![];
            for scheme in [Scheme::BFV, Scheme::BGV] {
                for t in ts_for(n, &q, pat, sp, thorough && n <= 1024 && k <= 3) {
                    specs.push(ParamSpec::new(scheme, n, q.clone(), t));
                }
            }
            specs.push(ParamSpec::new(Scheme::CKKS, n, q.clone(), 0));
            for mut s in specs {
                s.special_enc = sp;
                for nc in &noise {
                    // CKKS: the complete family has N/2 unit slots and N/2 lengths at two levels and two scales
                    let parts = if s.scheme == Scheme::CKKS && family == Fam::Every { parts.max((n / 64) as u32) } else { parts };
                    for part in 0..parts {
                        cases.push((n * k, SCase { spec: s.clone(), noise: *nc, kind: SKind::Messages, family, all_modes, part, parts }));
                    }
                    cases.push((n * k, SCase { spec: s.clone(), noise: *nc, kind: SKind::Zeros, family: Fam::Few, all_modes: true, part: 0, parts: 1 }));
                }
            }
        }
    }
    // the same (spec, noise, Zeros) may come from two families
    let mut seen = std::collections::HashSet::new();
    cases.retain(|c| seen.insert(serde_json::to_string(&c.1).unwrap()));
    cases.sort_by_key(|c| c.0);
    cases.into_iter().map(|c| c.1).collect()
}

// ------------------------------------------------------------------------------------------
// sections
// ------------------------------------------------------------------------------------------


// ---------------------------------------------------------------------------------------------
// scaling_words: the BFV message scaling primitives word by word, at the VALUE boundaries of their modular additions.
// A fresh ciphertext word is (pseudo)random, so "ciphertext word + scaled message == q_j exactly" has probability 1/q_j and
// no plaintext alphabet reaches it (seeded round 4, C02-G: a lazy `> q` instead of `>= q`). The primitives are public in
// the hooked build (`verif_hooks::scaling_variant`), so the destination words are CHOSEN here: for every message value of
// a boundary alphabet and every RNS component, the destination word is set to q_j - s, q_j - s -+ 1, 0, 1, q_j - 1, s,
// s -+ 1 (s = the exactly scaled message mod q_j) and the result must be the canonical residue of d +- s.
// ---------------------------------------------------------------------------------------------

#[derive(Serialize, Deserialize, Clone, Debug)]
pub struct SwCase {
    pub spec: ParamSpec,
    /// 0 = multiply_add_plain, 1 = multiply_sub_plain, 2 = add_plain, 3 = sub_plain
    pub op: u8,
}

fn sw_messages(t: u64, q_mod_t: u64) -> Vec<u64> {
    let mut m: Vec<u64> = vec![0, 1, 2, 3, t / 2, t / 2 + 1, (t / 2).saturating_sub(1), t - 1, t.saturating_sub(2), t / 3, 2 * (t / 3) + 1];
    // message values whose product with (q mod t) crosses a multiple of 2^64 in its low word (carry into the high word)
    if q_mod_t > 1 {
        for k in 1..=6u128 {
            let x = ((k << 64) + q_mod_t as u128 - 1) / q_mod_t as u128;
            for d in [0i128, -1, 1] {
                let v = x as i128 + d;
                if v > 0 && (v as u128) < t as u128 {
                    m.push(v as u64);
                }
            }
        }
    }
    m.retain(|&x| x < t);
    m.sort_unstable();
    m.dedup();
    m
}

fn check_scaling_words(c: &SwCase, seed: u64) -> CaseOut {
    use heathcliff::verif_hooks::scaling_variant as sv;
    he::env_real(seed, h64(&("scaling_words", &c.spec)));
    let kit = match Kit::new(&c.spec) {
        Ok(k) => k,
        Err(e) => return CaseOut::skip(&format!("parameters rejected: {e}")),
    };
    let n = c.spec.n;
    let t = c.spec.t;
    let opn = ["multiply_add_plain", "multiply_sub_plain", "add_plain", "sub_plain"][c.op as usize];
    let mut steps = 0u64;
    let mut classes = 0u64;
    for id in kit.levels() {
        let cd = kit.ctx.get_context_data(&id).unwrap();
        let mods = kit.moduli_at(&id);
        let k = mods.len();
        let q = BigU::product(&mods);
        let q_mod_t = q.rem_u64(t);
        let msgs = sw_messages(t, q_mod_t);
        // s[j][i] = exactly scaled message i modulo q_j (multiply_*: round-half-up(Q m / t); add/sub: m mod q_j)
        let scaled: Vec<Vec<u64>> = (0..k)
            .map(|j| {
                msgs.iter()
                    .map(|&m| {
                        if c.op < 2 {
                            // floor((Q m + floor((t+1)/2)) / t)
                            let num = q.mul_u64(m).add(&BigU::from_u64((t + 1) / 2));
                            num.div(&BigU::from_u64(t)).rem_u64(mods[j])
                        } else {
                            m % mods[j]
                        }
                    })
                    .collect()
            })
            .collect();
        // destination word choices relative to s
        for choice in 0..9usize {
            for chunk in msgs.chunks(n) {
                let base = msgs.iter().position(|x| *x == chunk[0]).unwrap();
                let mut pt = Plaintext::new();
                pt.resize(chunk.len());
                pt.data_mut()[..chunk.len()].copy_from_slice(chunk);
                let mut dest = vec![0u64; k * n];
                let mut expect = vec![0u64; k * n];
                for j in 0..k {
                    let qj = mods[j];
                    for (i, _) in chunk.iter().enumerate() {
                        let s = scaled[j][base + i];
                        let add = c.op == 0 || c.op == 2;
                        // the word that makes the sum (difference) land exactly on the modulus (on zero), and its neighbours
                        let pivot = if add { (qj - s) % qj } else { s };
                        let d = match choice {
                            0 => pivot,
                            1 => (pivot + 1) % qj,
                            2 => (pivot + qj - 1) % qj,
                            3 => 0,
                            4 => 1 % qj,
                            5 => qj - 1,
                            6 => s,
                            7 => qj / 2,
                            _ => (qj - 1) / 2 + 1,
                        } % qj;
                        dest[j * n + i] = d;
                        expect[j * n + i] = if add { ((d as u128 + s as u128) % qj as u128) as u64 } else { ((d as u128 + qj as u128 - s as u128) % qj as u128) as u64 };
                    }
                    // untouched tail keeps a marker
                    for i in chunk.len()..n {
                        dest[j * n + i] = (j as u64 + 3) % qj;
                        expect[j * n + i] = dest[j * n + i];
                    }
                }
                let mut out = dest.clone();
                let r = guard(|| match c.op {
                    0 => sv::multiply_add_plain(&pt, &cd, &mut out),
                    1 => sv::multiply_sub_plain(&pt, &cd, &mut out),
                    2 => sv::add_plain(&pt, &cd, &mut out),
                    _ => sv::sub_plain(&pt, &cd, &mut out),
                });
                if let Err(p) = r {
                    return CaseOut::fail(format!("scaling_words:{opn}:panic:{}", panic_class(&p)), format!("{}: messages {:?}, destination choice {choice}: returns", c.spec.label(), chunk), p);
                }
                steps += (k * chunk.len()) as u64;
                if let Some(x) = (0..k * n).find(|&x| out[x] != expect[x]) {
                    let (j, i) = (x / n, x % n);
                    let kind = if out[x] >= mods[j] { "non-canonical" } else { "wrong" };
                    return CaseOut::fail(
                        format!("scaling_words:{opn}:{kind}"),
                        format!("{} level of {k} primes, component {j} (q_j = {}), coefficient {i}: destination word {} {} scaled message {} (m = {}) = {}", c.spec.label(), mods[j], dest[x], if c.op == 0 || c.op == 2 { "+" } else { "-" }, if i < chunk.len() { scaled[j][base + i] } else { 0 }, if i < chunk.len() { chunk[i] } else { 0 }, expect[x]),
                        format!("{}", out[x]),
                    );
                }
                classes += 1;
            }
        }
    }
    CaseOut::pass(true, h64(&(c.op, classes > 0)), steps)
}

fn scaling_words_cases(thorough: bool) -> Vec<SwCase> {
    let big_t = primes_1_mod(16, 60, 1)[0];
    let t40 = primes_1_mod(16, 40, 1)[0];
    let mut specs = vec![
        ParamSpec::new(Scheme::BFV, 8, he::chain(8, &[60, 49]), t40),
        ParamSpec::new(Scheme::BFV, 8, he::chain(8, &[30, 30, 30]), 17),
        ParamSpec::new(Scheme::BFV, 8, he::chain(8, &[60, 60, 60]), big_t),
        ParamSpec::new(Scheme::BFV, 8, he::chain(8, &[25, 50, 50]), primes_1_mod(16, 30, 1)[0]),
        ParamSpec::new(Scheme::BFV, 64, he::chain(64, &[54]), primes_1_mod(128, 36, 1)[0]),
    ];
    if thorough {
        specs.push(ParamSpec::new(Scheme::BFV, 8, he::chain(8, &[40; 10]), t40));
        specs.push(ParamSpec::new(Scheme::BFV, 1024, he::chain(1024, &[50, 50, 60]), 65537));
        specs.push(ParamSpec::new(Scheme::BFV, 8, he::chain_low(8, &[40, 40, 40]), 1 << 20));
    }
    let mut v = vec![];
    for spec in specs {
        for op in 0..4u8 {
            v.push(SwCase { spec: spec.clone(), op });
        }
    }
    v
}

pub fn sections(cfg: &RunCfg) -> Vec<Box<dyn AnySection>> {
    let seed = cfg.seed;
    let thorough = cfg.thorough();
    let mut v: Vec<Box<dyn AnySection>> = vec![];

    // (1) tiny (N,t): all plaintexts
    let cases = tiny_cases(thorough);
    if std::env::var("VERIF_COUNTS").is_ok() {
        eprintln!("[C01] section tiny_all: {} cases enumerated", cases.len());
    }
    v.push(
        E1::new(
            "tiny_all",
            "BFV/BGV, (N,t) in {(2,2),(2,3),(2,5),(2,17),(4,3),(4,5)} (+ (2,4),(2,64),(4,2),(4,4),(4,8),(8,2) thorough): ALL t^N plaintexts in full and trimmed length x 7 encryption modes x 15 prime chains (6 for (4,5); 30 thorough; 1..4 primes, 7..60 bits, special-prime flag on/off) x noise scripts (6 for N=2, 4 for N=4; thorough: all 4^4 scripted + real for t<=5 (N=2) / t<=3 (N=4), 6 otherwise, 4 for (4,8))",
            cases.into_iter(),
            move |c: &XCase| check_exact("tiny_all", c, seed),
        )
        .deadline(Duration::from_secs(120))
        .share(0.5),
    );

    // (2) parameter sweep
    let mut cases: Vec<XCase> = vec![];
    for spec in sweep_specs(thorough) {
        let k = spec.q.len();
        let alpha = if spec.n <= 2 || (thorough && spec.n <= 4 && k == 1) {
            Alpha::Boundary
        } else if spec.n <= 4 || (thorough && spec.n <= 8) {
            Alpha::Edge
        } else {
            Alpha::EdgeFew
        };
        let cs = if thorough && k <= 2 { combos(false) } else { combos_small() };
        for nc in cs {
            cases.push(XCase { spec: spec.clone(), noise: nc, alpha, umodes: thorough });
        }
    }
    if std::env::var("VERIF_COUNTS").is_ok() {
        eprintln!("[C01] section params: {} cases enumerated", cases.len());
    }
    v.push(
        E1::new(
            "params",
            "BFV/BGV, N in {2,4,8} (thorough: 16 for 1..2 primes) x prime chains (1 prime: 12 sizes; 2: all ordered pairs of {7,20,40,60} ({7,13,20,30,40,60} thorough) + (59,60),(60,59),(30,31),(31,30); 3 primes: multisets of {10,30,60} (+40 thorough), 4: of {13,60} (+30), thorough 5: of {20,60}, 6: of {30,60}, each in ascending/descending/rotated order) x plain moduli {2,3,256, batching primes of 6/20/60 bits (+15, 2^30, 17/40-bit batching primes, 4, 255, 65537, 2^40, 2^59 thorough), a batching prime and an odd number just above the smallest q_i (multi-precision lift)} x special-prime flag x boundary plaintext alphabet x 4 modes (7 thorough) x noise scripts",
            cases.into_iter(),
            move |c: &XCase| check_exact("params", c, seed),
        )
        .deadline(Duration::from_secs(120))
        .share(1.0),
    );

    // (3) encryptions of zero at every level
    let mut cases: Vec<LCase> = vec![];
    for spec in level_specs(thorough) {
        for nc in combos(thorough && spec.n <= 4) {
            cases.push(LCase { spec: spec.clone(), noise: nc });
        }
    }
    if std::env::var("VERIF_COUNTS").is_ok() {
        eprintln!("[C01] section levels: {} cases enumerated", cases.len());
    }
    v.push(
        E1::new(
            "levels",
            "BFV/BGV/CKKS x 17 chains (25 thorough) x N x t in {2,17,256,20-bit batching} x special-prime flag: encrypt_zero{,_symmetric}{,_new}_at{,_with_u_prng} at EVERY level from the key level to the last, the level-free forms, an unknown parms_id; noise scripts",
            cases.into_iter(),
            move |c: &LCase| check_levels(c, seed),
        )
        .deadline(Duration::from_secs(120))
        .share(0.3),
    );

    // (4) u_prng variants
    let mut cases: Vec<UCase> = vec![];
    for spec in level_specs(thorough) {
        if spec.t == 2 || spec.t == 256 {
            continue;
        }
        for err in [Noise::Zero, Noise::Real, Noise::AllMax] {
            cases.push(UCase { spec: spec.clone(), err });
        }
    }
    if std::env::var("VERIF_COUNTS").is_ok() {
        eprintln!("[C01] section uprng: {} cases enumerated", cases.len());
    }
    v.push(
        E1::new(
            "uprng",
            "all *_with_u_prng entry points (pk, pk zero, sk, sk seeded, sk zero seeded) x 3 schemes x chains x error scripts {Zero, Real, AllMax}: equal generator state => equal mask (byte-identical with zero error, error-sized difference otherwise), different / advanced state => different mask, results decrypt",
            cases.into_iter(),
            move |c: &UCase| check_uprng(c, seed),
        )
        .deadline(Duration::from_secs(120))
        .share(0.3),
    );

    // (5) CKKS
    let mut cases: Vec<KCase> = vec![];
    for spec in ckks_specs(thorough) {
        for nc in if thorough { combos(false) } else { combos_small().into_iter().chain([NoiseCombo::new(Noise::Zero, Noise::Zero, Noise::Zero, Noise::Zero)]).collect() } {
            cases.push(KCase { spec: spec.clone(), noise: nc });
        }
    }
    if std::env::var("VERIF_COUNTS").is_ok() {
        eprintln!("[C01] section ckks: {} cases enumerated", cases.len());
    }
    v.push(
        E1::new(
            "ckks",
            "CKKS x 15 chains (24 thorough) x N x special-prime flag x every level x scale grid 2^min(10,.)..2^(log q - 2) (4 points, 6 thorough, + one non-power-of-two) x slot vectors (all of an 8(13)-value alphabet for <= 2 slots incl. short vectors; unit/constant/mixed vectors above) x {encrypt_new, encrypt, encrypt_symmetric, encrypt_symmetric_new+expand} x noise scripts",
            cases.into_iter(),
            move |c: &KCase| check_ckks(c, seed, thorough),
        )
        .deadline(Duration::from_secs(180))
        .share(0.4),
    );

    // (6) primes inside the error range
    let mut cases: Vec<TCase> = vec![];
    for spec in tinyprime_specs(thorough) {
        cases.push(TCase { spec: spec.clone(), rounds: if thorough { 4000 } else { 400 }, noise: real_combo() });
        for nc in combos_small().into_iter().skip(1) {
            cases.push(TCase { spec: spec.clone(), rounds: 40, noise: nc });
        }
    }
    if std::env::var("VERIF_COUNTS").is_ok() {
        eprintln!("[C01] section tinyprime: {} cases enumerated", cases.len());
    }
    v.push(
        E1::new(
            "tinyprime",
            "BFV/BGV chains containing a coefficient prime in {5,13,17} (inside the error range +-21) next to 30/40-bit primes, every position, special-prime flag on/off, real sampler under scripted entropy, 400 (4000) round trips per mode; extremal noise scripts, 40 round trips",
            cases.into_iter(),
            move |c: &TCase| check_tinyprime(c, seed),
        )
        .deadline(Duration::from_secs(120))
        .share(0.3),
    );
    // (7) chains of 1..18 primes at N = 4 / 8, existing oracles
    let cases = many_cases(thorough);
    if std::env::var("VERIF_COUNTS").is_ok() {
        eprintln!("[C01] section manyprimes: {} cases enumerated", cases.len());
    }
    v.push(
        E1::new(
            "manyprimes",
            "chains of k = 1..18 coefficient primes (every k at N = 4; k in {8,9,16,17} at N = 8, every k thorough), all 60-bit and (N = 4, k in {2,7,8,9,16,17,18}; every N, k thorough) mixed 60/20/50/30/40-bit, special-prime flag on/off, schoolbook reference: BFV/BGV boundary plaintexts (unit monomials x boundary values, short and full length, constant / alternating / ramp) x 7 modes with a 60-bit batching plain modulus, one a bit above the smallest prime (multi-precision lift over k-1 words) or 17; the 8 encrypt_zero forms at EVERY one of the k levels in 3 schemes; the *_with_u_prng laws; noise scripts +-extremal and real (4 thorough); thorough: the full CKKS grid for k in {8,9,16,17}",
            cases.into_iter(),
            move |c: &MCase| check_many(c, seed),
        )
        .deadline(Duration::from_secs(180))
        .share(0.4),
    );

    // (8) production sizes with the O(N log N) reference
    let cases = sizes_cases(thorough);
    if std::env::var("VERIF_COUNTS").is_ok() {
        eprintln!("[C01] section sizes: {} cases enumerated", cases.len());
    }
    v.push(
        E1::new(
            "sizes",
            "BFV/BGV/CKKS with the fast reference (O(N log N) phase, exact; run next to the schoolbook one for N <= 16): (a) N = 4 (8) x k = 1..18 primes, every monomial position and every plaintext length, 7 modes; (b) N = 16..1024 (every power of two; 512 thorough only) x chains 60,60 and 40,50,60: a boundary-valued monomial at EVERY position and a dense plaintext of EVERY length 0..N for N <= 128 (thorough: N <= 1024, and N = 2048, 4096 with 60,60), at the marks {0,1,2,2^j-1,2^j,2^j+1,N-2,N-1,N} above, + constant / alternating / ramp / generic plaintexts; (c) N in {128,1024} x k in {9,10,17} primes (quick: a dozen plaintexts x 7 modes, N = 1024 without the special-prime flag; thorough: marks); thorough (d) N in {2048,4096,8192,16384} x k in {2,3,5,9,10}, 4096 x 17, 2048 x 16; plain moduli: 60-bit batching prime (>= 2 data primes), batching prime one bit above the smallest q_i, ~20-bit batching prime; special-prime flag on/off; modes: all 7 (marks) or one public-key + one secret-key mode in rotation (every-position families above N = 64, marks at N >= 2048 and at N = 256..1024 quick; all 7 on a dozen plaintexts at N = 8192, 16384 x k in {2,10}); CKKS: unit slots / vector lengths / constants at the first and the last level x scales {2^20, 2^(log q - 2)}, 5 vectors x 2 modes in rotation at every other level; the 8 encrypt_zero forms at EVERY level; extremal noise scripts (+ real)",
            cases.into_iter(),
            move |c: &SCase| check_sizes(c, seed),
        )
        .batch(1)
        .deadline(Duration::from_secs(900))
        .share(0.7),
    );
    // cheap sections first, so that an overloaded machine cuts the big sweeps (simplest-first inside) rather than whole sections
    let order = ["tinyprime", "uprng", "levels", "manyprimes", "sizes", "ckks", "tiny_all", "params"];
    v.sort_by_key(|s| order.iter().position(|o| *o == s.name()).unwrap_or(order.len()));
    v.push(E1::new(
        "scaling_words",
        "scaling_variant::{multiply_add_plain, multiply_sub_plain, add_plain, sub_plain} called directly at every level of 5 (thorough 8) BFV parameter sets (40-bit / 60-bit / above-q0 / tiny t): message values {0,1,2,3,t/2-1..t/2+1,t-2,t-1,t/3,2t/3+1} + the values at which (q mod t)*m crosses a multiple of 2^64 (-1,0,+1), x destination word in {q_j-s, q_j-s+-1, 0, 1, q_j-1, s, q_j/2, (q_j-1)/2+1} (s = exactly scaled message mod q_j): every result word = canonical residue of d +- s",
        scaling_words_cases(thorough).into_iter(),
        move |c: &SwCase| check_scaling_words(c, seed),
    ));

    v
}
