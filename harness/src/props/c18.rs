//! C18 — multiparty protocols agree across parties and message orders, keep plaintexts (engine E5).
//!
//! E5 = explicit-state breadth-first exploration over message DELIVERY ORDERS on the real protocol
//! objects of `src/multiparty/participant.rs`.
//!
//! * A *configuration* (`Cfg`) fixes protocol, scheme, explicit parameter set, number of parties,
//!   plaintext, input level, share mode and error script.
//! * A *state* of a configuration is (round, set of delivered (sender,receiver) messages of that
//!   round) — a bitmask over the protocol's message pairs; a *transition* delivers one pending
//!   message by calling the real `receive`.
//! * The live protocol objects borrow their `Participant` and `finish()` consumes them, so a state
//!   is materialised by REPLAYING a delivery history on fresh participants. This is deterministic:
//!   every entropy-consuming call of a party (Participant::new, protocol creation, step2) is
//!   preceded by `he::env(seed, h(cfg, phase, round, party))` (hook H1) and all parties share one
//!   common random tape seed.
//! * A configuration may carry a `chain` of protocols that are run to completion on the same
//!   `Participant` objects before its own protocol (sections `chained_n*`); the history then lists the
//!   rounds of the whole sequence and the state/observation/oracle machinery applies unchanged to the
//!   last protocol. This is what checks that the common random tape stays in step across protocols.
//! * The observation of a materialised state is, for every party, what `finish()` does (last
//!   round) or what `step2()` + `send_step2()` do (first round of the relinearisation protocol):
//!   refusal (panic) or the fingerprint of the produced bytes.
//!
//! Production-size sections (`size_sections`): the tiny-instance sections above never leave N = 8, <= 4 primes, <= 6 parties.
//! `primes_*` (1..18 RNS primes at the level / decomposition components, N = 4, 8), `parties_*` (8..65 parties along a stated
//! family of delivery orders, `Mode::Family`) and `bigN_*` (N = 16..8192, structured plaintexts, long chains at N >= 1024)
//! drive every dimension the protocol code loops over across the 8 / 16 / 64 / 1024 / 4096 boundaries with the same replay
//! machinery and the same oracles; their violation keys carry the prefix `primes:` / `parties:` / `bigN:`.
use crate::engine::*;
use crate::he::*;
use heathcliff::multiparty::participant::*;
use heathcliff::multiparty::utils::{BFVShareSampler, BFVSimdShareEncoder};
use heathcliff::util::{BlakeRNG, PRNGSeed};
use heathcliff::*;
use num_complex::Complex;
use rand::{RngCore, SeedableRng};
use serde::{Deserialize, Serialize};
use serde_json::{json, Value};
use std::collections::{BTreeMap, BTreeSet, HashSet};
use std::sync::atomic::{AtomicUsize, Ordering};
use std::sync::{Arc, Mutex};
use std::time::Instant;

type C64 = Complex<f64>;

pub fn describe(rep: &Report) {
    rep.set_rule(
        "E5 explicit-state BFS over delivery orders on the real protocol objects. Configuration = protocol x scheme x explicit primes x party \
         count x plaintext x input level x share mode x error script. State = (round, bitmask of delivered (sender,receiver) messages); \
         transition = one real receive(). Every state is materialised by replaying its canonical (ascending) history on fresh, H1-seeded \
         participants and every party is probed: incomplete inbox => finish()/step2() must refuse, complete inbox => must return exactly the \
         bytes of the reference (canonical full order) run. Every lattice edge (state, pending message) is executed by two dedicated histories: \
         canon(state)+[m] probed at once (same delivered set reached through a different history must give the same observations) and \
         canon(state)+[m]+canon(rest)+later rounds, whose final outputs must be byte-identical to the reference at every party. The reference \
         final outputs are judged semantically with ordinary Encryptor/Decryptor/Evaluator objects under the harness-summed secret key \
         (component-wise sum of the NTT-form key residues modulo each prime). states = distinct (configuration, round, delivered-set) visited; \
         transitions = lattice edges (deliveries from a distinct state) executed; traces_validated_against_impl = histories replayed and \
         compared party by party. non-trivial = every history except the canonical complete one (non-canonical order or an incomplete inbox).",
    );
    rep.assume("production-size sections (keys prefixed primes: / parties: / bigN:): same machinery, same oracles. primes_n2/n3 + primes_chained_n2 drive the number of RNS primes (2..19 in total, i.e. 1..18 at the first level and 1..18 decomposition components of the relinearisation rounds) at N = 4, 8; parties_family / parties_boundary drive the party count (8, 9, 16, 17, 33, 65) along an explicitly stated family of delivery orders (identity, reverse, rotations, adjacent transpositions — never 'all orders'; delivered sets are kept as unbounded bit vectors there, the 64-bit masks are used by the lattices only); bigN_n2/n3 + bigN_primes_n2 drive the degree (16..1024, thorough ..8192) with structured plaintexts (ramp, all-maximal, unit slots at the 2^j-1, 2^j, 2^j+1 positions) and long chains (9..18 primes) at N >= 1024. The context of such a configuration is built once per explicit parameter set and shared between fixtures (immutable, a function of the parameters only)");
    rep.assume("CKKS scale: 2^min(30, ..) below N = 128 as before, 2^min(48, ..) from N = 128 on (primes >= 54 bits there), because the a-priori worst-case tolerance grows with N^2 for the relinearised product; the largest |error|/tolerance ratio is reported per section");
    rep.assume("chained sections: every ordered pair (thorough: and triple) of protocols is run to completion on the SAME Participant objects, so the common random tape and all private state are carried from one protocol into the next; only the last protocol's outputs are judged (same oracles), its expectation is the canonical-order run of the same chain; each step's input is a fresh encryption (no data flow between steps), update_secret_key is never called, hence the summed key is constant along a chain");
    rep.assume("rounds are synchronous barriers: step2() is called by all parties after every round-1 message has been delivered (the API carries no round tag; delivering a round-2 message to a party still in round 1 is caller misuse and not explored)");
    rep.assume("each message is delivered at most once and unmodified (duplication, loss and corruption are not part of this property)");
    rep.assume("cipher_to_shares: only party 0 receives and only parties != 0 send (asserted by the code); non-aggregating parties have no inbox, their finish() is not subject to the refusal rule");
    rep.assume("shares_to_cipher: by design only the aggregating party 0 obtains the encryption of the sum; the other parties' outputs are recorded as observations and not judged");
    rep.assume("shares_to_cipher/CKKS: the fresh ciphertext carries scale 1.0 and add_plain demands equal scales, so the harness's share encoder labels its scale-2^k plaintexts with scale 1.0 and relabels the result (the only way to reach the is_ckks branch)");
    rep.assume("CKKS outputs are compared within an a-priori worst-case bound 2*N*(coefficient noise bound + n_encodings/2)/scale; BFV/BGV outputs exactly; parameter sets keep >= 5 bits of head-room under the same worst-case calculus (special prime is the largest prime)");
    rep.assume("input ciphertexts are produced by an ordinary KeyGenerator::from_sk(sum of secret keys) public key, so a defect of the public-key protocol cannot mask or fake a defect of the other protocols");
}

// ---------------------------------------------------------------------------------------------
// configuration
// ---------------------------------------------------------------------------------------------

#[derive(Serialize, Deserialize, Clone, Copy, Debug, PartialEq, Eq, Hash, PartialOrd, Ord)]
pub enum Proto {
    PublicKey,
    RelinKeys,
    RevealSk,
    Decrypt,
    KeySwitch,
    PubKeySwitch,
    CipherToShares,
    SharesToCipher,
}

impl Proto {
    pub fn all() -> [Proto; 8] {
        [Proto::PublicKey, Proto::RelinKeys, Proto::RevealSk, Proto::Decrypt, Proto::KeySwitch, Proto::PubKeySwitch, Proto::CipherToShares, Proto::SharesToCipher]
    }
    fn rounds(self) -> usize {
        if self == Proto::RelinKeys {
            2
        } else {
            1
        }
    }
    fn has_cipher_input(self) -> bool {
        matches!(self, Proto::Decrypt | Proto::KeySwitch | Proto::PubKeySwitch | Proto::CipherToShares)
    }
    fn uses_message(self) -> bool {
        self.has_cipher_input() || self == Proto::SharesToCipher
    }
    /// (sender, receiver) pairs of one round, in canonical order
    fn edges(self, n: usize) -> Vec<(usize, usize)> {
        let mut v = vec![];
        for s in 0..n {
            for r in 0..n {
                if s == r {
                    continue;
                }
                if self == Proto::CipherToShares && (r != 0 || s == 0) {
                    continue;
                }
                v.push((s, r));
            }
        }
        v
    }
    fn name(self) -> &'static str {
        match self {
            Proto::PublicKey => "public_key",
            Proto::RelinKeys => "relin_keys",
            Proto::RevealSk => "reveal_sk",
            Proto::Decrypt => "decrypt",
            Proto::KeySwitch => "key_switch",
            Proto::PubKeySwitch => "public_key_switch",
            Proto::CipherToShares => "cipher_to_shares",
            Proto::SharesToCipher => "shares_to_cipher",
        }
    }
}

#[derive(Serialize, Deserialize, Clone, Copy, Debug, PartialEq, Eq, Hash)]
pub enum ShareMode {
    /// the library's BFVShareSampler (BFV/BGV) / a grid sampler driven by the protocol's own generator (CKKS)
    Sampler,
    /// every non-aggregating party's share is the all-zero vector
    FixedZero,
    /// every non-aggregating party's share is all t-1 (a value the library's sampler never produces)
    FixedMax,
}

#[derive(Serialize, Deserialize, Clone, Debug, PartialEq, Eq, Hash)]
pub struct Cfg {
    pub proto: Proto,
    pub spec: ParamSpec,
    pub parties: usize,
    /// BFV/BGV: slot values (mod t), padded with zeros to N slots. CKKS: 2 entries per slot, value = (re + i*im)/4.
    pub msg: Vec<i64>,
    /// number of mod_switch_to_next applied to the input ciphertext
    pub level: usize,
    pub shares: ShareMode,
    /// script of the error samples (hook H2)
    pub err: Noise,
    /// script of the ternary samples (secret keys, u); AllMax makes every party's key the all-ones polynomial
    #[serde(default = "noise_real")]
    pub tern: Noise,
    /// protocols run to completion, in this order, on the SAME Participant objects before `proto` (chained sections)
    #[serde(default, skip_serializing_if = "Vec::is_empty")]
    pub chain: Vec<Proto>,
}

fn noise_real() -> Noise {
    Noise::Real
}

impl Cfg {
    fn tag(&self) -> u64 {
        h64(&serde_json::to_string(self).unwrap_or_default())
    }
    fn shape(&self) -> String {
        let base = if self.chain.is_empty() {
            format!("{}:{:?}", self.proto.name(), self.spec.scheme)
        } else {
            format!("{}:{:?}:after[{}]", self.proto.name(), self.spec.scheme, self.chain.iter().map(|p| p.name()).collect::<Vec<_>>().join(">"))
        };
        format!("{}{}", self.size_class(), base)
    }
    /// key prefix of the production-size sections (derived from the configuration itself, so that a replayed case gives
    /// the same key); empty for everything the tiny-instance sections enumerate (N <= 8, <= 4 primes, <= 6 parties)
    fn size_class(&self) -> &'static str {
        if self.parties > 6 {
            "parties:"
        } else if self.spec.n >= 16 {
            "bigN:"
        } else if self.spec.q.len() > 4 {
            "primes:"
        } else {
            ""
        }
    }
    /// the whole sequence of protocols run on the same participants
    fn seq(&self) -> Vec<Proto> {
        let mut v = self.chain.clone();
        v.push(self.proto);
        v
    }
    fn is_ckks(&self) -> bool {
        self.spec.scheme == Scheme::CKKS
    }
    /// the one combination whose creation is refused by the library as documented in its own checks
    fn expected_refusal(&self) -> bool {
        self.spec.scheme == Scheme::BGV && self.seq().contains(&Proto::SharesToCipher)
    }
}

// ---------------------------------------------------------------------------------------------
// share samplers / encoders supplied by the harness (the traits are the library's extension point)
// ---------------------------------------------------------------------------------------------

struct FixedSampler {
    v: Vec<u64>,
}
impl ShareSampler for FixedSampler {
    type Share = Vec<u64>;
    fn sample(&self, _prng: &mut BlakeRNG) -> Vec<u64> {
        self.v.clone()
    }
}

/// complex shares on the grid {-4, -3.75, .., 4}^2, driven by the generator the protocol hands in
struct CkSampler {
    slots: usize,
}
impl ShareSampler for CkSampler {
    type Share = Vec<C64>;
    fn sample(&self, prng: &mut BlakeRNG) -> Vec<C64> {
        (0..self.slots)
            .map(|_| {
                let a = (prng.next_u32() % 33) as f64 - 16.0;
                let b = (prng.next_u32() % 33) as f64 - 16.0;
                C64::new(a / 4.0, b / 4.0)
            })
            .collect()
    }
}

struct CkEnc {
    enc: CKKSEncoder,
    parms_id: ParmsID,
    scale: f64,
    /// scale written on the produced plaintext instead of the real one (shares_to_cipher)
    label: Option<f64>,
    slots: usize,
}
impl ShareEncoder for CkEnc {
    type Share = Vec<C64>;
    fn encode(&self, share: &Vec<C64>) -> Plaintext {
        let mut p = self.enc.encode_c64_array_new(share, Some(self.parms_id), self.scale);
        if let Some(l) = self.label {
            p.set_scale(l);
        }
        p
    }
    fn decode(&self, plaintext: &Plaintext) -> Vec<C64> {
        let mut p = plaintext.clone();
        p.set_scale(self.scale);
        let mut v = self.enc.decode_new(&p);
        v.truncate(self.slots);
        v
    }
}

// ---------------------------------------------------------------------------------------------
// fixture: everything of a configuration that does not depend on the delivery history
// ---------------------------------------------------------------------------------------------

struct Fixture {
    seed: u64,
    tag: u64,
    ctx: Arc<HeContext>,
    n: usize,
    nslots: usize,
    t: u64,
    /// message pairs of the LAST protocol of the sequence (the only one for unchained configurations)
    edges: Vec<(usize, usize)>,
    /// the sequence of protocols, their message pairs, and the global round table (protocol index, local round)
    seq: Vec<Proto>,
    seq_edges: Vec<Vec<(usize, usize)>>,
    rtab: Vec<(usize, usize)>,
    key_moduli: Vec<u64>,
    err: Noise,
    tern: Noise,
    /// secret keys of the parties as first created (every replay must reproduce them)
    sk_parts: Vec<Vec<u64>>,
    sk_sum: SecretKey,
    pk_sum: PublicKey,
    benc: Option<BatchEncoder>,
    bshare: Option<BFVSimdShareEncoder>,
    cenc: Option<CKKSEncoder>,
    scale: f64,
    msg_u: Vec<u64>,
    msg_c: Vec<C64>,
    cipher: Option<Ciphertext>,
    cipher_parms: ParmsID,
    new_sks: Vec<SecretKey>,
    new_sk_sum: Option<SecretKey>,
    target: Option<(PublicKey, SecretKey)>,
    shares_u: Vec<Vec<u64>>,
    shares_c: Vec<Vec<C64>>,
    /// largest |error|/tolerance seen in a CKKS comparison that passed (exposes a vacuous tolerance)
    ckks_ratio: std::cell::Cell<f64>,
    /// smallest invariant noise budget (bits) of a judged BFV/BGV output ciphertext
    min_budget: std::cell::Cell<i64>,
}

fn sum_keys(parts: &[Vec<u64>], moduli: &[u64], n: usize) -> Vec<u64> {
    let mut out = vec![0u64; moduli.len() * n];
    for p in parts {
        for (j, &q) in moduli.iter().enumerate() {
            for i in 0..n {
                let k = j * n + i;
                out[k] = ((out[k] as u128 + p[k] as u128) % q as u128) as u64;
            }
        }
    }
    out
}

/// The context of a production-size configuration is built once per parameter set and shared by all fixtures (long chains
/// cost O(k^3) to expand, and lattice layers rebuild the fixture per worker); a context is immutable and a function of the
/// explicit parameters only, so a replayed case builds the same one. Tiny-instance sections build theirs per fixture as before.
fn shared_context(cfg: &Cfg) -> Arc<HeContext> {
    static CACHE: Mutex<BTreeMap<String, Arc<HeContext>>> = Mutex::new(BTreeMap::new());
    if cfg.size_class().is_empty() {
        return cfg.spec.context();
    }
    let key = serde_json::to_string(&cfg.spec).unwrap_or_default();
    if let Some(c) = CACHE.lock().unwrap().get(&key) {
        return c.clone();
    }
    let ctx = cfg.spec.context();
    CACHE.lock().unwrap().entry(key).or_insert(ctx).clone()
}

impl Fixture {
    fn reseed(&self, phase: &str, round: usize, party: usize) {
        env(self.seed, h64(&(self.tag, phase, round, party)), self.tern.mode(), self.err.mode());
    }
    fn edges_at(&self, gr: usize) -> &[(usize, usize)] {
        &self.seq_edges[self.rtab[gr].0]
    }
    fn total_rounds(&self) -> usize {
        self.rtab.len()
    }
    /// is global round `gr` the last round of its protocol (probe = finish) or not (probe = step2 + send)
    fn final_local(&self, gr: usize) -> bool {
        let (k, lr) = self.rtab[gr];
        lr + 1 == self.seq[k].rounds()
    }
    fn common_seed(&self) -> PRNGSeed {
        let mut s = [0u8; 64];
        for k in 0..8 {
            s[k * 8..k * 8 + 8].copy_from_slice(&h64(&(self.seed, self.tag, "common-tape", k)).to_le_bytes());
        }
        PRNGSeed(s)
    }
    fn new_party(&self, p: usize) -> Participant {
        self.reseed("party", 0, p);
        Participant::new(self.n, p, self.ctx.clone(), BlakeRNG::from_seed(self.common_seed()))
    }
    fn ck_enc(&self, label: Option<f64>) -> CkEnc {
        CkEnc { enc: CKKSEncoder::new(self.ctx.clone()), parms_id: self.cipher_parms, scale: self.scale, label, slots: self.nslots }
    }
    fn plain_of(&self, cfg: &Cfg, mu: &[u64], mc: &[C64]) -> Plaintext {
        if cfg.is_ckks() {
            self.cenc.as_ref().unwrap().encode_c64_array_new(mc, None, self.scale)
        } else {
            self.benc.as_ref().unwrap().encode_new(mu)
        }
    }

    fn build(cfg: &Cfg, seed: u64) -> Result<Fixture, String> {
        let ctx = shared_context(cfg);
        if !ctx.parameters_set() {
            return Err("parameters not set".into());
        }
        let n = cfg.parties;
        let deg = cfg.spec.n;
        let ckks = cfg.is_ckks();
        let nslots = if ckks { deg / 2 } else { deg };
        let first = ctx.first_context_data().unwrap();
        // level of the input
        let mut cd = first.clone();
        for _ in 0..cfg.level {
            cd = cd.next_context_data().ok_or_else(|| "level beyond the chain".to_string())?;
        }
        let cipher_parms = *cd.parms_id();
        let low_bits: u32 = cd.parms().coeff_modulus().iter().map(|m| 64 - m.value().leading_zeros()).sum();
        let first_bits: u32 = first.parms().coeff_modulus().iter().map(|m| 64 - m.value().leading_zeros()).sum();
        // CKKS scale: products (relinearisation check) must fit the first level, plain values the lowest level used
        // the a-priori worst-case calculus grows with N^2 (product) resp. N (fresh noise): from N = 128 on a larger scale keeps the
        // tolerance far below the plaintext values (the parameter sets of the bigN sections have >= 54-bit primes)
        let cap: i64 = if deg >= 128 { 48 } else { 30 };
        let scale_bits = if cfg.seq().contains(&Proto::RelinKeys) { ((first_bits as i64 - 7) / 2).min(cap) } else { (low_bits as i64 - 8).min(cap) };
        let scale = (2.0f64).powi(scale_bits as i32);
        let t = cfg.spec.t;
        let mut msg_u = vec![0u64; nslots];
        let mut msg_c = vec![C64::new(0.0, 0.0); nslots];
        if ckks {
            for k in 0..nslots {
                let re = cfg.msg.get(2 * k).copied().unwrap_or(0) as f64 / 4.0;
                let im = cfg.msg.get(2 * k + 1).copied().unwrap_or(0) as f64 / 4.0;
                msg_c[k] = C64::new(re, im);
            }
        } else {
            for k in 0..nslots {
                msg_u[k] = cfg.msg.get(k).copied().unwrap_or(0).rem_euclid(t as i64) as u64;
            }
        }
        let key_moduli: Vec<u64> = ctx.key_context_data().unwrap().parms().coeff_modulus().iter().map(|m| m.value()).collect();
        let mut fx = Fixture {
            seed,
            tag: cfg.tag(),
            ctx: ctx.clone(),
            n,
            nslots,
            t,
            edges: cfg.proto.edges(n),
            seq: cfg.seq(),
            seq_edges: cfg.seq().iter().map(|p| p.edges(n)).collect(),
            rtab: cfg.seq().iter().enumerate().flat_map(|(k, p)| (0..p.rounds()).map(move |lr| (k, lr))).collect(),
            key_moduli,
            err: cfg.err,
            tern: cfg.tern,
            sk_parts: vec![],
            sk_sum: SecretKey::default(),
            pk_sum: PublicKey::default(),
            benc: if ckks { None } else { Some(BatchEncoder::new(ctx.clone())) },
            bshare: if ckks { None } else { Some(BFVSimdShareEncoder::new(ctx.clone())) },
            cenc: if ckks { Some(CKKSEncoder::new(ctx.clone())) } else { None },
            scale,
            msg_u,
            msg_c,
            cipher: None,
            cipher_parms,
            new_sks: vec![],
            new_sk_sum: None,
            target: None,
            shares_u: vec![],
            shares_c: vec![],
            ckks_ratio: std::cell::Cell::new(0.0),
            min_budget: std::cell::Cell::new(i64::MAX),
        };
        // the parties' secret keys and their sum
        let mut proto_sk = None;
        for p in 0..n {
            let party = fx.new_party(p);
            fx.sk_parts.push(party.secret_key().data().clone());
            if proto_sk.is_none() {
                proto_sk = Some(party.secret_key().clone());
            }
        }
        let mut sk_sum = proto_sk.unwrap();
        let summed = sum_keys(&fx.sk_parts, &fx.key_moduli, deg);
        sk_sum.data_mut().copy_from_slice(&summed);
        fx.sk_sum = sk_sum.clone();
        fx.reseed("fx-pk", 0, 0);
        fx.pk_sum = KeyGenerator::from_sk(ctx.clone(), sk_sum.clone()).create_public_key(false);
        let seq = cfg.seq();
        if seq.iter().any(|p| p.has_cipher_input()) {
            fx.reseed("fx-ct", 0, 0);
            let enc = Encryptor::new(ctx.clone()).set_public_key(fx.pk_sum.clone());
            let mut ct = enc.encrypt_new(&fx.plain_of(cfg, &fx.msg_u, &fx.msg_c));
            let ev = Evaluator::new(ctx.clone());
            for _ in 0..cfg.level {
                ev.mod_switch_to_next_inplace(&mut ct);
            }
            fx.cipher = Some(ct);
        }
        if seq.contains(&Proto::KeySwitch) {
            let mut parts = vec![];
            for p in 0..n {
                fx.reseed("fx-newsk", 0, p);
                let sk = KeyGenerator::new(ctx.clone()).secret_key().clone();
                parts.push(sk.data().clone());
                fx.new_sks.push(sk);
            }
            let mut s = fx.new_sks[0].clone();
            s.data_mut().copy_from_slice(&sum_keys(&parts, &fx.key_moduli, deg));
            fx.new_sk_sum = Some(s);
        }
        if seq.contains(&Proto::PubKeySwitch) {
            fx.reseed("fx-target", 0, 0);
            let kg = KeyGenerator::new(ctx.clone());
            fx.target = Some((kg.create_public_key(false), kg.secret_key().clone()));
        }
        if seq.contains(&Proto::SharesToCipher) {
            for p in 0..n {
                if ckks {
                    fx.shares_c.push((0..nslots).map(|k| fx.msg_c[(k + p) % nslots] * C64::new(1.0, 0.0) + C64::new(p as f64 / 4.0, -(p as f64) / 2.0)).collect());
                } else {
                    fx.shares_u.push((0..nslots).map(|k| (fx.msg_u[(k + p) % nslots] + p as u64) % t).collect());
                }
            }
        }
        Ok(fx)
    }
}

// ---------------------------------------------------------------------------------------------
// live protocol objects
// ---------------------------------------------------------------------------------------------

enum Obj<'a> {
    Pk(PublicKeyGenerationProtocol<'a>),
    Rlk(RelinKeysGenerationProtocol<'a>, usize),
    Sk(SecretKeyRevelationProtocol<'a>),
    Dec(DecryptionProtocol<'a>),
    Ks(KeySwitchProtocol<'a>),
    Pks(PublicKeySwitchProtocol<'a>),
    C2sU(CipherToSharesProtocol<'a, Vec<u64>>),
    C2sC(CipherToSharesProtocol<'a, Vec<C64>>),
}

#[derive(Clone)]
enum Out {
    Pk(PublicKey),
    Rlk(RelinKeys),
    Sk(SecretKey),
    Pt(Plaintext),
    Ct(Ciphertext),
    ShU(Vec<u64>),
    ShC(Vec<C64>),
}

fn fp_kswitch(k: &KSwitchKeys) -> u64 {
    let mut h = h64(&(k.parms_id(), k.data().len()));
    for (i, v) in k.data().iter().enumerate() {
        for pk in v {
            h = h64(&(h, i, ct_fingerprint(pk.as_ciphertext())));
        }
    }
    h
}

impl Out {
    fn fp(&self) -> u64 {
        match self {
            Out::Pk(p) => h64(&(1u8, ct_fingerprint(p.as_ciphertext()))),
            Out::Rlk(r) => h64(&(2u8, fp_kswitch(r.as_kswitch_keys()))),
            Out::Sk(s) => h64(&(3u8, s.data().as_slice(), s.parms_id())),
            Out::Pt(p) => h64(&(4u8, pt_fingerprint(p))),
            Out::Ct(c) => h64(&(5u8, ct_fingerprint(c))),
            Out::ShU(v) => h64(&(6u8, v.as_slice())),
            Out::ShC(v) => h64(&(7u8, v.iter().map(|z| (z.re.to_bits(), z.im.to_bits())).collect::<Vec<_>>())),
        }
    }
}

fn create<'a>(cfg: &Cfg, proto: Proto, fx: &Fixture, p: usize, party: &'a mut Participant) -> Obj<'a> {
    match proto {
        Proto::PublicKey => Obj::Pk(party.generate_public_key()),
        Proto::RelinKeys => Obj::Rlk(party.generate_relin_keys(), 0),
        Proto::RevealSk => Obj::Sk(party.reveal_secret_key()),
        Proto::Decrypt => Obj::Dec(party.decrypt(fx.cipher.as_ref().unwrap())),
        Proto::KeySwitch => Obj::Ks(party.key_switch(fx.cipher.as_ref().unwrap(), &fx.new_sks[p])),
        Proto::PubKeySwitch => Obj::Pks(party.public_key_switch(fx.cipher.as_ref().unwrap(), &fx.target.as_ref().unwrap().0)),
        Proto::CipherToShares => {
            let ct = fx.cipher.as_ref().unwrap().clone();
            if cfg.is_ckks() {
                Obj::C2sC(party.cipher_to_shares(ct, &CkSampler { slots: fx.nslots }, &fx.ck_enc(None)))
            } else {
                let enc = fx.bshare.as_ref().unwrap();
                match cfg.shares {
                    ShareMode::Sampler => Obj::C2sU(party.cipher_to_shares(ct, &BFVShareSampler::new(fx.ctx.clone()), enc)),
                    ShareMode::FixedZero => Obj::C2sU(party.cipher_to_shares(ct, &FixedSampler { v: vec![0; fx.nslots] }, enc)),
                    ShareMode::FixedMax => Obj::C2sU(party.cipher_to_shares(ct, &FixedSampler { v: vec![fx.t - 1; fx.nslots] }, enc)),
                }
            }
        }
        Proto::SharesToCipher => {
            if cfg.is_ckks() {
                Obj::Ks(party.shares_to_cipher(&fx.shares_c[p], &fx.ck_enc(Some(1.0))))
            } else {
                Obj::Ks(party.shares_to_cipher(&fx.shares_u[p], fx.bshare.as_ref().unwrap()))
            }
        }
    }
}

impl<'a> Obj<'a> {
    fn send(&self, v: &mut Vec<u8>) -> std::io::Result<()> {
        match self {
            Obj::Pk(p) => p.send(v),
            Obj::Rlk(p, 0) => p.send_step1(v),
            Obj::Rlk(p, _) => p.send_step2(v),
            Obj::Sk(p) => p.send(v),
            Obj::Dec(p) => p.send(v),
            Obj::Ks(p) => p.send(v),
            Obj::Pks(p) => p.send(v),
            Obj::C2sU(p) => p.send(v),
            Obj::C2sC(p) => p.send(v),
        }
    }
    /// returns the number of bytes of the message left unread
    fn receive(&mut self, s: usize, bytes: &[u8]) -> std::io::Result<usize> {
        let mut b = bytes;
        match self {
            Obj::Pk(p) => p.receive(s, &mut b),
            Obj::Rlk(p, 0) => p.receive_step1(s, &mut b),
            Obj::Rlk(p, _) => p.receive_step2(s, &mut b),
            Obj::Sk(p) => p.receive(s, &mut b),
            Obj::Dec(p) => p.receive(s, &mut b),
            Obj::Ks(p) => p.receive(s, &mut b),
            Obj::Pks(p) => p.receive(s, &mut b),
            Obj::C2sU(p) => p.receive(s, &mut b),
            Obj::C2sC(p) => p.receive(s, &mut b),
        }?;
        Ok(b.len())
    }
    fn advance(&mut self) {
        if let Obj::Rlk(p, r) = self {
            p.step2();
            *r += 1;
        }
    }
    fn finish(self, fx: &Fixture) -> Out {
        match self {
            Obj::Pk(p) => Out::Pk(p.finish()),
            Obj::Rlk(p, _) => Out::Rlk(p.finish()),
            Obj::Sk(p) => Out::Sk(p.finish()),
            Obj::Dec(p) => Out::Pt(p.finish()),
            Obj::Ks(p) => Out::Ct(p.finish()),
            Obj::Pks(p) => Out::Ct(p.finish()),
            Obj::C2sU(p) => Out::ShU(p.finish(fx.bshare.as_ref().unwrap())),
            Obj::C2sC(p) => Out::ShC(p.finish(&fx.ck_enc(None))),
        }
    }
}

// ---------------------------------------------------------------------------------------------
// replaying one history
// ---------------------------------------------------------------------------------------------

struct RunOut {
    /// per party: fingerprint of what the probe returned, or the panic message
    obs: Vec<Result<u64, String>>,
    outs: Vec<Option<Out>>,
    receives: u64,
    leftover: usize,
}

enum RunErr {
    /// protocol creation refused with an [Invalid argument] panic
    Refused(String),
    Fail(Fail),
}

fn mkfail(cfg: &Cfg, what: &str, expected: impl Into<String>, observed: impl Into<String>) -> Fail {
    Fail { key: format!("{}:{}", cfg.shape(), what), expected: expected.into(), observed: observed.into() }
}

/// `hist[r]` = edge indices delivered in round r, in order; all rounds but the last listed one must be complete.
/// After the history every party is probed (finish in the last protocol round, step2+send otherwise).
fn run(cfg: &Cfg, fx: &Fixture, hist: &[Vec<usize>]) -> Result<RunOut, RunErr> {
    let n = cfg.parties;
    let mut parties: Vec<Participant> = Vec::with_capacity(n);
    for p in 0..n {
        match guard(|| fx.new_party(p)) {
            Ok(pt) => parties.push(pt),
            Err(e) => return Err(RunErr::Fail(mkfail(cfg, &format!("participant-new:panic:{}", panic_class(&e)), "Participant::new succeeds", e))),
        }
        if parties[p].secret_key().data() != &fx.sk_parts[p] {
            return Err(RunErr::Fail(mkfail(cfg, "harness:replay-not-deterministic", "a replayed participant has the secret key of the first creation", format!("party {p} differs"))));
        }
    }
    let mut receives = 0u64;
    let mut leftover = 0usize;
    let mut gr = 0usize;
    for (k, &proto) in fx.seq.iter().enumerate() {
        let mut objs: Vec<Option<Obj>> = Vec::with_capacity(n);
        for (p, party) in parties.iter_mut().enumerate() {
            fx.reseed("proto", k, p);
            match guard(|| create(cfg, proto, fx, p, party)) {
                Ok(o) => objs.push(Some(o)),
                Err(e) => {
                    if e.contains("[Invalid argument]") {
                        return Err(RunErr::Refused(e));
                    }
                    return Err(RunErr::Fail(mkfail(cfg, &format!("create:{}:panic:{}", proto.name(), panic_class(&e)), format!("party {p} can start {}", proto.name()), e)));
                }
            }
        }
        let edges = &fx.seq_edges[k];
        let senders: BTreeSet<usize> = edges.iter().map(|e| e.0).collect();
        for lr in 0..proto.rounds() {
            let r = gr;
            let mut msgs: Vec<Option<Vec<u8>>> = vec![None; n];
            for &s in &senders {
                let mut v = vec![];
                match guard(|| objs[s].as_ref().unwrap().send(&mut v)) {
                    Ok(Ok(())) => {}
                    Ok(Err(e)) => return Err(RunErr::Fail(mkfail(cfg, "send:io-error", format!("party {s} can serialise its round-{r} message"), e.to_string()))),
                    Err(e) => return Err(RunErr::Fail(mkfail(cfg, &format!("send:panic:{}", panic_class(&e)), format!("party {s} can serialise its round-{r} message"), e))),
                }
                msgs[s] = Some(v);
            }
            for &e in &hist[r] {
                let (s, rcv) = edges[e];
                let bytes = msgs[s].as_ref().unwrap();
                match guard(|| objs[rcv].as_mut().unwrap().receive(s, bytes)) {
                    Ok(Ok(left)) => leftover = leftover.max(left),
                    Ok(Err(er)) => return Err(RunErr::Fail(mkfail(cfg, "receive:io-error", format!("party {rcv} accepts the round-{r} message of party {s}"), er.to_string()))),
                    Err(er) => return Err(RunErr::Fail(mkfail(cfg, &format!("receive:panic:{}", panic_class(&er)), format!("party {rcv} accepts the round-{r} message of party {s}"), er))),
                }
                receives += 1;
            }
            let final_local = lr + 1 == proto.rounds();
            if r + 1 == hist.len() {
                // probe: the history ends here
                let mut obs = vec![];
                let mut outs = vec![];
                for p in 0..n {
                    let o = objs[p].take().unwrap();
                    if final_local {
                        match guard(|| o.finish(fx)) {
                            Ok(out) => {
                                obs.push(Ok(out.fp()));
                                outs.push(Some(out));
                            }
                            Err(e) => {
                                obs.push(Err(e));
                                outs.push(None);
                            }
                        }
                    } else {
                        fx.reseed("advance", r, p);
                        let mut o = o;
                        let res = guard(|| {
                            o.advance();
                            let mut v = vec![];
                            o.send(&mut v).map(|_| v)
                        });
                        match res {
                            Ok(Ok(v)) => obs.push(Ok(h64(&v))),
                            Ok(Err(e)) => obs.push(Err(format!("io error: {e}"))),
                            Err(e) => obs.push(Err(e)),
                        }
                        outs.push(None);
                    }
                }
                return Ok(RunOut { obs, outs, receives, leftover });
            }
            // a later round follows: this round must be complete
            for p in 0..n {
                if final_local {
                    // a protocol of the chain prefix runs to completion; its output is dropped
                    let o = objs[p].take().unwrap();
                    if let Err(e) = guard(|| o.finish(fx)) {
                        return Err(RunErr::Fail(mkfail(cfg, &format!("finish:{}:complete-inbox-refused:{}", proto.name(), panic_class(&e)), format!("party {p} with a complete inbox finishes {}", proto.name()), e)));
                    }
                } else {
                    fx.reseed("advance", r, p);
                    if let Err(e) = guard(|| objs[p].as_mut().unwrap().advance()) {
                        return Err(RunErr::Fail(mkfail(cfg, &format!("step2:complete-inbox-refused:{}", panic_class(&e)), format!("party {p} with a complete round-{r} inbox can start round {}", r + 1), e)));
                    }
                }
            }
            gr += 1;
        }
    }
    Err(RunErr::Fail(mkfail(cfg, "harness:history-longer-than-the-protocol-sequence", "a history within the rounds of the sequence", format!("{} rounds listed", hist.len()))))
}

// ---------------------------------------------------------------------------------------------
// histories
// ---------------------------------------------------------------------------------------------

fn bits(mask: u64) -> Vec<usize> {
    (0..64).filter(|i| mask >> i & 1 == 1).collect()
}

fn mask_of(v: &[usize]) -> u64 {
    v.iter().fold(0u64, |m, &e| m | 1u64 << e)
}

fn hist_json(fx: &Fixture, hist: &[Vec<usize>]) -> Value {
    json!(hist.iter().enumerate().map(|(gr, r)| r.iter().map(|&e| vec![fx.edges_at(gr)[e].0, fx.edges_at(gr)[e].1]).collect::<Vec<_>>()).collect::<Vec<_>>())
}

/// history as text for expected/observed: complete when short, otherwise per round the number of deliveries with the first and last four
/// (the replay file always carries the complete history)
fn hist_text(fx: &Fixture, hist: &[Vec<usize>]) -> String {
    if hist.iter().map(|r| r.len()).sum::<usize>() <= 96 {
        return hist_json(fx, hist).to_string();
    }
    let rounds: Vec<String> = hist
        .iter()
        .enumerate()
        .map(|(gr, r)| {
            let pr = |e: &usize| format!("[{},{}]", fx.edges_at(gr)[*e].0, fx.edges_at(gr)[*e].1);
            if r.len() <= 8 {
                format!("[{}]", r.iter().map(pr).collect::<Vec<_>>().join(","))
            } else {
                format!("[{} deliveries: {},..,{}]", r.len(), r[..4].iter().map(pr).collect::<Vec<_>>().join(","), r[r.len() - 4..].iter().map(pr).collect::<Vec<_>>().join(","))
            }
        })
        .collect();
    format!("[{}] (complete history in the case)", rounds.join(","))
}

fn case_json(cfg: &Cfg, fx: &Fixture, hist: &[Vec<usize>]) -> Value {
    json!({"cfg": cfg, "hist": hist_json(fx, hist)})
}

/// reference observations: refs[r][p] = fingerprint party p shows when probed after the canonical complete rounds 0..=r
struct Refs {
    obs: Vec<Vec<u64>>,
    outs: Vec<Out>,
}

fn canonical(fx: &Fixture, rounds: usize) -> Vec<Vec<usize>> {
    (0..rounds).map(|gr| (0..fx.edges_at(gr).len()).collect()).collect()
}

enum RefErr {
    Skip(String),
    Fail(Value, Fail),
}

fn reference(cfg: &Cfg, fx: &Fixture) -> Result<Refs, RefErr> {
    let mut obs = vec![];
    let mut outs = vec![];
    let total = fx.total_rounds();
    for r in 0..total {
        let hist = canonical(fx, r + 1);
        let cj = case_json(cfg, fx, &hist);
        match run(cfg, fx, &hist) {
            Err(RunErr::Refused(e)) => {
                if cfg.expected_refusal() {
                    return Err(RefErr::Skip(format!("{} refuses the scheme: {}", cfg.shape(), panic_class(&e))));
                }
                return Err(RefErr::Fail(cj, mkfail(cfg, &format!("create:refused:{}", panic_class(&e)), "the protocol starts on a valid input of a scheme its code handles", e)));
            }
            Err(RunErr::Fail(f)) => return Err(RefErr::Fail(cj, f)),
            Ok(ro) => {
                let mut row = vec![];
                for (p, o) in ro.obs.iter().enumerate() {
                    match o {
                        Ok(h) => row.push(*h),
                        Err(e) => {
                            let op = if fx.final_local(r) { "finish" } else { "step2" };
                            return Err(RefErr::Fail(
                                cj,
                                mkfail(cfg, &format!("{op}:complete-inbox-refused:{}", panic_class(e)), format!("party {p} completes after receiving every other party's message"), e.clone()),
                            ));
                        }
                    }
                }
                obs.push(row);
                if r + 1 == total {
                    outs = ro.outs.into_iter().map(|o| o.unwrap()).collect();
                }
            }
        }
    }
    Ok(Refs { obs, outs })
}

/// `delivered[i]` = message pair i of round `gr` has been delivered (no bound on the number of pairs: n = 65 has 4160)
fn inbox_complete(fx: &Fixture, gr: usize, p: usize, delivered: &[bool]) -> bool {
    fx.edges_at(gr).iter().enumerate().all(|(i, e)| e.1 != p || delivered[i])
}

struct Judged {
    fails: Vec<Fail>,
    /// class of the observation (who refused / who completed)
    class: u64,
    receives: u64,
    refusal_classes: Vec<String>,
    leftover: usize,
}

/// Replay `hist` and compare every party's probe with the expectation derived from the reference.
fn judge_history(cfg: &Cfg, fx: &Fixture, refs: &Refs, hist: &[Vec<usize>]) -> Judged {
    let r = hist.len() - 1;
    let last = r + 1 == fx.total_rounds();
    let mut delivered = vec![false; fx.edges_at(r).len()];
    for &e in &hist[r] {
        delivered[e] = true;
    }
    let full = delivered.iter().all(|&d| d);
    let op = if fx.final_local(r) { "finish" } else { "step2" };
    let mut fails = vec![];
    let mut refusal_classes = vec![];
    match run(cfg, fx, hist) {
        Err(RunErr::Refused(e)) => {
            fails.push(mkfail(cfg, "create:refusal-depends-on-history", "creation does not depend on the delivery history", e));
            Judged { fails, class: 0, receives: 0, refusal_classes, leftover: 0 }
        }
        Err(RunErr::Fail(f)) => Judged { fails: vec![f], class: 1, receives: 0, refusal_classes, leftover: 0 },
        Ok(ro) => {
            let mut pattern = vec![];
            for p in 0..cfg.parties {
                let complete = inbox_complete(fx, r, p, &delivered);
                match (&ro.obs[p], complete) {
                    (Ok(h), true) => {
                        pattern.push(1u8);
                        if *h != refs.obs[r][p] {
                            let what = if full && last { "final-output-depends-on-delivery-order" } else { "state-not-canonical:output-depends-on-history" };
                            fails.push(mkfail(
                                cfg,
                                what,
                                format!("party {p} (inbox complete) returns the bytes of the canonical-order run"),
                                format!("different bytes after history {}", hist_text(fx, hist)),
                            ));
                        }
                    }
                    (Err(e), true) => {
                        pattern.push(2);
                        fails.push(mkfail(cfg, &format!("{op}:complete-inbox-refused:{}", panic_class(e)), format!("party {p} has received every message addressed to it and completes"), format!("{e}; history {}", hist_text(fx, hist))));
                    }
                    (Ok(_), false) => {
                        pattern.push(3);
                        fails.push(mkfail(
                            cfg,
                            &format!("{op}:incomplete-inbox-accepted"),
                            format!("party {p} has not received every other party's message and refuses"),
                            format!("returned a result after history {}", hist_text(fx, hist)),
                        ));
                    }
                    (Err(e), false) => {
                        pattern.push(0);
                        refusal_classes.push(panic_class(e));
                    }
                }
            }
            Judged { fails, class: h64(&(cfg.proto, cfg.spec.scheme, r, pattern)), receives: ro.receives, refusal_classes, leftover: ro.leftover }
        }
    }
}

// ---------------------------------------------------------------------------------------------
// semantic oracles on the reference outputs
// ---------------------------------------------------------------------------------------------

const E_MAX: f64 = 21.0;

struct Sem {
    fails: Vec<Fail>,
    observations: Vec<String>,
    steps: u64,
}

fn alphabet_u(t: u64, nslots: usize) -> Vec<Vec<u64>> {
    let dense: Vec<u64> = [1u64, 3, 5, 7, t - 1, 0, t / 2 + 1, 12].iter().cycle().take(nslots).map(|v| v % t).collect();
    vec![vec![0; nslots], vec![t - 1; nslots], dense]
}

fn alphabet_c(nslots: usize) -> Vec<Vec<C64>> {
    let dense: Vec<C64> = [C64::new(1.5, -2.0), C64::new(0.25, 3.0), C64::new(-4.0, 0.0), C64::new(0.0, 0.75)].iter().cycle().take(nslots).cloned().collect();
    vec![vec![C64::new(0.0, 0.0); nslots], vec![C64::new(-4.0, 4.0); nslots], dense]
}

fn msgs_for(scheme: Scheme, t: u64, deg: usize) -> Vec<Vec<i64>> {
    if scheme == Scheme::CKKS {
        alphabet_c(deg / 2).into_iter().map(|v| v.iter().flat_map(|z| [(z.re * 4.0) as i64, (z.im * 4.0) as i64]).collect()).collect()
    } else {
        alphabet_u(t, deg).into_iter().map(|v| v.iter().map(|&x| x as i64).collect()).collect()
    }
}

/// Ok(largest |difference| / tolerance)
fn close(a: &[C64], b: &[C64], tol: f64) -> Result<f64, String> {
    let mut worst = 0.0f64;
    for (k, (x, y)) in a.iter().zip(b).enumerate() {
        let d = (x - y).norm();
        if !(d <= tol) {
            return Err(format!("slot {k}: {x} vs expected {y} (|diff| {d:e} > tol {tol:e})"));
        }
        worst = worst.max(d / tol);
    }
    if a.len() < b.len() {
        return Err(format!("only {} slots", a.len()));
    }
    Ok(worst)
}

impl Fixture {
    fn fresh_bound(&self, level: usize) -> f64 {
        // public-key encryption at the key level, division by the special prime, `level` further switches
        let round = (1.0 + (self.ctx.first_context_data().unwrap().parms().poly_modulus_degree() * self.n) as f64) / 2.0;
        round * (1.0 + level as f64) + 2.0
    }
    fn tol(&self, coeff_bound: f64, encodings: f64, scale: f64) -> f64 {
        let deg = self.ctx.first_context_data().unwrap().parms().poly_modulus_degree() as f64;
        2.0 * deg * (coeff_bound + encodings / 2.0) / scale
    }
    fn decode_u(&self, p: &Plaintext) -> Vec<u64> {
        self.benc.as_ref().unwrap().decode_new(p)
    }
    fn decode_c(&self, p: &Plaintext) -> Vec<C64> {
        let mut v = self.cenc.as_ref().unwrap().decode_new(p);
        v.truncate(self.nslots);
        v
    }
    fn note_budget(&self, cfg: &Cfg, dec: &Decryptor, ct: &Ciphertext) {
        if !cfg.is_ckks() {
            if let Ok(b) = guard(|| dec.invariant_noise_budget(ct)) {
                self.min_budget.set(self.min_budget.get().min(b as i64));
            }
        }
    }
    /// compare a decrypted plaintext with the expected message
    fn cmp_plain(&self, cfg: &Cfg, p: &Plaintext, mu: &[u64], mc: &[C64], tol: f64) -> Result<(), String> {
        if cfg.is_ckks() {
            match guard(|| self.decode_c(p)) {
                Ok(v) => close(&v, mc, tol).map(|r| self.ckks_ratio.set(self.ckks_ratio.get().max(r))),
                Err(e) => Err(format!("decode panicked: {e}")),
            }
        } else {
            match guard(|| self.decode_u(p)) {
                Ok(v) => {
                    if v[..] == mu[..] {
                        Ok(())
                    } else {
                        Err(format!("slots {:?} vs expected {:?}", v, mu))
                    }
                }
                Err(e) => Err(format!("decode panicked: {e}")),
            }
        }
    }
}

fn semantic(cfg: &Cfg, fx: &Fixture, outs: &[Out]) -> Sem {
    let mut s = Sem { fails: vec![], observations: vec![], steps: 0 };
    let n = cfg.parties as f64;
    let deg = cfg.spec.n as f64;
    let ctx = fx.ctx.clone();
    let dec_sum = match guard(|| Decryptor::new(ctx.clone(), fx.sk_sum.clone())) {
        Ok(d) => d,
        Err(e) => {
            s.fails.push(mkfail(cfg, "harness:summed-key-rejected", "the component-wise sum of valid secret keys is a valid secret key", e));
            return s;
        }
    };
    let identical = |s: &mut Sem, what: &str| {
        for p in 1..outs.len() {
            s.steps += 1;
            if outs[p].fp() != outs[0].fp() {
                s.fails.push(mkfail(cfg, &format!("parties-disagree:{what}"), format!("party {p} derives the same {what} as party 0 (byte-identical)"), "different bytes"));
                break;
            }
        }
    };
    match cfg.proto {
        Proto::PublicKey => {
            identical(&mut s, "public-key");
            let Out::Pk(pk) = &outs[0] else { unreachable!() };
            let enc = Encryptor::new(ctx.clone()).set_public_key(pk.clone());
            let tol = fx.tol(fx.fresh_bound(0) + 1.0, 1.0, fx.scale);
            let (au, ac) = (alphabet_u(fx.t.max(2), fx.nslots), alphabet_c(fx.nslots));
            for k in 0..3 {
                fx.reseed("sem-pk", 0, k);
                let plain = fx.plain_of(cfg, &au[k], &ac[k]);
                s.steps += 1;
                match guard(|| {
                    let ct = enc.encrypt_new(&plain);
                    fx.note_budget(cfg, &dec_sum, &ct);
                    dec_sum.decrypt_new(&ct)
                }) {
                    Ok(p) => {
                        if let Err(e) = fx.cmp_plain(cfg, &p, &au[k], &ac[k], tol) {
                            s.fails.push(mkfail(cfg, "semantic:collective-public-key-does-not-match-summed-secret-key", "an encryption under the collective public key decrypts under the sum of the parties' secret keys", e));
                        }
                    }
                    Err(e) => s.fails.push(mkfail(cfg, &format!("semantic:collective-public-key-unusable:{}", panic_class(&e)), "Encryptor/Decryptor accept the collective key", e)),
                }
            }
        }
        Proto::RelinKeys => {
            identical(&mut s, "relin-keys");
            let Out::Rlk(rlk) = &outs[0] else { unreachable!() };
            let enc = Encryptor::new(ctx.clone()).set_public_key(fx.pk_sum.clone());
            let ev = Evaluator::new(ctx.clone());
            let (au, ac) = (alphabet_u(fx.t.max(2), fx.nslots), alphabet_c(fx.nslots));
            // worst-case coefficient noise of the product and of the key switch (see module report)
            let v = fx.fresh_bound(0) + 2.0 * deg * n * E_MAX / 1e6; // the divided encryption noise is far below 1
            let mmax = fx.scale * 4.0 * 2f64.sqrt();
            let e_rlk = 2.0 * n * n * deg * E_MAX + 2.0 * n * E_MAX;
            let k = (cfg.spec.q.len() - 1) as f64;
            let b_ks = k * deg * e_rlk + (1.0 + deg * n) / 2.0;
            let tol = fx.tol(2.0 * deg * mmax * v + deg * v * v + b_ks, 0.0, fx.scale * fx.scale) + fx.tol(0.0, 2.0 * mmax * deg, fx.scale * fx.scale);
            for (a, b) in [(2usize, 2usize), (2, 1), (1, 1), (0, 2)] {
                fx.reseed("sem-rlk", a, b);
                let (pa, pb) = (fx.plain_of(cfg, &au[a], &ac[a]), fx.plain_of(cfg, &au[b], &ac[b]));
                let eu: Vec<u64> = (0..fx.nslots).map(|i| ((au[a][i] as u128 * au[b][i] as u128) % fx.t.max(2) as u128) as u64).collect();
                let ecx: Vec<C64> = (0..fx.nslots).map(|i| ac[a][i] * ac[b][i]).collect();
                s.steps += 1;
                let prod = match guard(|| ev.multiply_new(&enc.encrypt_new(&pa), &enc.encrypt_new(&pb))) {
                    Ok(p) => p,
                    Err(e) => {
                        s.observations.push(format!("{}: control multiplication panicked ({}), relinearisation not judged", cfg.shape(), panic_class(&e)));
                        continue;
                    }
                };
                // control: the 3-term product must decrypt under the summed key, otherwise the parameter set cannot carry the check
                let ctrl = guard(|| dec_sum.decrypt_new(&prod)).map_err(|e| e.to_string()).and_then(|p| fx.cmp_plain(cfg, &p, &eu, &ecx, tol));
                if let Err(e) = ctrl {
                    s.observations.push(format!("{} {}: unrelinearised control product does not decrypt ({e}); relinearisation not judged for this pair", cfg.shape(), cfg.spec.label()));
                    continue;
                }
                match guard(|| {
                    let ct = ev.relinearize_new(&prod, rlk);
                    fx.note_budget(cfg, &dec_sum, &ct);
                    dec_sum.decrypt_new(&ct)
                }) {
                    Ok(p) => {
                        if let Err(e) = fx.cmp_plain(cfg, &p, &eu, &ecx, tol) {
                            s.fails.push(mkfail(cfg, "semantic:collective-relin-key-wrong", "a product relinearised with the collective key decrypts to the product under the summed secret key", e));
                        }
                    }
                    Err(e) => s.fails.push(mkfail(cfg, &format!("semantic:collective-relin-key-unusable:{}", panic_class(&e)), "Evaluator::relinearize accepts the collective key", e)),
                }
            }
        }
        Proto::RevealSk => {
            for (p, o) in outs.iter().enumerate() {
                let Out::Sk(sk) = o else { unreachable!() };
                s.steps += 1;
                if sk.data() != fx.sk_sum.data() {
                    s.fails.push(mkfail(cfg, "semantic:revealed-key-is-not-the-sum", format!("party {p} reveals the component-wise sum of the parties' keys"), "different residues"));
                    break;
                }
            }
        }
        Proto::Decrypt => {
            let tol = fx.tol(fx.fresh_bound(cfg.level) + n * E_MAX, 1.0, fx.scale);
            for (p, o) in outs.iter().enumerate() {
                let Out::Pt(pt) = o else { unreachable!() };
                s.steps += 1;
                if let Err(e) = fx.cmp_plain(cfg, pt, &fx.msg_u, &fx.msg_c, tol) {
                    s.fails.push(mkfail(cfg, "semantic:collective-decryption-wrong", format!("party {p} obtains the encrypted plaintext"), e));
                    break;
                }
            }
        }
        Proto::KeySwitch | Proto::PubKeySwitch => {
            let (target_sk, bound, what) = if cfg.proto == Proto::KeySwitch {
                (fx.new_sk_sum.clone().unwrap(), fx.fresh_bound(cfg.level) + n * E_MAX, "semantic:key-switch-output-does-not-decrypt-under-target-key")
            } else {
                (fx.target.as_ref().unwrap().1.clone(), fx.fresh_bound(cfg.level) + n * (E_MAX + 2.0 * deg * E_MAX), "semantic:public-key-switch-output-does-not-decrypt-under-target-key")
            };
            let tol = fx.tol(bound, 1.0, fx.scale);
            let dec_t = Decryptor::new(ctx.clone(), target_sk);
            for (p, o) in outs.iter().enumerate() {
                let Out::Ct(ct) = o else { unreachable!() };
                s.steps += 1;
                fx.note_budget(cfg, &dec_t, ct);
                match guard(|| dec_t.decrypt_new(ct)) {
                    Ok(pt) => {
                        if let Err(e) = fx.cmp_plain(cfg, &pt, &fx.msg_u, &fx.msg_c, tol) {
                            s.fails.push(mkfail(cfg, what, format!("party {p}'s output decrypts to the plaintext under the target key"), e));
                            break;
                        }
                    }
                    Err(e) => {
                        s.fails.push(mkfail(cfg, &format!("{what}:panic:{}", panic_class(&e)), format!("party {p}'s output is a valid ciphertext"), e));
                        break;
                    }
                }
            }
            // under the OLD key the output must no longer be the plaintext when the keys differ: not demanded by the statement, not checked
        }
        Proto::CipherToShares => {
            s.steps += 1;
            if cfg.is_ckks() {
                let mut sum = vec![C64::new(0.0, 0.0); fx.nslots];
                for o in outs {
                    let Out::ShC(v) = o else { unreachable!() };
                    for k in 0..fx.nslots {
                        sum[k] += v.get(k).copied().unwrap_or(C64::new(f64::NAN, 0.0));
                    }
                }
                let tol = fx.tol(fx.fresh_bound(cfg.level) + n * E_MAX, 1.0 + n, fx.scale);
                let r = close(&sum, &fx.msg_c, tol);
                if let Ok(r) = &r {
                    fx.ckks_ratio.set(fx.ckks_ratio.get().max(*r));
                }
                if let Err(e) = r {
                    s.fails.push(mkfail(cfg, "semantic:shares-do-not-sum-to-plaintext", "the parties' shares add up to the encrypted plaintext", e));
                }
            } else {
                let mut sum = vec![0u64; fx.nslots];
                let mut bad = None;
                for (p, o) in outs.iter().enumerate() {
                    let Out::ShU(v) = o else { unreachable!() };
                    if v.len() != fx.nslots || v.iter().any(|&x| x >= fx.t) {
                        bad = Some(format!("party {p} share {:?}", v));
                    }
                    for k in 0..fx.nslots.min(v.len()) {
                        sum[k] = (sum[k] + v[k] % fx.t) % fx.t;
                    }
                }
                if let Some(b) = bad {
                    s.fails.push(mkfail(cfg, "semantic:share-not-a-vector-mod-t", "every share is a length-N vector of residues mod t", b));
                } else if sum != fx.msg_u {
                    s.fails.push(mkfail(cfg, "semantic:shares-do-not-sum-to-plaintext", "the parties' shares add up (mod t) to the encrypted plaintext", format!("sum {:?} vs plaintext {:?}", sum, fx.msg_u)));
                }
            }
        }
        Proto::SharesToCipher => {
            let tol = fx.tol(n * E_MAX, n, fx.scale);
            let mut eu = vec![0u64; fx.nslots];
            let mut ec = vec![C64::new(0.0, 0.0); fx.nslots];
            for p in 0..cfg.parties {
                for k in 0..fx.nslots {
                    if cfg.is_ckks() {
                        ec[k] += fx.shares_c[p][k];
                    } else {
                        eu[k] = (eu[k] + fx.shares_u[p][k]) % fx.t;
                    }
                }
            }
            for (p, o) in outs.iter().enumerate() {
                let Out::Ct(ct) = o else { unreachable!() };
                let mut ct = ct.clone();
                if cfg.is_ckks() {
                    ct.set_scale(fx.scale);
                }
                // what the code implies for a non-aggregating party: sum + share_p - share_0
                let (mut xu, mut xc) = (eu.clone(), ec.clone());
                if p != 0 {
                    for k in 0..fx.nslots {
                        if cfg.is_ckks() {
                            xc[k] += fx.shares_c[p][k] - fx.shares_c[0][k];
                        } else {
                            xu[k] = (xu[k] + fx.shares_u[p][k] + fx.t - fx.shares_u[0][k]) % fx.t;
                        }
                    }
                }
                s.steps += 1;
                if p == 0 {
                    fx.note_budget(cfg, &dec_sum, &ct);
                }
                let res = guard(|| dec_sum.decrypt_new(&ct)).map_err(|e| format!("decrypt panicked: {e}"));
                if p == 0 {
                    match res.and_then(|pt| fx.cmp_plain(cfg, &pt, &eu, &ec, tol)) {
                        Ok(()) => {}
                        Err(e) => s.fails.push(mkfail(cfg, "semantic:shares-to-cipher-wrong-at-aggregator", "party 0's ciphertext decrypts (summed key) to the sum of the shares", e)),
                    }
                } else {
                    let sum_ok = res.clone().and_then(|pt| fx.cmp_plain(cfg, &pt, &eu, &ec, tol)).is_ok();
                    let implied_ok = res.and_then(|pt| fx.cmp_plain(cfg, &pt, &xu, &xc, tol * 2.0)).is_ok();
                    s.observations.push(format!(
                        "{}: non-aggregating party's output decrypts to the sum of shares: {}; to sum + own share - share_0 (what the code implies): {} [not judged]",
                        cfg.shape(),
                        sum_ok,
                        implied_ok
                    ));
                }
            }
        }
    }
    s
}

// ---------------------------------------------------------------------------------------------
// exploration of one configuration
// ---------------------------------------------------------------------------------------------

#[derive(Clone, Copy, PartialEq, Eq, Debug)]
pub enum Mode {
    /// every subset of the message pairs, breadth first
    Lattice,
    /// covering family of orders (non-exhaustive)
    Cover,
    /// a sequence of protocols on the same participants: canonical and reverse orders, refusal probes in the last protocol
    Chain,
    /// many parties: the stated family of delivery orders {identity, reverse, rotations, adjacent transpositions}
    /// (`full` = every rotation and every transposition, otherwise those at a sender boundary)
    Family { full: bool },
}

/// one delivery order of the m messages of a round
#[derive(Clone, Copy, Debug, PartialEq, Eq, Hash)]
enum Order {
    Identity,
    Reverse,
    /// identity order rotated left by r: r, r+1, .., m-1, 0, .., r-1
    Rot(usize),
    /// identity order with the deliveries at positions i and i+1 exchanged
    Swap(usize),
}

fn order_vec(o: Order, m: usize) -> Vec<usize> {
    match o {
        Order::Identity => (0..m).collect(),
        Order::Reverse => (0..m).rev().collect(),
        Order::Rot(r) => (0..m).map(|i| (i + r) % m).collect(),
        Order::Swap(i) => {
            let mut v: Vec<usize> = (0..m).collect();
            v.swap(i, i + 1);
            v
        }
    }
}

/// numbers k of completely delivered senders at which the sender-boundary sub-family cuts / rotates / transposes
const SENDER_BOUNDARIES: [usize; 14] = [1, 2, 7, 8, 9, 15, 16, 17, 31, 32, 33, 63, 64, 65];

/// prefix lengths of the identity / reverse order at which every party is probed when not every prefix is: 0, 1, 2, m-2, m-1 and
/// {k(n-1)-1, k(n-1), k(n-1)+1} for k senders completely delivered (sender-major order), k = 1..n (`all_senders`) or k in the
/// boundary set {1, 2, 7, 8, 9, 15, 16, 17, 31, 32, 33, 63, 64, 65}
fn boundary_cuts(m: usize, n: usize, all_senders: bool) -> Vec<usize> {
    let mut v: BTreeSet<usize> = BTreeSet::new();
    for c in [0usize, 1, 2, m.saturating_sub(2), m.saturating_sub(1)] {
        v.insert(c);
    }
    let block = if m == n - 1 { 1 } else { n - 1 };
    for k in 1..=n {
        if all_senders || SENDER_BOUNDARIES.contains(&k) {
            for c in [(k * block).saturating_sub(1), k * block, k * block + 1] {
                v.insert(c);
            }
        }
    }
    v.into_iter().filter(|&c| c < m).collect()
}

/// (order, None = complete run | Some(c) = every party probed after the first c deliveries)
fn family_jobs(m: usize, n: usize, full: bool) -> Vec<(Order, Option<usize>)> {
    let mut jobs = vec![];
    if m == 0 {
        return jobs;
    }
    for o in [Order::Identity, Order::Reverse] {
        jobs.push((o, None));
        let cuts: Vec<usize> = if full && m <= 300 { (0..m).collect() } else { boundary_cuts(m, n, full) };
        for c in cuts {
            jobs.push((o, Some(c)));
        }
    }
    // messages per sender in the canonical order (cipher->shares: one)
    let block = if m == n - 1 { 1 } else { n - 1 };
    let at_boundary = |pos: usize| pos % block == 0 && SENDER_BOUNDARIES.contains(&(pos / block));
    for r in 1..m {
        if full || at_boundary(r) {
            jobs.push((Order::Rot(r), None));
            jobs.push((Order::Rot(r), Some(1)));
            jobs.push((Order::Rot(r), Some(m - 1)));
        }
    }
    for i in 0..m.saturating_sub(1) {
        if full || at_boundary(i + 1) {
            jobs.push((Order::Swap(i), None));
            jobs.push((Order::Swap(i), Some(i + 1)));
        }
    }
    jobs
}

/// normal form of the delivered set of a probed state of the family (for counting distinct states)
fn family_state(o: Order, c: usize, m: usize) -> (u8, usize, usize) {
    if c == 0 {
        return (0, 0, 0);
    }
    if c >= m {
        return (0, 0, m);
    }
    match o {
        Order::Identity => (0, 0, c),
        Order::Reverse => (0, m - c, c),
        Order::Rot(r) => (0, r % m, c),
        Order::Swap(i) => {
            if c <= i || c >= i + 2 {
                (0, 0, c)
            } else if i == 0 {
                (0, 1, 1)
            } else if i == m - 2 {
                (0, m - 1, m - 1)
            } else {
                (1, i, c)
            }
        }
    }
}

#[derive(Default)]
struct Acc {
    states: u64,
    transitions: u64,
    histories: u64,
    receives: u64,
    sem_steps: u64,
    nontrivial: Vec<u64>,
    outcomes: HashSet<u64>,
    fails: BTreeMap<String, (Value, Fail, u64)>,
    refusal_classes: BTreeSet<String>,
    observations: BTreeSet<String>,
    skipped: Option<String>,
    capped: bool,
    max_leftover: usize,
    ckks_ratio: f64,
    min_budget: Option<i64>,
}

impl Acc {
    fn add_fail(&mut self, case: impl FnOnce() -> Value, f: Fail) {
        if let Some(e) = self.fails.get_mut(&f.key) {
            e.2 += 1;
        } else {
            self.fails.insert(f.key.clone(), (case(), f, 1));
        }
    }
    fn merge(&mut self, o: Acc) {
        self.states += o.states;
        self.transitions += o.transitions;
        self.histories += o.histories;
        self.receives += o.receives;
        self.sem_steps += o.sem_steps;
        self.nontrivial.extend(o.nontrivial);
        self.outcomes.extend(o.outcomes);
        for (k, (c, f, n)) in o.fails {
            if let Some(e) = self.fails.get_mut(&k) {
                e.2 += n;
            } else {
                self.fails.insert(k, (c, f, n));
            }
        }
        self.refusal_classes.extend(o.refusal_classes);
        self.observations.extend(o.observations);
        self.capped |= o.capped;
        self.max_leftover = self.max_leftover.max(o.max_leftover);
        self.ckks_ratio = self.ckks_ratio.max(o.ckks_ratio);
        self.min_budget = match (self.min_budget, o.min_budget) {
            (Some(a), Some(b)) => Some(a.min(b)),
            (a, b) => a.or(b),
        };
    }
    fn absorb(&mut self, cfg: &Cfg, fx: &Fixture, hist: &[Vec<usize>], j: Judged, canonical_full: bool) {
        self.histories += 1;
        self.receives += j.receives;
        self.outcomes.insert(j.class);
        self.max_leftover = self.max_leftover.max(j.leftover);
        if !canonical_full {
            self.nontrivial.push(h64(&(cfg.tag(), hist)));
        }
        for c in j.refusal_classes {
            self.refusal_classes.insert(c);
        }
        for f in j.fails {
            self.add_fail(|| case_json(cfg, fx, hist), f);
        }
    }
}

/// history reaching (round, canon(mask)++extra) with all earlier rounds canonical and, if `complete`, canonical completion to the end
fn make_hist(fx: &Fixture, rounds_total: usize, round: usize, mask: u64, extra: Option<usize>, complete: bool) -> Vec<Vec<usize>> {
    let m = fx.edges.len();
    let mut h: Vec<Vec<usize>> = (0..round).map(|_| (0..m).collect()).collect();
    let mut cur = bits(mask);
    let mut have = mask;
    if let Some(e) = extra {
        cur.push(e);
        have |= 1u64 << e;
    }
    if complete {
        for e in 0..m {
            if have >> e & 1 == 0 {
                cur.push(e);
            }
        }
        h.push(cur);
        for _ in round + 1..rounds_total {
            h.push((0..m).collect());
        }
    } else {
        h.push(cur);
    }
    h
}

/// state check + all outgoing edges of one state; returns the successor masks
fn process_state(cfg: &Cfg, fx: &Fixture, refs: &Refs, round: usize, mask: u64, acc: &mut Acc) -> Vec<u64> {
    let m = fx.edges.len();
    let rounds = cfg.proto.rounds();
    let fullmask = if m == 64 { u64::MAX } else { (1u64 << m) - 1 };
    acc.states += 1;
    // (a) canonical materialisation, every party probed
    let h = make_hist(fx, rounds, round, mask, None, false);
    let canonical_full = mask == fullmask && round + 1 == rounds;
    let j = judge_history(cfg, fx, refs, &h);
    acc.absorb(cfg, fx, &h, j, canonical_full);
    let mut succ = vec![];
    let top = if mask == 0 { None } else { Some(63 - mask.leading_zeros() as usize) };
    for e in 0..m {
        if mask >> e & 1 == 1 {
            continue;
        }
        acc.transitions += 1;
        let m2 = mask | 1u64 << e;
        succ.push(m2);
        // (b1) the same delivered set reached through a non-canonical history, probed at once
        if top.map_or(false, |t| e < t) {
            let h = make_hist(fx, rounds, round, mask, Some(e), false);
            let j = judge_history(cfg, fx, refs, &h);
            acc.absorb(cfg, fx, &h, j, false);
        }
        // (b2) through this edge to the end, canonical completion
        let h = make_hist(fx, rounds, round, mask, Some(e), true);
        let is_canon = h.iter().all(|r| r.windows(2).all(|w| w[0] < w[1]));
        if !is_canon {
            let j = judge_history(cfg, fx, refs, &h);
            acc.absorb(cfg, fx, &h, j, false);
        }
    }
    succ
}

fn explore_cfg(cfg: &Cfg, seed: u64, mode: Mode, inner_threads: usize, deadline: Instant) -> Acc {
    let mut acc = Acc::default();
    let fx = match guard(|| Fixture::build(cfg, seed)) {
        Ok(Ok(f)) => f,
        Ok(Err(e)) => {
            acc.skipped = Some(format!("fixture: {e}"));
            return acc;
        }
        Err(e) => {
            acc.add_fail(|| json!({"cfg": cfg, "hist": [[]]}), mkfail(cfg, &format!("fixture:panic:{}", panic_class(&e)), "keys and input ciphertext of the configuration can be produced", e));
            return acc;
        }
    };
    let refs = match reference(cfg, &fx) {
        Ok(r) => r,
        Err(RefErr::Skip(why)) => {
            acc.observations.insert(why.clone());
            acc.skipped = Some(why);
            return acc;
        }
        Err(RefErr::Fail(c, f)) => {
            acc.add_fail(|| c, f);
            return acc;
        }
    };
    // semantic oracles on the reference outputs (all other histories must reproduce these bytes)
    let sem = semantic(cfg, &fx, &refs.outs);
    acc.sem_steps += sem.steps;
    let full = canonical(&fx, fx.total_rounds());
    for f in sem.fails {
        acc.add_fail(|| case_json(cfg, &fx, &full), f);
    }
    acc.observations.extend(sem.observations);
    acc.ckks_ratio = fx.ckks_ratio.get();
    if fx.min_budget.get() != i64::MAX {
        acc.min_budget = Some(fx.min_budget.get());
    }
    let m = fx.edges.len();
    let rounds = cfg.proto.rounds();
    match mode {
        Mode::Lattice => {
            for round in 0..rounds {
                let mut visited: HashSet<u64> = HashSet::new();
                visited.insert(0);
                let mut frontier = vec![0u64];
                while !frontier.is_empty() {
                    if Instant::now() > deadline {
                        acc.capped = true;
                        return acc;
                    }
                    let mut next = vec![];
                    if inner_threads <= 1 || frontier.len() < 8 {
                        for &mask in &frontier {
                            for s in process_state(cfg, &fx, &refs, round, mask, &mut acc) {
                                if visited.insert(s) {
                                    next.push(s);
                                }
                            }
                            if Instant::now() > deadline {
                                acc.capped = true;
                                return acc;
                            }
                        }
                    } else {
                        let idx = AtomicUsize::new(0);
                        let results: Mutex<Vec<(Acc, Vec<u64>)>> = Mutex::new(vec![]);
                        std::thread::scope(|sc| {
                            for _ in 0..inner_threads {
                                std::thread::Builder::new()
                                    .stack_size(64 << 20)
                                    .spawn_scoped(sc, || {
                                        heathcliff_thread_init();
                                        let mut a = Acc::default();
                                        let mut succ = vec![];
                                        let fxl = match guard(|| Fixture::build(cfg, seed)) {
                                            Ok(Ok(f)) => f,
                                            _ => return,
                                        };
                                        loop {
                                            let i = idx.fetch_add(1, Ordering::SeqCst);
                                            if i >= frontier.len() || Instant::now() > deadline {
                                                break;
                                            }
                                            succ.extend(process_state(cfg, &fxl, &refs, round, frontier[i], &mut a));
                                        }
                                        results.lock().unwrap().push((a, succ));
                                    })
                                    .expect("spawn");
                            }
                        });
                        let done = idx.load(Ordering::SeqCst);
                        for (a, succ) in results.into_inner().unwrap() {
                            acc.merge(a);
                            for s in succ {
                                if visited.insert(s) {
                                    next.push(s);
                                }
                            }
                        }
                        if done < frontier.len() + inner_threads && Instant::now() > deadline {
                            acc.capped = true;
                            return acc;
                        }
                    }
                    next.sort_unstable();
                    frontier = next;
                }
                debug_assert!(visited.len() as u128 == 1u128 << m);
            }
        }
        Mode::Chain => {
            let total = fx.total_rounds();
            let canon = canonical(&fx, total);
            let rev: Vec<Vec<usize>> = canon.iter().map(|r| r.iter().rev().cloned().collect()).collect();
            let first_last = total - cfg.proto.rounds();
            let mut hists: Vec<Vec<Vec<usize>>> = vec![];
            // complete histories: everything reversed; only the prefix reversed; only the last protocol reversed
            hists.push(rev.clone());
            hists.push(rev[..first_last].iter().chain(canon[first_last..].iter()).cloned().collect());
            hists.push(canon[..first_last].iter().chain(rev[first_last..].iter()).cloned().collect());
            // refusal probes in every round of the last protocol: nothing delivered, all but the last message
            for base in [&canon, &rev] {
                for gr in first_last..total {
                    let m = fx.edges_at(gr).len();
                    for cut in [0, m - 1] {
                        let mut h: Vec<Vec<usize>> = base[..gr].to_vec();
                        h.push(base[gr][..cut].to_vec());
                        hists.push(h);
                    }
                }
            }
            let mut done: HashSet<Vec<Vec<usize>>> = HashSet::new();
            let mut seen: HashSet<(usize, u64)> = HashSet::new();
            done.insert(canon.clone());
            for gr in 0..total {
                // the reference run passed through every prefix state of the canonical order
                let mut mask = 0u64;
                seen.insert((gr, 0));
                for &e in &canon[gr] {
                    mask |= 1u64 << e;
                    seen.insert((gr, mask));
                }
            }
            acc.transitions += canon.iter().map(|r| r.len() as u64).sum::<u64>();
            for h in hists {
                if Instant::now() > deadline {
                    acc.capped = true;
                    return acc;
                }
                if !done.insert(h.clone()) {
                    continue;
                }
                for (gr, r) in h.iter().enumerate() {
                    let mut mask = 0u64;
                    seen.insert((gr, 0));
                    for &e in r {
                        mask |= 1u64 << e;
                        seen.insert((gr, mask));
                    }
                }
                acc.transitions += h.iter().map(|r| r.len() as u64).sum::<u64>();
                let j = judge_history(cfg, &fx, &refs, &h);
                acc.absorb(cfg, &fx, &h, j, false);
            }
            acc.states += seen.len() as u64;
        }
        Mode::Family { full } => {
            for round in 0..rounds {
                let jobs = family_jobs(m, cfg.parties, full);
                let mut seen: HashSet<(u8, usize, usize)> = HashSet::new();
                for (o, c) in &jobs {
                    seen.insert(family_state(*o, c.unwrap_or(m), m));
                    if c.is_none() {
                        acc.transitions += m as u64;
                    }
                }
                acc.states += seen.len() as u64;
                let mk = |fxl: &Fixture, job: &(Order, Option<usize>)| -> (Vec<Vec<usize>>, bool) {
                    let ord = order_vec(job.0, m);
                    let mut h: Vec<Vec<usize>> = (0..round).map(|_| (0..m).collect()).collect();
                    match job.1 {
                        None => {
                            h.push(ord);
                            for _ in round + 1..rounds {
                                h.push((0..m).collect());
                            }
                        }
                        Some(c) => h.push(ord[..c].to_vec()),
                    }
                    let _ = fxl;
                    let canon = job.0 == Order::Identity && job.1.is_none() && round + 1 == rounds;
                    (h, canon)
                };
                let idx = AtomicUsize::new(0);
                let results: Mutex<Vec<Acc>> = Mutex::new(vec![]);
                let capped = std::sync::atomic::AtomicBool::new(false);
                let worker = |fxl: &Fixture| {
                    let mut a = Acc::default();
                    loop {
                        let i = idx.fetch_add(1, Ordering::SeqCst);
                        if i >= jobs.len() {
                            break;
                        }
                        if Instant::now() > deadline {
                            capped.store(true, Ordering::SeqCst);
                            break;
                        }
                        let (h, canon) = mk(fxl, &jobs[i]);
                        let j = judge_history(cfg, fxl, &refs, &h);
                        a.absorb(cfg, fxl, &h, j, canon);
                    }
                    results.lock().unwrap().push(a);
                };
                if inner_threads <= 1 || jobs.len() < 32 {
                    worker(&fx);
                } else {
                    std::thread::scope(|sc| {
                        for _ in 0..inner_threads {
                            std::thread::Builder::new()
                                .stack_size(64 << 20)
                                .spawn_scoped(sc, || {
                                    heathcliff_thread_init();
                                    let fxl = match guard(|| Fixture::build(cfg, seed)) {
                                        Ok(Ok(f)) => f,
                                        _ => {
                                            capped.store(true, Ordering::SeqCst);
                                            return;
                                        }
                                    };
                                    worker(&fxl);
                                })
                                .expect("spawn");
                        }
                    });
                }
                for a in results.into_inner().unwrap() {
                    acc.merge(a);
                }
                if capped.load(Ordering::SeqCst) {
                    acc.capped = true;
                    return acc;
                }
            }
        }
        Mode::Cover => {
            for round in 0..rounds {
                let mut seen_states: HashSet<u64> = HashSet::new();
                let mut orders: Vec<Vec<usize>> = vec![];
                orders.push((0..m).collect());
                orders.push((0..m).rev().collect());
                for last in 0..m {
                    let mut o: Vec<usize> = (0..m).filter(|&e| e != last).collect();
                    o.push(last);
                    orders.push(o);
                    let mut o: Vec<usize> = vec![last];
                    o.extend((0..m).filter(|&e| e != last));
                    orders.push(o);
                }
                for i in 0..m.saturating_sub(1) {
                    let mut o: Vec<usize> = (0..m).collect();
                    o.swap(i, i + 1);
                    orders.push(o);
                }
                let prefix: Vec<Vec<usize>> = (0..round).map(|_| (0..m).collect()).collect();
                let suffix: Vec<Vec<usize>> = (round + 1..rounds).map(|_| (0..m).collect()).collect();
                let mut done: HashSet<Vec<usize>> = HashSet::new();
                for (oi, o) in orders.iter().enumerate() {
                    if Instant::now() > deadline {
                        acc.capped = true;
                        return acc;
                    }
                    if !done.insert(o.clone()) {
                        continue;
                    }
                    // complete run in this order
                    let mut h = prefix.clone();
                    h.push(o.clone());
                    h.extend(suffix.clone());
                    let is_canon = oi == 0;
                    let j = judge_history(cfg, &fx, &refs, &h);
                    acc.absorb(cfg, &fx, &h, j, is_canon && round + 1 == rounds);
                    acc.transitions += m as u64;
                    // probed prefixes: all of them for the canonical and the reverse order, the one-before-last state for the others
                    let cuts: Vec<usize> = if oi < 2 { (0..m).collect() } else { vec![m - 1] };
                    for c in cuts {
                        let mut h = prefix.clone();
                        h.push(o[..c].to_vec());
                        let j = judge_history(cfg, &fx, &refs, &h);
                        acc.absorb(cfg, &fx, &h, j, false);
                    }
                    let mut mask = 0u64;
                    seen_states.insert(0);
                    for &e in o {
                        mask |= 1u64 << e;
                        seen_states.insert(mask);
                    }
                }
                acc.states += seen_states.len() as u64;
            }
        }
    }
    acc
}

// ---------------------------------------------------------------------------------------------
// section
// ---------------------------------------------------------------------------------------------

pub struct E5Section {
    pub name: String,
    pub bound: String,
    pub cfgs: Vec<Cfg>,
    pub mode: Mode,
    pub seed: u64,
    /// true: configurations one after the other, each lattice layer spread over the worker threads
    pub inner_parallel: bool,
    pub budget_share: f64,
}

fn replay_case(case: &Value, seed: u64) -> Result<CaseOut, String> {
    let cfg: Cfg = serde_json::from_value(case["cfg"].clone()).map_err(|e| format!("cannot parse cfg: {e}"))?;
    let pairs: Vec<Vec<(usize, usize)>> = serde_json::from_value(case["hist"].clone()).map_err(|e| format!("cannot parse hist: {e}"))?;
    let fx = match guard(|| Fixture::build(&cfg, seed)) {
        Ok(Ok(f)) => f,
        Ok(Err(e)) => return Ok(CaseOut::skip(&e)),
        Err(e) => return Ok(CaseOut::fail(format!("{}:fixture:panic:{}", cfg.shape(), panic_class(&e)), "fixture can be built", e)),
    };
    let mut hist: Vec<Vec<usize>> = vec![];
    if pairs.len() > fx.total_rounds() {
        return Err(format!("{} rounds listed, the sequence has {}", pairs.len(), fx.total_rounds()));
    }
    for (gr, r) in pairs.iter().enumerate() {
        let mut row = vec![];
        for pr in r {
            row.push(fx.edges_at(gr).iter().position(|e| e == pr).ok_or_else(|| format!("({},{}) is not a message of round {gr}", pr.0, pr.1))?);
        }
        hist.push(row);
    }
    if hist.is_empty() {
        hist.push(vec![]);
    }
    let refs = match reference(&cfg, &fx) {
        Ok(r) => r,
        Err(RefErr::Skip(w)) => return Ok(CaseOut::skip(&w)),
        Err(RefErr::Fail(_, f)) => return Ok(CaseOut::fail(f.key, f.expected, f.observed)),
    };
    let full = canonical(&fx, fx.total_rounds());
    if hist == full {
        let sem = semantic(&cfg, &fx, &refs.outs);
        if let Some(f) = sem.fails.into_iter().next() {
            return Ok(CaseOut::fail(f.key, f.expected, f.observed));
        }
    }
    let j = judge_history(&cfg, &fx, &refs, &hist);
    if let Some(f) = j.fails.into_iter().next() {
        return Ok(CaseOut::fail(f.key, f.expected, f.observed));
    }
    Ok(CaseOut::pass(true, j.class, 1))
}

impl AnySection for E5Section {
    fn name(&self) -> String {
        self.name.clone()
    }

    fn replay(&self, case: &Value) -> Result<CaseOut, String> {
        heathcliff_thread_init();
        match guard(|| replay_case(case, self.seed)) {
            Ok(r) => r,
            Err(p) => Ok(CaseOut::fail(format!("unexpected-panic:{}", panic_class(&p)), "no panic outside the guarded subject calls", p)),
        }
    }

    fn run(self: Box<Self>, rep: &Arc<Report>) {
        let t0 = Instant::now();
        let deadline = Instant::now() + rep.cfg.remaining().mul_f64(self.budget_share.clamp(0.01, 1.0));
        let threads = rep.cfg.threads.max(1);
        let seed = self.seed;
        let mode = self.mode;
        // determinism self-test: reference observations of the first configurations, twice, in fresh threads
        {
            let head: Vec<Cfg> = self.cfgs.iter().take(3).cloned().collect();
            let once = |cfgs: Vec<Cfg>| {
                std::thread::Builder::new()
                    .stack_size(64 << 20)
                    .spawn(move || {
                        heathcliff_thread_init();
                        cfgs.iter()
                            .map(|c| {
                                guard(|| match Fixture::build(c, seed) {
                                    Ok(fx) => match reference(c, &fx) {
                                        Ok(r) => h64(&r.obs),
                                        Err(RefErr::Skip(_)) => 1,
                                        Err(RefErr::Fail(_, f)) => h64(&f.key),
                                    },
                                    Err(_) => 2,
                                })
                                .unwrap_or(3)
                            })
                            .collect::<Vec<u64>>()
                    })
                    .expect("spawn")
                    .join()
                    .unwrap_or_default()
            };
            if once(head.clone()) != once(head) {
                rep.machinery_error(format!("section {}: determinism self-test failed (same configurations, different reference observations)", self.name));
            }
        }
        let total = Mutex::new(Acc::default());
        let per_proto: Mutex<BTreeMap<String, (u64, u64, u64)>> = Mutex::new(BTreeMap::new());
        let ncfg = AtomicUsize::new(0);
        let nskip = AtomicUsize::new(0);
        let flush = |cfg: &Cfg, a: Acc| {
            ncfg.fetch_add(1, Ordering::SeqCst);
            if let Some(w) = &a.skipped {
                nskip.fetch_add(1, Ordering::SeqCst);
                rep.skipped.fetch_add(1, Ordering::Relaxed);
                rep.observe(format!("skipped (outside the domain): {w}"));
            }
            {
                let mut pp = per_proto.lock().unwrap();
                let e = pp.entry(format!("{}/{:?}", cfg.proto.name(), cfg.spec.scheme)).or_insert((0, 0, 0));
                e.0 += a.states;
                e.1 += a.transitions;
                e.2 += a.histories;
            }
            total.lock().unwrap().merge(a);
        };
        if self.inner_parallel {
            for cfg in &self.cfgs {
                if Instant::now() > deadline {
                    total.lock().unwrap().capped = true;
                    break;
                }
                let a = match guard(|| explore_cfg(cfg, seed, mode, threads, deadline)) {
                    Ok(a) => a,
                    Err(p) => {
                        let mut a = Acc::default();
                        a.add_fail(|| json!({"cfg": cfg, "hist": [[]]}), Fail { key: format!("unexpected-panic:{}", panic_class(&p)), expected: "no panic outside the guarded subject calls".into(), observed: p });
                        a
                    }
                };
                flush(cfg, a);
            }
        } else {
            let idx = AtomicUsize::new(0);
            std::thread::scope(|sc| {
                for _ in 0..threads {
                    std::thread::Builder::new()
                        .stack_size(64 << 20)
                        .spawn_scoped(sc, || {
                            heathcliff_thread_init();
                            loop {
                                let i = idx.fetch_add(1, Ordering::SeqCst);
                                if i >= self.cfgs.len() {
                                    break;
                                }
                                if Instant::now() > deadline {
                                    total.lock().unwrap().capped = true;
                                    break;
                                }
                                let cfg = &self.cfgs[i];
                                let a = match guard(|| explore_cfg(cfg, seed, mode, 1, deadline)) {
                                    Ok(a) => a,
                                    Err(p) => {
                                        let mut a = Acc::default();
                                        a.add_fail(
                                            || json!({"cfg": cfg, "hist": [[]]}),
                                            Fail { key: format!("unexpected-panic:{}", panic_class(&p)), expected: "no panic outside the guarded subject calls".into(), observed: p },
                                        );
                                        a
                                    }
                                };
                                flush(cfg, a);
                            }
                        })
                        .expect("spawn");
                }
            });
        }
        let acc = total.into_inner().unwrap();
        let done = ncfg.load(Ordering::SeqCst) as u64;
        let skipped = nskip.load(Ordering::SeqCst) as u64;
        let exhaustive_run = !acc.capped && done == self.cfgs.len() as u64;
        for (_, (case, f, n)) in acc.fails.iter() {
            for _ in 0..*n {
                rep.add_violation(&self.name, case.clone(), f.clone());
            }
        }
        for h in &acc.nontrivial {
            rep.mark_nontrivial(*h);
        }
        for o in &acc.outcomes {
            rep.mark_outcome(*o);
        }
        for o in &acc.observations {
            rep.observe(o.clone());
        }
        if !acc.refusal_classes.is_empty() {
            rep.observe(format!("{}: refusal classes of incomplete inboxes: {:?}", self.name, acc.refusal_classes));
        }
        if acc.ckks_ratio > 0.0 {
            rep.observe(format!("{}: largest |error|/tolerance over all passing CKKS comparisons = {:.3}", self.name, acc.ckks_ratio));
        }
        if let Some(b) = acc.min_budget {
            rep.observe(format!("{}: smallest invariant noise budget of a judged BFV/BGV ciphertext = {} bits", self.name, b));
        }
        if acc.max_leftover > 0 {
            rep.observe(format!("{}: a receive() left up to {} bytes of its message unread", self.name, acc.max_leftover));
        }
        rep.evaluations.fetch_add(acc.histories, Ordering::Relaxed);
        rep.steps.fetch_add(acc.histories + acc.sem_steps, Ordering::Relaxed);
        rep.states.fetch_add(acc.states, Ordering::Relaxed);
        rep.transitions.fetch_add(acc.transitions, Ordering::Relaxed);
        if let Some(c) = self.cfgs.first() {
            rep.sample(json!({"section": self.name, "first_cfg": c}));
        }
        if let Some(c) = self.cfgs.last() {
            rep.sample(json!({"section": self.name, "last_cfg": c}));
        }
        // the Cover mode is a non-exhaustive family by construction: say so in the bound text, not via the flag of the run
        let bound = if exhaustive_run { self.bound.clone() } else { format!("{} — CAPPED: only {} of {} configurations were completed", self.bound, done, self.cfgs.len()) };
        rep.push_section(SectionStat {
            name: self.name.clone(),
            engine: "E5".into(),
            cases: done,
            nontrivial: acc.nontrivial.len() as u64,
            skipped,
            outcomes: acc.outcomes.len() as u64,
            steps: acc.histories + acc.sem_steps,
            states: acc.states,
            transitions: acc.transitions,
            exhaustive: exhaustive_run,
            bound,
            wall_s: t0.elapsed().as_secs_f64(),
            extra: json!({
                "histories_replayed": acc.histories,
                "receive_calls": acc.receives,
                "semantic_checks": acc.sem_steps,
                "per_protocol_scheme(states,transitions,histories)": per_proto.into_inner().unwrap(),
                "refusal_classes": acc.refusal_classes,
                "mode": format!("{:?}", self.mode),
            }),
        });
    }
}

// ---------------------------------------------------------------------------------------------
// configurations per tier
// ---------------------------------------------------------------------------------------------

/// N = 8; the special (last) prime is the largest so that key-switching noise is not amplified
fn param_sets(scheme: Scheme) -> Vec<ParamSpec> {
    let n = 8;
    [vec![30usize, 40], vec![30, 35, 40], vec![30, 31, 35, 40]].iter().map(|b| ParamSpec::new(scheme, n, chain(n, b), 17)).collect()
}

fn cfgs_for(n: usize, cfg: &RunCfg, reduced: bool) -> Vec<Cfg> {
    let mut v = vec![];
    let th = cfg.thorough();
    for proto in Proto::all() {
        for scheme in Scheme::all() {
            let sets = param_sets(scheme);
            for (si, spec) in sets.iter().enumerate() {
                // reduced (big lattices / covering families): the 3-prime set only
                if reduced && si != 1 {
                    continue;
                }
                let msgs = msgs_for(scheme, 17, 8);
                let msg_ids: Vec<usize> = if proto.uses_message() && !reduced { vec![2, 0, 1] } else { vec![2] };
                let max_level = spec.q.len() - 2;
                for &mi in &msg_ids {
                    let mut levels = vec![0usize];
                    if proto.has_cipher_input() && max_level > 0 && mi == 2 {
                        levels.push(max_level);
                    }
                    for &level in &levels {
                        let mut modes = vec![ShareMode::Sampler];
                        if proto == Proto::CipherToShares && scheme != Scheme::CKKS && mi == 2 && level == 0 && !reduced {
                            modes.push(ShareMode::FixedZero);
                            modes.push(ShareMode::FixedMax);
                        }
                        for &shares in &modes {
                            let mut scripts = vec![(Noise::Real, Noise::Real)];
                            if th && !reduced && mi == 2 && level == 0 && shares == ShareMode::Sampler {
                                scripts.push((Noise::Real, Noise::AllMax));
                                scripts.push((Noise::Real, Noise::Alt));
                                scripts.push((Noise::AllMax, Noise::AllMax));
                            }
                            for &(tern, err) in &scripts {
                                v.push(Cfg { proto, spec: spec.clone(), parties: n, msg: msgs[mi].clone(), level, shares, err, tern, chain: vec![] });
                            }
                        }
                    }
                }
            }
        }
    }
    v
}

/// every sequence of `len` protocols (with repetition) on the same participants; primes [30,35,40], dense plaintext, first level
fn chain_cfgs(n: usize, lens: &[usize]) -> Vec<Cfg> {
    let mut v = vec![];
    let protos = Proto::all();
    for &len in lens {
        for scheme in Scheme::all() {
            let spec = param_sets(scheme).remove(1);
            let msg = msgs_for(scheme, 17, 8).remove(2);
            let count = protos.len().pow(len as u32);
            for idx in 0..count {
                let mut seq = vec![];
                let mut x = idx;
                for _ in 0..len {
                    seq.push(protos[x % protos.len()]);
                    x /= protos.len();
                }
                seq.reverse();
                if scheme == Scheme::BGV && seq.contains(&Proto::SharesToCipher) {
                    continue; // creation is refused by the library ([Invalid argument]), see lattice sections
                }
                let proto = seq.pop().unwrap();
                v.push(Cfg { proto, spec: spec.clone(), parties: n, msg: msg.clone(), level: 0, shares: ShareMode::Sampler, err: Noise::Real, tern: Noise::Real, chain: seq });
            }
        }
    }
    v
}

// ---------------------------------------------------------------------------------------------
// production-size configurations (many primes / many parties / large N)
// ---------------------------------------------------------------------------------------------

/// smallest prime t >= 17 with t = 1 (mod 2N)
fn plain_modulus_for(n: usize) -> u64 {
    let step = 2 * n as u64;
    let mut t = step + 1;
    while t < 17 || !crate::refmodel::bigu::is_prime_u64(t) {
        t += step;
    }
    t
}

/// `total` explicit primes: total-1 data primes of `data_bits` bits and a larger special prime (so that key-switching noise is not amplified)
fn sized_spec(scheme: Scheme, n: usize, total: usize, data_bits: usize, special_bits: usize) -> ParamSpec {
    let mut q = ntt_primes(n, data_bits, total - 1);
    q.extend(ntt_primes(n, special_bits, 1));
    ParamSpec::new(scheme, n, q, plain_modulus_for(n))
}

/// tiny degree, many primes: [30 x (total-1), 40] bits
fn many_prime_spec(scheme: Scheme, n: usize, total: usize) -> ParamSpec {
    sized_spec(scheme, n, total, 30, 40)
}

/// large degree: [54 x (total-1), 60] bits
fn big_spec(scheme: Scheme, n: usize, total: usize) -> ParamSpec {
    sized_spec(scheme, n, total, 54, 60)
}

const SLOT_BOUNDARIES: [usize; 33] =
    [0, 1, 7, 8, 9, 15, 16, 17, 31, 32, 33, 63, 64, 65, 127, 128, 129, 255, 256, 257, 511, 512, 513, 1023, 1024, 1025, 2047, 2048, 2049, 4095, 4096, 4097, 8191];

/// structured plaintexts of the large-degree sections: [0] ramp (slot i -> 1 + i mod (t-1); CKKS: a grid ramp), [1] all-maximal,
/// [2..] unit slots (value t-1 resp. -4+4i at one slot, zero elsewhere) at the boundary positions, last slot and middle slot included
fn big_msgs(scheme: Scheme, t: u64, deg: usize) -> Vec<(String, Vec<i64>)> {
    let nslots = if scheme == Scheme::CKKS { deg / 2 } else { deg };
    let mut units: BTreeSet<usize> = SLOT_BOUNDARIES.iter().cloned().filter(|&k| k < nslots).collect();
    units.insert(nslots - 1);
    units.insert(nslots / 2);
    units.insert(nslots / 2 - 1);
    let mut v = vec![];
    if scheme == Scheme::CKKS {
        v.push(("ramp".to_string(), (0..nslots).flat_map(|i| [(i % 33) as i64 - 16, 16 - (i % 29) as i64]).collect()));
        v.push(("max".to_string(), (0..nslots).flat_map(|_| [-16i64, 16]).collect()));
        for k in units {
            let mut m = vec![0i64; 2 * k + 2];
            m[2 * k] = -16;
            m[2 * k + 1] = 16;
            v.push((format!("unit{k}"), m));
        }
    } else {
        v.push(("ramp".to_string(), (0..nslots).map(|i| 1 + (i as u64 % (t - 1)) as i64).collect()));
        v.push(("max".to_string(), vec![(t - 1) as i64; nslots]));
        for k in units {
            let mut m = vec![0i64; k + 1];
            m[k] = (t - 1) as i64;
            v.push((format!("unit{k}"), m));
        }
    }
    v
}

fn plain_cfg(proto: Proto, spec: &ParamSpec, parties: usize, msg: &[i64], level: usize) -> Cfg {
    Cfg { proto, spec: spec.clone(), parties, msg: msg.to_vec(), level, shares: ShareMode::Sampler, err: Noise::Real, tern: Noise::Real, chain: vec![] }
}

/// every protocol x every scheme x every total prime count in `totals` at degree `deg` (tiny), dense plaintext;
/// input level: first and last, and EVERY level of the chain when `all_levels` names the prime count
fn many_prime_cfgs(parties: usize, degs: &[usize], totals: &[usize], all_levels: &[usize]) -> Vec<Cfg> {
    let mut v = vec![];
    for &deg in degs {
        for &total in totals {
            for scheme in Scheme::all() {
                let spec = many_prime_spec(scheme, deg, total);
                let msg = msgs_for(scheme, spec.t.max(17), deg).remove(2);
                for proto in Proto::all() {
                    let max_level = total - 2;
                    let mut levels = vec![0usize];
                    if proto.has_cipher_input() {
                        if all_levels.contains(&total) {
                            levels = (0..=max_level).collect();
                        } else if max_level > 0 {
                            levels.push(max_level);
                        }
                    }
                    for level in levels {
                        v.push(plain_cfg(proto, &spec, parties, &msg, level));
                    }
                }
            }
        }
    }
    v
}

/// every protocol x every scheme at N=4, primes [30,35,40] bits, dense plaintext, first level, for each party count
fn many_party_cfgs(ns: &[usize]) -> Vec<Cfg> {
    let mut v = vec![];
    for &n in ns {
        for scheme in Scheme::all() {
            let spec = ParamSpec::new(scheme, 4, chain(4, &[30, 35, 40]), 17);
            let msg = msgs_for(scheme, 17, 4).remove(2);
            for proto in Proto::all() {
                v.push(plain_cfg(proto, &spec, n, &msg, 0));
            }
        }
    }
    v
}

/// large degrees: every protocol x every scheme x (degree, total primes) x the named structured plaintexts x {first, last level}
fn big_n_cfgs(parties: usize, sizes: &[(usize, usize)], plain: &dyn Fn(usize, usize, &str) -> bool, last_level: bool) -> Vec<Cfg> {
    let mut v = vec![];
    for &(deg, total) in sizes {
        for scheme in Scheme::all() {
            let spec = big_spec(scheme, deg, total);
            let msgs = big_msgs(scheme, spec.t.max(17), deg);
            for proto in Proto::all() {
                for (mi, (name, msg)) in msgs.iter().enumerate() {
                    if !plain(deg, if scheme == Scheme::CKKS { deg / 2 } else { deg }, name) || (mi > 0 && !proto.uses_message()) {
                        continue;
                    }
                    v.push(plain_cfg(proto, &spec, parties, msg, 0));
                    if last_level && mi == 0 && proto.has_cipher_input() && total > 2 {
                        v.push(plain_cfg(proto, &spec, parties, msg, total - 2));
                    }
                }
            }
        }
    }
    v
}

/// every ordered pair of protocols on the same participants at N=8 with `total` primes (the common tape is consumed in much
/// larger pieces: the relinearisation round draws total*(total-1)*N words)
fn many_prime_chain_cfgs(parties: usize, totals: &[usize]) -> Vec<Cfg> {
    let mut v = vec![];
    let protos = Proto::all();
    for &total in totals {
        for scheme in Scheme::all() {
            let spec = many_prime_spec(scheme, 8, total);
            let msg = msgs_for(scheme, 17, 8).remove(2);
            for a in protos {
                for b in protos {
                    if scheme == Scheme::BGV && (a == Proto::SharesToCipher || b == Proto::SharesToCipher) {
                        continue;
                    }
                    let mut c = plain_cfg(b, &spec, parties, &msg, 0);
                    c.chain = vec![a];
                    v.push(c);
                }
            }
        }
    }
    v
}

fn size_sections(cfg: &RunCfg) -> Vec<Box<dyn AnySection>> {
    let seed = cfg.seed;
    let th = cfg.thorough();
    let protos = "8 protocols x {BFV,BGV,CKKS} (shares->cipher/BGV is refused by the library and skipped)";
    let mut v: Vec<Box<dyn AnySection>> = vec![];
    let sec = |name: &str, bound: String, cfgs: Vec<Cfg>, mode: Mode, inner: bool, share: f64| -> Box<dyn AnySection> {
        Box::new(E5Section { name: name.to_string(), bound, cfgs, mode, seed, inner_parallel: inner, budget_share: share })
    };
    let all_totals: Vec<usize> = (2..=19).collect();
    // --- many primes, tiny degree ---------------------------------------------------------------
    {
        let degs: &[usize] = if th { &[4, 8] } else { &[4] };
        v.push(sec(
            "primes_n2",
            format!(
                "n=2, N in {degs:?}: EVERY total prime count 2..19 (1..18 data primes at the first level = 1..18 decomposition components of the relinearisation rounds; 8, 9, 16, 17 included), primes [30 x (k-1), 40] bits, t=17; {protos}; dense plaintext; input level first and last, and for the 19-prime chain EVERY level (18..1 primes at the level); ALL 2^2 delivered-sets per round = both delivery orders, every state probed at every party, every lattice edge executed"
            ),
            many_prime_cfgs(2, degs, &all_totals, &[19]),
            Mode::Lattice,
            false,
            0.3,
        ));
        let totals3: Vec<usize> = if th { all_totals.clone() } else { vec![5, 9, 10, 17, 18] };
        v.push(sec(
            "primes_n3",
            format!(
                "n=3, N in {degs:?}: total prime counts {totals3:?} (data primes / decomposition components = count-1), primes [30 x (k-1), 40] bits, t=17; {protos}; dense plaintext; input level first and last; ALL 2^6 delivered-sets per round (2^2 for cipher->shares), every state probed at every party, every lattice edge executed"
            ),
            many_prime_cfgs(3, degs, &totals3, &[]),
            Mode::Lattice,
            false,
            0.4,
        ));
        let ctot: &[usize] = if th { &[9, 10, 17, 18] } else { &[9] };
        v.push(sec(
            "primes_chained_n2",
            format!(
                "n=2, N=8, total prime counts {ctot:?}: EVERY ordered pair of the 8 protocols on the SAME Participant objects (common tape carried over; the relinearisation rounds draw k(k-1)N words from it) x {{BFV,BGV,CKKS}} (pairs with shares->cipher/BGV excluded); orders and probes as in chained_n2; last protocol judged"
            ),
            many_prime_chain_cfgs(2, ctot),
            Mode::Chain,
            false,
            0.3,
        ));
    }
    // --- many parties, tiny degree --------------------------------------------------------------
    {
        let sub_ns: &[usize] = &[16, 17, 33, 65];
        v.push(sec(
            "parties_boundary",
            format!(
                "n in {sub_ns:?} parties, N=4, primes [30,35,40] bits, t=17, dense plaintext, first level; {protos}; EXACTLY this family of delivery orders of the m = n(n-1) messages of a round (cipher->shares: m = n-1), the other round canonical: identity (sender-major) order, reverse order, and for every k in K = {{1,2,7,8,9,15,16,17,31,32,33,63,64}} below n: the rotation of the identity order that starts with the first message of sender k, and the transposition of the two adjacent deliveries across the boundary between senders k-1 and k — NOT all orders. Every order run to completion; every party probed after the prefixes of the identity and reverse orders of length 0, 1, 2, m-2, m-1 and k(n-1)-1, k(n-1), k(n-1)+1 for k in K (k completely delivered senders), after the first and the all-but-last delivery of every rotation run (all-but-one states: the last message of sender k-1 missing), after the later message of every transposed pair"
            ),
            many_party_cfgs(sub_ns),
            Mode::Family { full: false },
            true,
            0.6,
        ));
    }
    // --- large degree ---------------------------------------------------------------------------
    {
        let ladder: Vec<(usize, usize)> = if th { [16, 32, 64, 128, 256, 512, 1024, 2048, 4096, 8192].iter().map(|&d| (d, 3)).collect() } else { [16, 32, 64, 128, 256, 512, 1024].iter().map(|&d| (d, 3)).collect() };
        // (degree, slot count, name of the plaintext)
        let quick_plain = |deg: usize, ns: usize, name: &str| -> bool {
            name == "ramp" || (deg >= 128 && (name == "max" || name == "unit0" || name == format!("unit{}", ns - 1) || name == format!("unit{}", ns / 2 - 1) || name == format!("unit{}", ns / 2)))
        };
        let all_plain = |deg: usize, _ns: usize, name: &str| -> bool { deg >= 128 || name == "ramp" };
        v.push(sec(
            "bigN_n2",
            format!(
                "n=2, N in {:?} x 3 primes [54,54,60] bits, t = smallest prime = 1 mod 2N (>= 17); {protos}; structured plaintexts: ramp (slot i -> 1 + i mod (t-1)) at every N, first and last level; from N=128 on also all-(t-1) and unit slots ({}); ALL 2^2 delivered-sets per round = both delivery orders, every state probed, every edge executed; CKKS scale 2^48 from N=128 on",
                ladder.iter().map(|x| x.0).collect::<Vec<_>>(),
                if th { "value t-1 / -4+4i at ONE slot k, for every k in {0,1,7,8,9,..,2^j-1,2^j,2^j+1,..} below the slot count, the middle and the last slot" } else { "slots 0, middle-1, middle, last (thorough: all boundary slots)" }
            ),
            if th { big_n_cfgs(2, &ladder, &all_plain, true) } else { big_n_cfgs(2, &ladder, &quick_plain, true) },
            Mode::Lattice,
            false,
            0.5,
        ));
        let sizes3: Vec<(usize, usize)> = if th { vec![(128, 3), (1024, 3), (4096, 3)] } else { vec![(128, 3), (1024, 3)] };
        let ramp_only = |_deg: usize, _ns: usize, name: &str| -> bool { name == "ramp" };
        v.push(sec(
            "bigN_n3",
            format!(
                "n=3, N in {:?} x 3 primes [54,54,60] bits; {protos}; ramp plaintext, first level (thorough: and last level); ALL 2^6 delivered-sets per round (2^2 for cipher->shares), every state probed at every party, every lattice edge executed",
                sizes3.iter().map(|x| x.0).collect::<Vec<_>>()
            ),
            big_n_cfgs(3, &sizes3, &ramp_only, th),
            Mode::Lattice,
            false,
            0.6,
        ));
        let sizesp: Vec<(usize, usize)> = if th { vec![(1024, 9), (1024, 10), (1024, 17), (1024, 18), (4096, 9), (4096, 10)] } else { vec![(1024, 10)] };
        v.push(sec(
            "bigN_primes_n2",
            format!(
                "n=2, (N, total primes) in {sizesp:?}, primes [54 x (k-1), 60] bits (long chains over large degrees: 8/9/16/17 primes at the first level, 9/10/17/18 at the key level); {protos}; ramp plaintext, first and last level; ALL 2^2 delivered-sets per round = both delivery orders"
            ),
            big_n_cfgs(2, &sizesp, &ramp_only, true),
            Mode::Lattice,
            false,
            0.6,
        ));
    }
    // --- many parties, the complete stated family (last: by far the largest section of the thorough tier, n = 65 alone
    //     replays 560 k histories of up to 4160 deliveries) -----------------------------------------
    {
        let full_ns: &[usize] = if th { &[8, 9, 16, 17, 33, 65] } else { &[8, 9] };
        let parties_family = sec(
            "parties_family",
            format!(
                "n in {full_ns:?} parties (65 = one more than a machine word of senders), N=4, primes [30,35,40] bits, t=17, dense plaintext, first level; {protos}; EXACTLY this family of delivery orders of the m = n(n-1) messages of a round (cipher->shares: m = n-1), the other round canonical: identity (sender-major) order, reverse order, EVERY rotation of the identity order, EVERY single transposition of two adjacent deliveries of the identity order — NOT all orders. Every order is run to completion (final outputs byte-identical to the canonical run at every party); every party is probed (refusal with an incomplete inbox / canonical bytes with a complete one) after: every prefix of the identity and reverse orders when m <= 300, otherwise the prefixes of length 0, 1, 2, m-2, m-1 and k(n-1)-1, k(n-1), k(n-1)+1 for every k = 1..n; the first delivery and all-but-the-last delivery of every rotation (= EVERY all-but-one state and every single-message state); the state after the later message of every transposed pair. states = distinct probed delivered-sets"
            ),
            many_party_cfgs(full_ns),
            Mode::Family { full: true },
            true,
            1.0,
        );
        v.push(parties_family);
    }
    v
}

pub fn sections(cfg: &RunCfg) -> Vec<Box<dyn AnySection>> {
    let seed = cfg.seed;
    let th = cfg.thorough();
    let common = "8 protocols (public key, relin keys 2 rounds, secret-key revelation, decrypt, key switch, public-key switch, cipher->shares, shares->cipher) x {BFV,BGV,CKKS} x N=8";
    let mut v: Vec<Box<dyn AnySection>> = vec![];
    let lattice = |n: usize, reduced: bool, inner: bool, share: f64| -> Box<dyn AnySection> {
        let m = n * (n - 1);
        Box::new(E5Section {
            name: format!("lattice_n{n}"),
            bound: format!(
                "n={n}: ALL 2^{m} delivered-sets per round ({} for cipher->shares), every state probed at every party, every lattice edge executed; {common}; {}",
                format!("2^{}", n - 1),
                if reduced { "primes [30,35,40] bits, dense plaintext, first level + last level" } else { "primes [30,40],[30,35,40],[30,31,35,40] bits, t=17; plaintexts {0, all t-1, dense}; first and last level; share modes {library sampler, all-0, all-(t-1)}; thorough adds (ternary,error) scripts {(real,+21),(real,alternating),(all +1,+21)}" }
            ),
            cfgs: cfgs_for(n, cfg, reduced),
            mode: Mode::Lattice,
            seed,
            inner_parallel: inner,
            budget_share: share,
        })
    };
    let cover = |n: usize, share: f64| -> Box<dyn AnySection> {
        Box::new(E5Section {
            name: format!("cover_n{n}"),
            bound: format!(
                "n={n}: NON-EXHAUSTIVE covering family of delivery orders per round (canonical, reverse, every message last once, every message first once, every adjacent pair of the canonical order swapped), every prefix of the canonical and reverse orders and every all-but-one state probed; {common}; primes [30,35,40] bits, dense plaintext"
            ),
            cfgs: cfgs_for(n, cfg, true),
            mode: Mode::Cover,
            seed,
            inner_parallel: false,
            budget_share: share,
        })
    };
    let chained = |n: usize, share: f64| -> Box<dyn AnySection> {
        let lens: &[usize] = if th { &[2, 3] } else { &[2] };
        Box::new(E5Section {
            name: format!("chained_n{n}"),
            bound: format!(
                "n={n}: EVERY ordered {} of the 8 protocols (repetition allowed) run to completion one after the other on the SAME Participant objects (common random tape and private state carried over) x {{BFV,BGV,CKKS}}, primes [30,35,40] bits, dense plaintext, library share sampler; delivery orders: canonical, all rounds reversed, only the prefix reversed, only the last protocol reversed; in every round of the last protocol the empty and the all-but-one delivered sets are probed for refusal; the LAST protocol's outputs are judged with the oracles of the lattice sections (byte-identical keys, semantics under the summed key / target key, shares sum). Excluded: sequences containing shares_to_cipher under BGV (creation refused by the library). No protocol changes the participants' secret keys and update_secret_key is never called, so the summed key is the same at every step; key_switch / public_key_switch outputs are judged under their own target keys; inputs of every step are fresh encryptions of the plaintext (no data flow between steps)",
                if th { "pair and triple" } else { "pair" }
            ),
            cfgs: chain_cfgs(n, lens),
            mode: Mode::Chain,
            seed,
            inner_parallel: false,
            budget_share: share,
        })
    };
    if th {
        v.push(lattice(2, false, false, 0.1));
        v.push(lattice(3, false, false, 0.3));
        v.push(chained(2, 0.2));
        v.push(chained(3, 0.3));
        v.push(cover(5, 0.2));
        v.push(cover(6, 0.3));
        v.push(lattice(4, true, true, 0.5));
    } else {
        v.push(lattice(2, false, false, 0.2));
        v.push(lattice(3, false, false, 0.7));
        v.push(chained(2, 0.3));
        v.push(chained(3, 0.5));
        v.push(cover(5, 0.5));
        v.push(cover(6, 0.5));
    }
    v.extend(size_sections(cfg));
    v
}
