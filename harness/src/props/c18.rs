//! C18 — multiparty protocols agree across parties and message orders, keep plaintexts (engine E5).
//!
//! E5 = explicit-state breadth-first exploration over message DELIVERY ORDERS on the real protocol
//! objects of `src/multiparty/participant.rs`.
//!
//! * A *configuration* (`Cfg`) fixes protocol, scheme, explicit parameter set, number of parties,
//!   plaintext, input level, share mode and error script.
//! * A *state* of a configuration is (round, set of delivered (sender,receiver) messages of that
//!   round) — a bitmask over the protocol's message pairs; a *transition* delivers one pending
//!   message by calling the real `receive`.
//! * The live protocol objects borrow their `Participant` and `finish()` consumes them, so a state
//!   is materialised by REPLAYING a delivery history on fresh participants. This is deterministic:
//!   every entropy-consuming call of a party (Participant::new, protocol creation, step2) is
//!   preceded by `he::env(seed, h(cfg, phase, round, party))` (hook H1) and all parties share one
//!   common random tape seed.
//! * A configuration may carry a `chain` of protocols that are run to completion on the same
//!   `Participant` objects before its own protocol (sections `chained_n*`); the history then lists the
//!   rounds of the whole sequence and the state/observation/oracle machinery applies unchanged to the
//!   last protocol. This is what checks that the common random tape stays in step across protocols.
//! * The observation of a materialised state is, for every party, what `finish()` does (last
//!   round) or what `step2()` + `send_step2()` do (first round of the relinearisation protocol):
//!   refusal (panic) or the fingerprint of the produced bytes.
//!
//! Production-size sections (`size_sections`): the tiny-instance sections above never leave N = 8, <= 4 primes, <= 6 parties.
//! `primes_*` (1..18 RNS primes at the level / decomposition components, N = 4, 8), `parties_*` (8..65 parties along a stated
//! family of delivery orders, `Mode::Family`) and `bigN_*` (N = 16..8192, structured plaintexts, long chains at N >= 1024)
//! drive every dimension the protocol code loops over across the 8 / 16 / 64 / 1024 / 4096 boundaries with the same replay
//! machinery and the same oracles; their violation keys carry the prefix `primes:` / `parties:` / `bigN:`.
//!
//! History / value sections (`value_history_sections`, engine E1): `histories_n2/n3` run every sequence of three protocol steps
//! with DATA FLOW on the same participants (the current ciphertext goes through key switches whose new shares the parties ADOPT
//! with `update_secret_key`, through shares round trips and re-encryptions under the collective key) and judge every run under
//! the keys current at that point; `extreme_shares` puts residue vectors at the value boundaries of a modular sum (q-1-id, q-1,
//! 0/q-1, (q+-1)/2; 60-bit primes; 2..65 parties) into the key shares and — by solving the shares from two probe runs — into
//! every polynomial of every round message, and compares every aggregate with the u128 sum of what went over the wire.
use crate::engine::*;
use crate::he::*;
use heathcliff::multiparty::participant::*;
use heathcliff::multiparty::utils::{BFVShareSampler, BFVSimdShareEncoder};
use heathcliff::util::{BlakeRNG, PRNGSeed};
use heathcliff::*;
use num_complex::Complex;
use rand::{RngCore, SeedableRng};
use serde::{Deserialize, Serialize};
use serde_json::{json, Value};
use std::collections::{BTreeMap, BTreeSet, HashSet};
use std::sync::atomic::{AtomicUsize, Ordering};
use std::sync::{Arc, Mutex};
use std::time::Instant;

type C64 = Complex<f64>;

pub fn describe(rep: &Report) {
    rep.set_rule(
        "E5 explicit-state BFS over delivery orders on the real protocol objects. Configuration = protocol x scheme x explicit primes x party \
         count x plaintext x input level x share mode x error script. State = (round, bitmask of delivered (sender,receiver) messages); \
         transition = one real receive(). Every state is materialised by replaying its canonical (ascending) history on fresh, H1-seeded \
         participants and every party is probed: incomplete inbox => finish()/step2() must refuse, complete inbox => must return exactly the \
         bytes of the reference (canonical full order) run. Every lattice edge (state, pending message) is executed by two dedicated histories: \
         canon(state)+[m] probed at once (same delivered set reached through a different history must give the same observations) and \
         canon(state)+[m]+canon(rest)+later rounds, whose final outputs must be byte-identical to the reference at every party. The reference \
         final outputs are judged semantically with ordinary Encryptor/Decryptor/Evaluator objects under the harness-summed secret key \
         (component-wise sum of the NTT-form key residues modulo each prime). states = distinct (configuration, round, delivered-set) visited; \
         transitions = lattice edges (deliveries from a distinct state) executed; traces_validated_against_impl = histories replayed and \
         compared party by party. non-trivial = every history except the canonical complete one (non-canonical order or an incomplete inbox).",
    );
    rep.assume("production-size sections (keys prefixed primes: / parties: / bigN:): same machinery, same oracles. primes_n2/n3 + primes_chained_n2 drive the number of RNS primes (2..19 in total, i.e. 1..18 at the first level and 1..18 decomposition components of the relinearisation rounds) at N = 4, 8; parties_family / parties_boundary drive the party count (8, 9, 16, 17, 33, 65) along an explicitly stated family of delivery orders (identity, reverse, rotations, adjacent transpositions — never 'all orders'; delivered sets are kept as unbounded bit vectors there, the 64-bit masks are used by the lattices only); bigN_n2/n3 + bigN_primes_n2 drive the degree (16..1024, thorough ..8192) with structured plaintexts (ramp, all-maximal, unit slots at the 2^j-1, 2^j, 2^j+1 positions) and long chains (9..18 primes) at N >= 1024. The context of such a configuration is built once per explicit parameter set and shared between fixtures (immutable, a function of the parameters only)");
    rep.assume("CKKS scale: 2^min(30, ..) below N = 128 as before, 2^min(48, ..) from N = 128 on (primes >= 54 bits there), because the a-priori worst-case tolerance grows with N^2 for the relinearised product; the largest |error|/tolerance ratio is reported per section");
    rep.assume("chained sections: every ordered pair (thorough: and triple) of protocols is run to completion on the SAME Participant objects, so the common random tape and all private state are carried from one protocol into the next; only the last protocol's outputs are judged (same oracles), its expectation is the canonical-order run of the same chain; each step's input is a fresh encryption (no data flow between steps), update_secret_key is never called, hence the summed key is constant along a chain");
    rep.assume("histories_n2 / histories_n3 (engine E1, keys prefixed histories:): HISTORY-gated behaviour. The chained sections run protocols side by side (fresh input per step, nobody ever adopts a key-switch result); here the participants, their key shares and ONE current ciphertext are carried through every sequence of three steps: decrypt leaves the ciphertext; key_switch replaces it by its output and every party adopts its new share with update_secret_key (the only public way a share changes), so every later oracle is taken under the NEW sum; cipher_to_shares + shares_to_cipher replaces it by party 0's re-encryption of the shares and the expected plaintext by the sum of the shares; the collective public key is used to encrypt the next plaintext, which becomes the current ciphertext; public_key_switch always targets the same outside key. Every protocol run is judged by the semantic oracles of the lattice sections with the keys current at that point; CKKS tolerances add the a-priori noise of the hops (n error samples per key switch; n error samples + n encodings for a shares round trip). Each case loops over its delivery-order variants on fresh participants");
    rep.assume("extreme_shares (engine E1, keys prefixed extreme:): VALUE-gated behaviour. Every sum of n residues in src/multiparty goes through PolynomialRevelationProtocol::finish (branch over the coefficient moduli; the plain-modulus branch needs a polynomial with the all-zero parms id, which no protocol of Participant creates from a valid secret key — not driven), reached from every protocol's finish/step2. Honest ternary shares and uniform masks never put n near-maximal residues into one position, so the residues are forced there: update_secret_key accepts any residue vector, and each polynomial of a round message is an affine function A*s_i + B_i (position-wise in the NTT domain) of the sender's share s_i, with A, B_i measured by two probe runs of the same deterministic (H1-reseeded) configuration; the solved shares put the pattern into that polynomial of EVERY party's message (relinearisation round 2: all parties but the last, the sum of the shares being held fixed; cipher_to_shares: all senders, party 0's own term never leaves it). The harness uses the library's NTT only to build these inputs; the oracle (sum of the exchanged polynomials in u128, one reduction) never does. With the three largest 60-bit primes the residues of 16 parties cannot reach 2^64, those of 17 maximal ones do");
    rep.assume("rounds are synchronous barriers: step2() is called by all parties after every round-1 message has been delivered (the API carries no round tag; delivering a round-2 message to a party still in round 1 is caller misuse and not explored)");
    rep.assume("each message is delivered at most once and unmodified (duplication, loss and corruption are not part of this property)");
    rep.assume("cipher_to_shares: only party 0 receives and only parties != 0 send (asserted by the code); non-aggregating parties have no inbox, their finish() is not subject to the refusal rule");
    rep.assume("shares_to_cipher: by design only the aggregating party 0 obtains the encryption of the sum; the other parties' outputs are recorded as observations and not judged");
    rep.assume("shares_to_cipher/CKKS: the fresh ciphertext carries scale 1.0 and add_plain demands equal scales, so the harness's share encoder labels its scale-2^k plaintexts with scale 1.0 and relabels the result (the only way to reach the is_ckks branch)");
    rep.assume("CKKS outputs are compared within an a-priori worst-case bound 2*N*(coefficient noise bound + n_encodings/2)/scale; BFV/BGV outputs exactly; parameter sets keep >= 5 bits of head-room under the same worst-case calculus (special prime is the largest prime)");
    rep.assume("input ciphertexts are produced by an ordinary KeyGenerator::from_sk(sum of secret keys) public key, so a defect of the public-key protocol cannot mask or fake a defect of the other protocols");
}

// ---------------------------------------------------------------------------------------------
// configuration
// ---------------------------------------------------------------------------------------------

#[derive(Serialize, Deserialize, Clone, Copy, Debug, PartialEq, Eq, Hash, PartialOrd, Ord)]
pub enum Proto {
    PublicKey,
    RelinKeys,
    RevealSk,
    Decrypt,
    KeySwitch,
    PubKeySwitch,
    CipherToShares,
    SharesToCipher,
}

impl Proto {
    pub fn all() -> [Proto; 8] {
        [Proto::PublicKey, Proto::RelinKeys, Proto::RevealSk, Proto::Decrypt, Proto::KeySwitch, Proto::PubKeySwitch, Proto::CipherToShares, Proto::SharesToCipher]
    }
    fn rounds(self) -> usize {
        if self == Proto::RelinKeys {
            2
        } else {
            1
        }
    }
    fn has_cipher_input(self) -> bool {
        matches!(self, Proto::Decrypt | Proto::KeySwitch | Proto::PubKeySwitch | Proto::CipherToShares)
    }
    fn uses_message(self) -> bool {
        self.has_cipher_input() || self == Proto::SharesToCipher
    }
    /// (sender, receiver) pairs of one round, in canonical order
    fn edges(self, n: usize) -> Vec<(usize, usize)> {
        let mut v = vec![];
        for s in 0..n {
            for r in 0..n {
                if s == r {
                    continue;
                }
                if self == Proto::CipherToShares && (r != 0 || s == 0) {
                    continue;
                }
                v.push((s, r));
            }
        }
        v
    }
    fn name(self) -> &'static str {
        match self {
            Proto::PublicKey => "public_key",
            Proto::RelinKeys => "relin_keys",
            Proto::RevealSk => "reveal_sk",
            Proto::Decrypt => "decrypt",
            Proto::KeySwitch => "key_switch",
            Proto::PubKeySwitch => "public_key_switch",
            Proto::CipherToShares => "cipher_to_shares",
            Proto::SharesToCipher => "shares_to_cipher",
        }
    }
}

#[derive(Serialize, Deserialize, Clone, Copy, Debug, PartialEq, Eq, Hash)]
pub enum ShareMode {
    /// the library's BFVShareSampler (BFV/BGV) / a grid sampler driven by the protocol's own generator (CKKS)
    Sampler,
    /// every non-aggregating party's share is the all-zero vector
    FixedZero,
    /// every non-aggregating party's share is all t-1 (a value the library's sampler never produces)
    FixedMax,
}

#[derive(Serialize, Deserialize, Clone, Debug, PartialEq, Eq, Hash)]
pub struct Cfg {
    pub proto: Proto,
    pub spec: ParamSpec,
    pub parties: usize,
    /// BFV/BGV: slot values (mod t), padded with zeros to N slots. CKKS: 2 entries per slot, value = (re + i*im)/4.
    pub msg: Vec<i64>,
    /// number of mod_switch_to_next applied to the input ciphertext
    pub level: usize,
    pub shares: ShareMode,
    /// script of the error samples (hook H2)
    pub err: Noise,
    /// script of the ternary samples (secret keys, u); AllMax makes every party's key the all-ones polynomial
    #[serde(default = "noise_real")]
    pub tern: Noise,
    /// protocols run to completion, in this order, on the SAME Participant objects before `proto` (chained sections)
    #[serde(default, skip_serializing_if = "Vec::is_empty")]
    pub chain: Vec<Proto>,
}

fn noise_real() -> Noise {
    Noise::Real
}

impl Cfg {
    fn tag(&self) -> u64 {
        h64(&serde_json::to_string(self).unwrap_or_default())
    }
    fn shape(&self) -> String {
        let base = if self.chain.is_empty() {
            format!("{}:{:?}", self.proto.name(), self.spec.scheme)
        } else {
            format!("{}:{:?}:after[{}]", self.proto.name(), self.spec.scheme, self.chain.iter().map(|p| p.name()).collect::<Vec<_>>().join(">"))
        };
        format!("{}{}", self.size_class(), base)
    }
    /// key prefix of the production-size sections (derived from the configuration itself, so that a replayed case gives
    /// the same key); empty for everything the tiny-instance sections enumerate (N <= 8, <= 4 primes, <= 6 parties)
    fn size_class(&self) -> &'static str {
        if self.parties > 6 {
            "parties:"
        } else if self.spec.n >= 16 {
            "bigN:"
        } else if self.spec.q.len() > 4 {
            "primes:"
        } else {
            ""
        }
    }
    /// the whole sequence of protocols run on the same participants
    fn seq(&self) -> Vec<Proto> {
        let mut v = self.chain.clone();
        v.push(self.proto);
        v
    }
    fn is_ckks(&self) -> bool {
        self.spec.scheme == Scheme::CKKS
    }
    /// the one combination whose creation is refused by the library as documented in its own checks
    fn expected_refusal(&self) -> bool {
        self.spec.scheme == Scheme::BGV && self.seq().contains(&Proto::SharesToCipher)
    }
}

// ---------------------------------------------------------------------------------------------
// share samplers / encoders supplied by the harness (the traits are the library's extension point)
// ---------------------------------------------------------------------------------------------

struct FixedSampler {
    v: Vec<u64>,
}
impl ShareSampler for FixedSampler {
    type Share = Vec<u64>;
    fn sample(&self, _prng: &mut BlakeRNG) -> Vec<u64> {
        self.v.clone()
    }
}

/// complex shares on the grid {-4, -3.75, .., 4}^2, driven by the generator the protocol hands in
struct CkSampler {
    slots: usize,
}
impl ShareSampler for CkSampler {
    type Share = Vec<C64>;
    fn sample(&self, prng: &mut BlakeRNG) -> Vec<C64> {
        (0..self.slots)
            .map(|_| {
                let a = (prng.next_u32() % 33) as f64 - 16.0;
                let b = (prng.next_u32() % 33) as f64 - 16.0;
                C64::new(a / 4.0, b / 4.0)
            })
            .collect()
    }
}

struct CkEnc {
    enc: CKKSEncoder,
    parms_id: ParmsID,
    scale: f64,
    /// scale written on the produced plaintext instead of the real one (shares_to_cipher)
    label: Option<f64>,
    slots: usize,
}
impl ShareEncoder for CkEnc {
    type Share = Vec<C64>;
    fn encode(&self, share: &Vec<C64>) -> Plaintext {
        let mut p = self.enc.encode_c64_array_new(share, Some(self.parms_id), self.scale);
        if let Some(l) = self.label {
            p.set_scale(l);
        }
        p
    }
    fn decode(&self, plaintext: &Plaintext) -> Vec<C64> {
        let mut p = plaintext.clone();
        p.set_scale(self.scale);
        let mut v = self.enc.decode_new(&p);
        v.truncate(self.slots);
        v
    }
}

// ---------------------------------------------------------------------------------------------
// fixture: everything of a configuration that does not depend on the delivery history
// ---------------------------------------------------------------------------------------------

struct Fixture {
    seed: u64,
    tag: u64,
    ctx: Arc<HeContext>,
    n: usize,
    nslots: usize,
    t: u64,
    /// message pairs of the LAST protocol of the sequence (the only one for unchained configurations)
    edges: Vec<(usize, usize)>,
    /// the sequence of protocols, their message pairs, and the global round table (protocol index, local round)
    seq: Vec<Proto>,
    seq_edges: Vec<Vec<(usize, usize)>>,
    rtab: Vec<(usize, usize)>,
    key_moduli: Vec<u64>,
    err: Noise,
    tern: Noise,
    /// secret keys of the parties as first created (every replay must reproduce them)
    sk_parts: Vec<Vec<u64>>,
    sk_sum: SecretKey,
    pk_sum: PublicKey,
    benc: Option<BatchEncoder>,
    bshare: Option<BFVSimdShareEncoder>,
    cenc: Option<CKKSEncoder>,
    scale: f64,
    msg_u: Vec<u64>,
    msg_c: Vec<C64>,
    cipher: Option<Ciphertext>,
    cipher_parms: ParmsID,
    new_sks: Vec<SecretKey>,
    new_sk_sum: Option<SecretKey>,
    target: Option<(PublicKey, SecretKey)>,
    shares_u: Vec<Vec<u64>>,
    shares_c: Vec<Vec<C64>>,
    /// largest |error|/tolerance seen in a CKKS comparison that passed (exposes a vacuous tolerance)
    ckks_ratio: std::cell::Cell<f64>,
    /// smallest invariant noise budget (bits) of a judged BFV/BGV output ciphertext
    min_budget: std::cell::Cell<i64>,
    /// coefficient noise the input ciphertext carries on top of a fresh public-key encryption (0 everywhere except in the
    /// `histories` section, where a ciphertext flows through key switches / a shares round trip before it is judged)
    extra_noise: std::cell::Cell<f64>,
}

fn sum_keys(parts: &[Vec<u64>], moduli: &[u64], n: usize) -> Vec<u64> {
    let mut out = vec![0u64; moduli.len() * n];
    for p in parts {
        for (j, &q) in moduli.iter().enumerate() {
            for i in 0..n {
                let k = j * n + i;
                out[k] = ((out[k] as u128 + p[k] as u128) % q as u128) as u64;
            }
        }
    }
    out
}

/// The context of a production-size configuration is built once per parameter set and shared by all fixtures (long chains
/// cost O(k^3) to expand, and lattice layers rebuild the fixture per worker); a context is immutable and a function of the
/// explicit parameters only, so a replayed case builds the same one. Tiny-instance sections build theirs per fixture as before.
fn shared_context(cfg: &Cfg) -> Arc<HeContext> {
    static CACHE: Mutex<BTreeMap<String, Arc<HeContext>>> = Mutex::new(BTreeMap::new());
    if cfg.size_class().is_empty() {
        return cfg.spec.context();
    }
    let key = serde_json::to_string(&cfg.spec).unwrap_or_default();
    if let Some(c) = CACHE.lock().unwrap().get(&key) {
        return c.clone();
    }
    let ctx = cfg.spec.context();
    CACHE.lock().unwrap().entry(key).or_insert(ctx).clone()
}

impl Fixture {
    fn reseed(&self, phase: &str, round: usize, party: usize) {
        env(self.seed, h64(&(self.tag, phase, round, party)), self.tern.mode(), self.err.mode());
    }
    fn edges_at(&self, gr: usize) -> &[(usize, usize)] {
        &self.seq_edges[self.rtab[gr].0]
    }
    fn total_rounds(&self) -> usize {
        self.rtab.len()
    }
    /// is global round `gr` the last round of its protocol (probe = finish) or not (probe = step2 + send)
    fn final_local(&self, gr: usize) -> bool {
        let (k, lr) = self.rtab[gr];
        lr + 1 == self.seq[k].rounds()
    }
    fn common_seed(&self) -> PRNGSeed {
        let mut s = [0u8; 64];
        for k in 0..8 {
            s[k * 8..k * 8 + 8].copy_from_slice(&h64(&(self.seed, self.tag, "common-tape", k)).to_le_bytes());
        }
        PRNGSeed(s)
    }
    fn new_party(&self, p: usize) -> Participant {
        self.reseed("party", 0, p);
        Participant::new(self.n, p, self.ctx.clone(), BlakeRNG::from_seed(self.common_seed()))
    }
    fn ck_enc(&self, label: Option<f64>) -> CkEnc {
        CkEnc { enc: CKKSEncoder::new(self.ctx.clone()), parms_id: self.cipher_parms, scale: self.scale, label, slots: self.nslots }
    }
    fn plain_of(&self, cfg: &Cfg, mu: &[u64], mc: &[C64]) -> Plaintext {
        if cfg.is_ckks() {
            self.cenc.as_ref().unwrap().encode_c64_array_new(mc, None, self.scale)
        } else {
            self.benc.as_ref().unwrap().encode_new(mu)
        }
    }

    fn build(cfg: &Cfg, seed: u64) -> Result<Fixture, String> {
        let ctx = shared_context(cfg);
        if !ctx.parameters_set() {
            return Err("parameters not set".into());
        }
        let n = cfg.parties;
        let deg = cfg.spec.n;
        let ckks = cfg.is_ckks();
        let nslots = if ckks { deg / 2 } else { deg };
        let first = ctx.first_context_data().unwrap();
        // level of the input
        let mut cd = first.clone();
        for _ in 0..cfg.level {
            cd = cd.next_context_data().ok_or_else(|| "level beyond the chain".to_string())?;
        }
        let cipher_parms = *cd.parms_id();
        let low_bits: u32 = cd.parms().coeff_modulus().iter().map(|m| 64 - m.value().leading_zeros()).sum();
        let first_bits: u32 = first.parms().coeff_modulus().iter().map(|m| 64 - m.value().leading_zeros()).sum();
        // CKKS scale: products (relinearisation check) must fit the first level, plain values the lowest level used
        // the a-priori worst-case calculus grows with N^2 (product) resp. N (fresh noise): from N = 128 on a larger scale keeps the
        // tolerance far below the plaintext values (the parameter sets of the bigN sections have >= 54-bit primes)
        let cap: i64 = if deg >= 128 { 48 } else { 30 };
        let scale_bits = if cfg.seq().contains(&Proto::RelinKeys) { ((first_bits as i64 - 7) / 2).min(cap) } else { (low_bits as i64 - 8).min(cap) };
        let scale = (2.0f64).powi(scale_bits as i32);
        let t = cfg.spec.t;
        let mut msg_u = vec![0u64; nslots];
        let mut msg_c = vec![C64::new(0.0, 0.0); nslots];
        if ckks {
            for k in 0..nslots {
                let re = cfg.msg.get(2 * k).copied().unwrap_or(0) as f64 / 4.0;
                let im = cfg.msg.get(2 * k + 1).copied().unwrap_or(0) as f64 / 4.0;
                msg_c[k] = C64::new(re, im);
            }
        } else {
            for k in 0..nslots {
                msg_u[k] = cfg.msg.get(k).copied().unwrap_or(0).rem_euclid(t as i64) as u64;
            }
        }
        let key_moduli: Vec<u64> = ctx.key_context_data().unwrap().parms().coeff_modulus().iter().map(|m| m.value()).collect();
        let mut fx = Fixture {
            seed,
            tag: cfg.tag(),
            ctx: ctx.clone(),
            n,
            nslots,
            t,
            edges: cfg.proto.edges(n),
            seq: cfg.seq(),
            seq_edges: cfg.seq().iter().map(|p| p.edges(n)).collect(),
            rtab: cfg.seq().iter().enumerate().flat_map(|(k, p)| (0..p.rounds()).map(move |lr| (k, lr))).collect(),
            key_moduli,
            err: cfg.err,
            tern: cfg.tern,
            sk_parts: vec![],
            sk_sum: SecretKey::default(),
            pk_sum: PublicKey::default(),
            benc: if ckks { None } else { Some(BatchEncoder::new(ctx.clone())) },
            bshare: if ckks { None } else { Some(BFVSimdShareEncoder::new(ctx.clone())) },
            cenc: if ckks { Some(CKKSEncoder::new(ctx.clone())) } else { None },
            scale,
            msg_u,
            msg_c,
            cipher: None,
            cipher_parms,
            new_sks: vec![],
            new_sk_sum: None,
            target: None,
            shares_u: vec![],
            shares_c: vec![],
            ckks_ratio: std::cell::Cell::new(0.0),
            min_budget: std::cell::Cell::new(i64::MAX),
            extra_noise: std::cell::Cell::new(0.0),
        };
        // the parties' secret keys and their sum
        let mut proto_sk = None;
        for p in 0..n {
            let party = fx.new_party(p);
            fx.sk_parts.push(party.secret_key().data().clone());
            if proto_sk.is_none() {
                proto_sk = Some(party.secret_key().clone());
            }
        }
        let mut sk_sum = proto_sk.unwrap();
        let summed = sum_keys(&fx.sk_parts, &fx.key_moduli, deg);
        sk_sum.data_mut().copy_from_slice(&summed);
        fx.sk_sum = sk_sum.clone();
        fx.reseed("fx-pk", 0, 0);
        fx.pk_sum = KeyGenerator::from_sk(ctx.clone(), sk_sum.clone()).create_public_key(false);
        let seq = cfg.seq();
        if seq.iter().any(|p| p.has_cipher_input()) {
            fx.reseed("fx-ct", 0, 0);
            let enc = Encryptor::new(ctx.clone()).set_public_key(fx.pk_sum.clone());
            let mut ct = enc.encrypt_new(&fx.plain_of(cfg, &fx.msg_u, &fx.msg_c));
            let ev = Evaluator::new(ctx.clone());
            for _ in 0..cfg.level {
                ev.mod_switch_to_next_inplace(&mut ct);
            }
            fx.cipher = Some(ct);
        }
        if seq.contains(&Proto::KeySwitch) {
            let mut parts = vec![];
            for p in 0..n {
                fx.reseed("fx-newsk", 0, p);
                let sk = KeyGenerator::new(ctx.clone()).secret_key().clone();
                parts.push(sk.data().clone());
                fx.new_sks.push(sk);
            }
            let mut s = fx.new_sks[0].clone();
            s.data_mut().copy_from_slice(&sum_keys(&parts, &fx.key_moduli, deg));
            fx.new_sk_sum = Some(s);
        }
        if seq.contains(&Proto::PubKeySwitch) {
            fx.reseed("fx-target", 0, 0);
            let kg = KeyGenerator::new(ctx.clone());
            fx.target = Some((kg.create_public_key(false), kg.secret_key().clone()));
        }
        if seq.contains(&Proto::SharesToCipher) {
            for p in 0..n {
                if ckks {
                    fx.shares_c.push((0..nslots).map(|k| fx.msg_c[(k + p) % nslots] * C64::new(1.0, 0.0) + C64::new(p as f64 / 4.0, -(p as f64) / 2.0)).collect());
                } else {
                    fx.shares_u.push((0..nslots).map(|k| (fx.msg_u[(k + p) % nslots] + p as u64) % t).collect());
                }
            }
        }
        Ok(fx)
    }
}

// ---------------------------------------------------------------------------------------------
// live protocol objects
// ---------------------------------------------------------------------------------------------

enum Obj<'a> {
    Pk(PublicKeyGenerationProtocol<'a>),
    Rlk(RelinKeysGenerationProtocol<'a>, usize),
    Sk(SecretKeyRevelationProtocol<'a>),
    Dec(DecryptionProtocol<'a>),
    Ks(KeySwitchProtocol<'a>),
    Pks(PublicKeySwitchProtocol<'a>),
    C2sU(CipherToSharesProtocol<'a, Vec<u64>>),
    C2sC(CipherToSharesProtocol<'a, Vec<C64>>),
}

#[derive(Clone)]
enum Out {
    Pk(PublicKey),
    Rlk(RelinKeys),
    Sk(SecretKey),
    Pt(Plaintext),
    Ct(Ciphertext),
    ShU(Vec<u64>),
    ShC(Vec<C64>),
}

fn fp_kswitch(k: &KSwitchKeys) -> u64 {
    let mut h = h64(&(k.parms_id(), k.data().len()));
    for (i, v) in k.data().iter().enumerate() {
        for pk in v {
            h = h64(&(h, i, ct_fingerprint(pk.as_ciphertext())));
        }
    }
    h
}

impl Out {
    fn fp(&self) -> u64 {
        match self {
            Out::Pk(p) => h64(&(1u8, ct_fingerprint(p.as_ciphertext()))),
            Out::Rlk(r) => h64(&(2u8, fp_kswitch(r.as_kswitch_keys()))),
            Out::Sk(s) => h64(&(3u8, s.data().as_slice(), s.parms_id())),
            Out::Pt(p) => h64(&(4u8, pt_fingerprint(p))),
            Out::Ct(c) => h64(&(5u8, ct_fingerprint(c))),
            Out::ShU(v) => h64(&(6u8, v.as_slice())),
            Out::ShC(v) => h64(&(7u8, v.iter().map(|z| (z.re.to_bits(), z.im.to_bits())).collect::<Vec<_>>())),
        }
    }
}

fn create<'a>(cfg: &Cfg, proto: Proto, fx: &Fixture, p: usize, party: &'a mut Participant) -> Obj<'a> {
    match proto {
        Proto::PublicKey => Obj::Pk(party.generate_public_key()),
        Proto::RelinKeys => Obj::Rlk(party.generate_relin_keys(), 0),
        Proto::RevealSk => Obj::Sk(party.reveal_secret_key()),
        Proto::Decrypt => Obj::Dec(party.decrypt(fx.cipher.as_ref().unwrap())),
        Proto::KeySwitch => Obj::Ks(party.key_switch(fx.cipher.as_ref().unwrap(), &fx.new_sks[p])),
        Proto::PubKeySwitch => Obj::Pks(party.public_key_switch(fx.cipher.as_ref().unwrap(), &fx.target.as_ref().unwrap().0)),
        Proto::CipherToShares => {
            let ct = fx.cipher.as_ref().unwrap().clone();
            if cfg.is_ckks() {
                Obj::C2sC(party.cipher_to_shares(ct, &CkSampler { slots: fx.nslots }, &fx.ck_enc(None)))
            } else {
                let enc = fx.bshare.as_ref().unwrap();
                match cfg.shares {
                    ShareMode::Sampler => Obj::C2sU(party.cipher_to_shares(ct, &BFVShareSampler::new(fx.ctx.clone()), enc)),
                    ShareMode::FixedZero => Obj::C2sU(party.cipher_to_shares(ct, &FixedSampler { v: vec![0; fx.nslots] }, enc)),
                    ShareMode::FixedMax => Obj::C2sU(party.cipher_to_shares(ct, &FixedSampler { v: vec![fx.t - 1; fx.nslots] }, enc)),
                }
            }
        }
        Proto::SharesToCipher => {
            if cfg.is_ckks() {
                Obj::Ks(party.shares_to_cipher(&fx.shares_c[p], &fx.ck_enc(Some(1.0))))
            } else {
                Obj::Ks(party.shares_to_cipher(&fx.shares_u[p], fx.bshare.as_ref().unwrap()))
            }
        }
    }
}

impl<'a> Obj<'a> {
    fn send(&self, v: &mut Vec<u8>) -> std::io::Result<()> {
        match self {
            Obj::Pk(p) => p.send(v),
            Obj::Rlk(p, 0) => p.send_step1(v),
            Obj::Rlk(p, _) => p.send_step2(v),
            Obj::Sk(p) => p.send(v),
            Obj::Dec(p) => p.send(v),
            Obj::Ks(p) => p.send(v),
            Obj::Pks(p) => p.send(v),
            Obj::C2sU(p) => p.send(v),
            Obj::C2sC(p) => p.send(v),
        }
    }
    /// returns the number of bytes of the message left unread
    fn receive(&mut self, s: usize, bytes: &[u8]) -> std::io::Result<usize> {
        let mut b = bytes;
        match self {
            Obj::Pk(p) => p.receive(s, &mut b),
            Obj::Rlk(p, 0) => p.receive_step1(s, &mut b),
            Obj::Rlk(p, _) => p.receive_step2(s, &mut b),
            Obj::Sk(p) => p.receive(s, &mut b),
            Obj::Dec(p) => p.receive(s, &mut b),
            Obj::Ks(p) => p.receive(s, &mut b),
            Obj::Pks(p) => p.receive(s, &mut b),
            Obj::C2sU(p) => p.receive(s, &mut b),
            Obj::C2sC(p) => p.receive(s, &mut b),
        }?;
        Ok(b.len())
    }
    fn advance(&mut self) {
        if let Obj::Rlk(p, r) = self {
            p.step2();
            *r += 1;
        }
    }
    fn finish(self, fx: &Fixture) -> Out {
        match self {
            Obj::Pk(p) => Out::Pk(p.finish()),
            Obj::Rlk(p, _) => Out::Rlk(p.finish()),
            Obj::Sk(p) => Out::Sk(p.finish()),
            Obj::Dec(p) => Out::Pt(p.finish()),
            Obj::Ks(p) => Out::Ct(p.finish()),
            Obj::Pks(p) => Out::Ct(p.finish()),
            Obj::C2sU(p) => Out::ShU(p.finish(fx.bshare.as_ref().unwrap())),
            Obj::C2sC(p) => Out::ShC(p.finish(&fx.ck_enc(None))),
        }
    }
}

// ---------------------------------------------------------------------------------------------
// replaying one history
// ---------------------------------------------------------------------------------------------

struct RunOut {
    /// per party: fingerprint of what the probe returned, or the panic message
    obs: Vec<Result<u64, String>>,
    outs: Vec<Option<Out>>,
    receives: u64,
    leftover: usize,
}

enum RunErr {
    /// protocol creation refused with an [Invalid argument] panic
    Refused(String),
    Fail(Fail),
}

fn mkfail(cfg: &Cfg, what: &str, expected: impl Into<String>, observed: impl Into<String>) -> Fail {
    Fail { key: format!("{}:{}", cfg.shape(), what), expected: expected.into(), observed: observed.into() }
}

/// `hist[r]` = edge indices delivered in round r, in order; all rounds but the last listed one must be complete.
/// After the history every party is probed (finish in the last protocol round, step2+send otherwise).
fn run(cfg: &Cfg, fx: &Fixture, hist: &[Vec<usize>]) -> Result<RunOut, RunErr> {
    let n = cfg.parties;
    let mut parties: Vec<Participant> = Vec::with_capacity(n);
    for p in 0..n {
        match guard(|| fx.new_party(p)) {
            Ok(pt) => parties.push(pt),
            Err(e) => return Err(RunErr::Fail(mkfail(cfg, &format!("participant-new:panic:{}", panic_class(&e)), "Participant::new succeeds", e))),
        }
        if parties[p].secret_key().data() != &fx.sk_parts[p] {
            return Err(RunErr::Fail(mkfail(cfg, "harness:replay-not-deterministic", "a replayed participant has the secret key of the first creation", format!("party {p} differs"))));
        }
    }
    let mut receives = 0u64;
    let mut leftover = 0usize;
    let mut gr = 0usize;
    for (k, &proto) in fx.seq.iter().enumerate() {
        let mut objs: Vec<Option<Obj>> = Vec::with_capacity(n);
        for (p, party) in parties.iter_mut().enumerate() {
            fx.reseed("proto", k, p);
            match guard(|| create(cfg, proto, fx, p, party)) {
                Ok(o) => objs.push(Some(o)),
                Err(e) => {
                    if e.contains("[Invalid argument]") {
                        return Err(RunErr::Refused(e));
                    }
                    return Err(RunErr::Fail(mkfail(cfg, &format!("create:{}:panic:{}", proto.name(), panic_class(&e)), format!("party {p} can start {}", proto.name()), e)));
                }
            }
        }
        let edges = &fx.seq_edges[k];
        let senders: BTreeSet<usize> = edges.iter().map(|e| e.0).collect();
        for lr in 0..proto.rounds() {
            let r = gr;
            let mut msgs: Vec<Option<Vec<u8>>> = vec![None; n];
            for &s in &senders {
                let mut v = vec![];
                match guard(|| objs[s].as_ref().unwrap().send(&mut v)) {
                    Ok(Ok(())) => {}
                    Ok(Err(e)) => return Err(RunErr::Fail(mkfail(cfg, "send:io-error", format!("party {s} can serialise its round-{r} message"), e.to_string()))),
                    Err(e) => return Err(RunErr::Fail(mkfail(cfg, &format!("send:panic:{}", panic_class(&e)), format!("party {s} can serialise its round-{r} message"), e))),
                }
                msgs[s] = Some(v);
            }
            // A party may put its round message on the wire at any moment before the first delivery of it, i.e. also AFTER
            // messages of the same round have reached it: the message is produced again, as late as the history allows, and
            // that is what gets delivered (for a party whose message is a function of its own state the bytes are the same;
            // seeded change C18-I folded received shares into the value `send` serialises).
            let mut late = vec![false; n];
            for &e in &hist[r] {
                let (s, rcv) = edges[e];
                if !late[s] {
                    late[s] = true;
                    let mut v = vec![];
                    match guard(|| objs[s].as_ref().unwrap().send(&mut v)) {
                        Ok(Ok(())) => msgs[s] = Some(v),
                        Ok(Err(e)) => return Err(RunErr::Fail(mkfail(cfg, "send:io-error", format!("party {s} can serialise its round-{r} message after receiving"), e.to_string()))),
                        Err(e) => return Err(RunErr::Fail(mkfail(cfg, &format!("send:panic:{}", panic_class(&e)), format!("party {s} can serialise its round-{r} message after receiving"), e))),
                    }
                }
                let bytes = msgs[s].as_ref().unwrap();
                match guard(|| objs[rcv].as_mut().unwrap().receive(s, bytes)) {
                    Ok(Ok(left)) => leftover = leftover.max(left),
                    Ok(Err(er)) => return Err(RunErr::Fail(mkfail(cfg, "receive:io-error", format!("party {rcv} accepts the round-{r} message of party {s}"), er.to_string()))),
                    Err(er) => return Err(RunErr::Fail(mkfail(cfg, &format!("receive:panic:{}", panic_class(&er)), format!("party {rcv} accepts the round-{r} message of party {s}"), er))),
                }
                receives += 1;
            }
            let final_local = lr + 1 == proto.rounds();
            if r + 1 == hist.len() {
                // probe: the history ends here
                let mut obs = vec![];
                let mut outs = vec![];
                for p in 0..n {
                    let o = objs[p].take().unwrap();
                    if final_local {
                        match guard(|| o.finish(fx)) {
                            Ok(out) => {
                                obs.push(Ok(out.fp()));
                                outs.push(Some(out));
                            }
                            Err(e) => {
                                obs.push(Err(e));
                                outs.push(None);
                            }
                        }
                    } else {
                        fx.reseed("advance", r, p);
                        let mut o = o;
                        let res = guard(|| {
                            o.advance();
                            let mut v = vec![];
                            o.send(&mut v).map(|_| v)
                        });
                        match res {
                            Ok(Ok(v)) => obs.push(Ok(h64(&v))),
                            Ok(Err(e)) => obs.push(Err(format!("io error: {e}"))),
                            Err(e) => obs.push(Err(e)),
                        }
                        outs.push(None);
                    }
                }
                return Ok(RunOut { obs, outs, receives, leftover });
            }
            // a later round follows: this round must be complete
            for p in 0..n {
                if final_local {
                    // a protocol of the chain prefix runs to completion; its output is dropped
                    let o = objs[p].take().unwrap();
                    if let Err(e) = guard(|| o.finish(fx)) {
                        return Err(RunErr::Fail(mkfail(cfg, &format!("finish:{}:complete-inbox-refused:{}", proto.name(), panic_class(&e)), format!("party {p} with a complete inbox finishes {}", proto.name()), e)));
                    }
                } else {
                    fx.reseed("advance", r, p);
                    if let Err(e) = guard(|| objs[p].as_mut().unwrap().advance()) {
                        return Err(RunErr::Fail(mkfail(cfg, &format!("step2:complete-inbox-refused:{}", panic_class(&e)), format!("party {p} with a complete round-{r} inbox can start round {}", r + 1), e)));
                    }
                }
            }
            gr += 1;
        }
    }
    Err(RunErr::Fail(mkfail(cfg, "harness:history-longer-than-the-protocol-sequence", "a history within the rounds of the sequence", format!("{} rounds listed", hist.len()))))
}

// ---------------------------------------------------------------------------------------------
// histories
// ---------------------------------------------------------------------------------------------

fn bits(mask: u64) -> Vec<usize> {
    (0..64).filter(|i| mask >> i & 1 == 1).collect()
}

fn mask_of(v: &[usize]) -> u64 {
    v.iter().fold(0u64, |m, &e| m | 1u64 << e)
}

fn hist_json(fx: &Fixture, hist: &[Vec<usize>]) -> Value {
    json!(hist.iter().enumerate().map(|(gr, r)| r.iter().map(|&e| vec![fx.edges_at(gr)[e].0, fx.edges_at(gr)[e].1]).collect::<Vec<_>>()).collect::<Vec<_>>())
}

/// history as text for expected/observed: complete when short, otherwise per round the number of deliveries with the first and last four
/// (the replay file always carries the complete history)
fn hist_text(fx: &Fixture, hist: &[Vec<usize>]) -> String {
    if hist.iter().map(|r| r.len()).sum::<usize>() <= 96 {
        return hist_json(fx, hist).to_string();
    }
    let rounds: Vec<String> = hist
        .iter()
        .enumerate()
        .map(|(gr, r)| {
            let pr = |e: &usize| format!("[{},{}]", fx.edges_at(gr)[*e].0, fx.edges_at(gr)[*e].1);
            if r.len() <= 8 {
                format!("[{}]", r.iter().map(pr).collect::<Vec<_>>().join(","))
            } else {
                format!("[{} deliveries: {},..,{}]", r.len(), r[..4].iter().map(pr).collect::<Vec<_>>().join(","), r[r.len() - 4..].iter().map(pr).collect::<Vec<_>>().join(","))
            }
        })
        .collect();
    format!("[{}] (complete history in the case)", rounds.join(","))
}

fn case_json(cfg: &Cfg, fx: &Fixture, hist: &[Vec<usize>]) -> Value {
    json!({"cfg": cfg, "hist": hist_json(fx, hist)})
}

/// reference observations: refs[r][p] = fingerprint party p shows when probed after the canonical complete rounds 0..=r
struct Refs {
    obs: Vec<Vec<u64>>,
    outs: Vec<Out>,
}

fn canonical(fx: &Fixture, rounds: usize) -> Vec<Vec<usize>> {
    (0..rounds).map(|gr| (0..fx.edges_at(gr).len()).collect()).collect()
}

enum RefErr {
    Skip(String),
    Fail(Value, Fail),
}

fn reference(cfg: &Cfg, fx: &Fixture) -> Result<Refs, RefErr> {
    let mut obs = vec![];
    let mut outs = vec![];
    let total = fx.total_rounds();
    for r in 0..total {
        let hist = canonical(fx, r + 1);
        let cj = case_json(cfg, fx, &hist);
        match run(cfg, fx, &hist) {
            Err(RunErr::Refused(e)) => {
                if cfg.expected_refusal() {
                    return Err(RefErr::Skip(format!("{} refuses the scheme: {}", cfg.shape(), panic_class(&e))));
                }
                return Err(RefErr::Fail(cj, mkfail(cfg, &format!("create:refused:{}", panic_class(&e)), "the protocol starts on a valid input of a scheme its code handles", e)));
            }
            Err(RunErr::Fail(f)) => return Err(RefErr::Fail(cj, f)),
            Ok(ro) => {
                let mut row = vec![];
                for (p, o) in ro.obs.iter().enumerate() {
                    match o {
                        Ok(h) => row.push(*h),
                        Err(e) => {
                            let op = if fx.final_local(r) { "finish" } else { "step2" };
                            return Err(RefErr::Fail(
                                cj,
                                mkfail(cfg, &format!("{op}:complete-inbox-refused:{}", panic_class(e)), format!("party {p} completes after receiving every other party's message"), e.clone()),
                            ));
                        }
                    }
                }
                obs.push(row);
                if r + 1 == total {
                    outs = ro.outs.into_iter().map(|o| o.unwrap()).collect();
                }
            }
        }
    }
    Ok(Refs { obs, outs })
}

/// `delivered[i]` = message pair i of round `gr` has been delivered (no bound on the number of pairs: n = 65 has 4160)
fn inbox_complete(fx: &Fixture, gr: usize, p: usize, delivered: &[bool]) -> bool {
    fx.edges_at(gr).iter().enumerate().all(|(i, e)| e.1 != p || delivered[i])
}

struct Judged {
    fails: Vec<Fail>,
    /// class of the observation (who refused / who completed)
    class: u64,
    receives: u64,
    refusal_classes: Vec<String>,
    leftover: usize,
}

/// Replay `hist` and compare every party's probe with the expectation derived from the reference.
fn judge_history(cfg: &Cfg, fx: &Fixture, refs: &Refs, hist: &[Vec<usize>]) -> Judged {
    let r = hist.len() - 1;
    let last = r + 1 == fx.total_rounds();
    let mut delivered = vec![false; fx.edges_at(r).len()];
    for &e in &hist[r] {
        delivered[e] = true;
    }
    let full = delivered.iter().all(|&d| d);
    let op = if fx.final_local(r) { "finish" } else { "step2" };
    let mut fails = vec![];
    let mut refusal_classes = vec![];
    match run(cfg, fx, hist) {
        Err(RunErr::Refused(e)) => {
            fails.push(mkfail(cfg, "create:refusal-depends-on-history", "creation does not depend on the delivery history", e));
            Judged { fails, class: 0, receives: 0, refusal_classes, leftover: 0 }
        }
        Err(RunErr::Fail(f)) => Judged { fails: vec![f], class: 1, receives: 0, refusal_classes, leftover: 0 },
        Ok(ro) => {
            let mut pattern = vec![];
            for p in 0..cfg.parties {
                let complete = inbox_complete(fx, r, p, &delivered);
                match (&ro.obs[p], complete) {
                    (Ok(h), true) => {
                        pattern.push(1u8);
                        if *h != refs.obs[r][p] {
                            let what = if full && last { "final-output-depends-on-delivery-order" } else { "state-not-canonical:output-depends-on-history" };
                            fails.push(mkfail(
                                cfg,
                                what,
                                format!("party {p} (inbox complete) returns the bytes of the canonical-order run"),
                                format!("different bytes after history {}", hist_text(fx, hist)),
                            ));
                        }
                    }
                    (Err(e), true) => {
                        pattern.push(2);
                        fails.push(mkfail(cfg, &format!("{op}:complete-inbox-refused:{}", panic_class(e)), format!("party {p} has received every message addressed to it and completes"), format!("{e}; history {}", hist_text(fx, hist))));
                    }
                    (Ok(_), false) => {
                        pattern.push(3);
                        fails.push(mkfail(
                            cfg,
                            &format!("{op}:incomplete-inbox-accepted"),
                            format!("party {p} has not received every other party's message and refuses"),
                            format!("returned a result after history {}", hist_text(fx, hist)),
                        ));
                    }
                    (Err(e), false) => {
                        pattern.push(0);
                        refusal_classes.push(panic_class(e));
                    }
                }
            }
            Judged { fails, class: h64(&(cfg.proto, cfg.spec.scheme, r, pattern)), receives: ro.receives, refusal_classes, leftover: ro.leftover }
        }
    }
}

// ---------------------------------------------------------------------------------------------
// semantic oracles on the reference outputs
// ---------------------------------------------------------------------------------------------

const E_MAX: f64 = 21.0;

struct Sem {
    fails: Vec<Fail>,
    observations: Vec<String>,
    steps: u64,
}

fn alphabet_u(t: u64, nslots: usize) -> Vec<Vec<u64>> {
    let dense: Vec<u64> = [1u64, 3, 5, 7, t - 1, 0, t / 2 + 1, 12].iter().cycle().take(nslots).map(|v| v % t).collect();
    vec![vec![0; nslots], vec![t - 1; nslots], dense]
}

fn alphabet_c(nslots: usize) -> Vec<Vec<C64>> {
    let dense: Vec<C64> = [C64::new(1.5, -2.0), C64::new(0.25, 3.0), C64::new(-4.0, 0.0), C64::new(0.0, 0.75)].iter().cycle().take(nslots).cloned().collect();
    vec![vec![C64::new(0.0, 0.0); nslots], vec![C64::new(-4.0, 4.0); nslots], dense]
}

fn msgs_for(scheme: Scheme, t: u64, deg: usize) -> Vec<Vec<i64>> {
    if scheme == Scheme::CKKS {
        alphabet_c(deg / 2).into_iter().map(|v| v.iter().flat_map(|z| [(z.re * 4.0) as i64, (z.im * 4.0) as i64]).collect()).collect()
    } else {
        alphabet_u(t, deg).into_iter().map(|v| v.iter().map(|&x| x as i64).collect()).collect()
    }
}

/// Ok(largest |difference| / tolerance)
fn close(a: &[C64], b: &[C64], tol: f64) -> Result<f64, String> {
    let mut worst = 0.0f64;
    for (k, (x, y)) in a.iter().zip(b).enumerate() {
        let d = (x - y).norm();
        if !(d <= tol) {
            return Err(format!("slot {k}: {x} vs expected {y} (|diff| {d:e} > tol {tol:e})"));
        }
        worst = worst.max(d / tol);
    }
    if a.len() < b.len() {
        return Err(format!("only {} slots", a.len()));
    }
    Ok(worst)
}

impl Fixture {
    fn fresh_bound(&self, level: usize) -> f64 {
        // public-key encryption at the key level, division by the special prime, `level` further switches
        let round = (1.0 + (self.ctx.first_context_data().unwrap().parms().poly_modulus_degree() * self.n) as f64) / 2.0;
        round * (1.0 + level as f64) + 2.0 + self.extra_noise.get()
    }
    fn tol(&self, coeff_bound: f64, encodings: f64, scale: f64) -> f64 {
        let deg = self.ctx.first_context_data().unwrap().parms().poly_modulus_degree() as f64;
        2.0 * deg * (coeff_bound + encodings / 2.0) / scale
    }
    fn decode_u(&self, p: &Plaintext) -> Vec<u64> {
        self.benc.as_ref().unwrap().decode_new(p)
    }
    fn decode_c(&self, p: &Plaintext) -> Vec<C64> {
        let mut v = self.cenc.as_ref().unwrap().decode_new(p);
        v.truncate(self.nslots);
        v
    }
    fn note_budget(&self, cfg: &Cfg, dec: &Decryptor, ct: &Ciphertext) {
        if !cfg.is_ckks() {
            if let Ok(b) = guard(|| dec.invariant_noise_budget(ct)) {
                self.min_budget.set(self.min_budget.get().min(b as i64));
            }
        }
    }
    /// compare a decrypted plaintext with the expected message
    fn cmp_plain(&self, cfg: &Cfg, p: &Plaintext, mu: &[u64], mc: &[C64], tol: f64) -> Result<(), String> {
        if cfg.is_ckks() {
            match guard(|| self.decode_c(p)) {
                Ok(v) => close(&v, mc, tol).map(|r| self.ckks_ratio.set(self.ckks_ratio.get().max(r))),
                Err(e) => Err(format!("decode panicked: {e}")),
            }
        } else {
            match guard(|| self.decode_u(p)) {
                Ok(v) => {
                    if v[..] == mu[..] {
                        Ok(())
                    } else {
                        Err(format!("slots {:?} vs expected {:?}", v, mu))
                    }
                }
                Err(e) => Err(format!("decode panicked: {e}")),
            }
        }
    }
}

fn semantic(cfg: &Cfg, fx: &Fixture, outs: &[Out]) -> Sem {
    let mut s = Sem { fails: vec![], observations: vec![], steps: 0 };
    let n = cfg.parties as f64;
    let deg = cfg.spec.n as f64;
    let ctx = fx.ctx.clone();
    let dec_sum = match guard(|| Decryptor::new(ctx.clone(), fx.sk_sum.clone())) {
        Ok(d) => d,
        Err(e) => {
            s.fails.push(mkfail(cfg, "harness:summed-key-rejected", "the component-wise sum of valid secret keys is a valid secret key", e));
            return s;
        }
    };
    let identical = |s: &mut Sem, what: &str| {
        for p in 1..outs.len() {
            s.steps += 1;
            if outs[p].fp() != outs[0].fp() {
                s.fails.push(mkfail(cfg, &format!("parties-disagree:{what}"), format!("party {p} derives the same {what} as party 0 (byte-identical)"), "different bytes"));
                break;
            }
        }
    };
    match cfg.proto {
        Proto::PublicKey => {
            identical(&mut s, "public-key");
            let Out::Pk(pk) = &outs[0] else { unreachable!() };
            let enc = Encryptor::new(ctx.clone()).set_public_key(pk.clone());
            let tol = fx.tol(fx.fresh_bound(0) + 1.0, 1.0, fx.scale);
            let (au, ac) = (alphabet_u(fx.t.max(2), fx.nslots), alphabet_c(fx.nslots));
            for k in 0..3 {
                fx.reseed("sem-pk", 0, k);
                let plain = fx.plain_of(cfg, &au[k], &ac[k]);
                s.steps += 1;
                match guard(|| {
                    let ct = enc.encrypt_new(&plain);
                    fx.note_budget(cfg, &dec_sum, &ct);
                    dec_sum.decrypt_new(&ct)
                }) {
                    Ok(p) => {
                        if let Err(e) = fx.cmp_plain(cfg, &p, &au[k], &ac[k], tol) {
                            s.fails.push(mkfail(cfg, "semantic:collective-public-key-does-not-match-summed-secret-key", "an encryption under the collective public key decrypts under the sum of the parties' secret keys", e));
                        }
                    }
                    Err(e) => s.fails.push(mkfail(cfg, &format!("semantic:collective-public-key-unusable:{}", panic_class(&e)), "Encryptor/Decryptor accept the collective key", e)),
                }
            }
        }
        Proto::RelinKeys => {
            identical(&mut s, "relin-keys");
            let Out::Rlk(rlk) = &outs[0] else { unreachable!() };
            let enc = Encryptor::new(ctx.clone()).set_public_key(fx.pk_sum.clone());
            let ev = Evaluator::new(ctx.clone());
            let (au, ac) = (alphabet_u(fx.t.max(2), fx.nslots), alphabet_c(fx.nslots));
            // worst-case coefficient noise of the product and of the key switch (see module report)
            let v = fx.fresh_bound(0) + 2.0 * deg * n * E_MAX / 1e6; // the divided encryption noise is far below 1
            let mmax = fx.scale * 4.0 * 2f64.sqrt();
            let e_rlk = 2.0 * n * n * deg * E_MAX + 2.0 * n * E_MAX;
            let k = (cfg.spec.q.len() - 1) as f64;
            let b_ks = k * deg * e_rlk + (1.0 + deg * n) / 2.0;
            let tol = fx.tol(2.0 * deg * mmax * v + deg * v * v + b_ks, 0.0, fx.scale * fx.scale) + fx.tol(0.0, 2.0 * mmax * deg, fx.scale * fx.scale);
            for (a, b) in [(2usize, 2usize), (2, 1), (1, 1), (0, 2)] {
                fx.reseed("sem-rlk", a, b);
                let (pa, pb) = (fx.plain_of(cfg, &au[a], &ac[a]), fx.plain_of(cfg, &au[b], &ac[b]));
                let eu: Vec<u64> = (0..fx.nslots).map(|i| ((au[a][i] as u128 * au[b][i] as u128) % fx.t.max(2) as u128) as u64).collect();
                let ecx: Vec<C64> = (0..fx.nslots).map(|i| ac[a][i] * ac[b][i]).collect();
                s.steps += 1;
                let prod = match guard(|| ev.multiply_new(&enc.encrypt_new(&pa), &enc.encrypt_new(&pb))) {
                    Ok(p) => p,
                    Err(e) => {
                        s.observations.push(format!("{}: control multiplication panicked ({}), relinearisation not judged", cfg.shape(), panic_class(&e)));
                        continue;
                    }
                };
                // control: the 3-term product must decrypt under the summed key, otherwise the parameter set cannot carry the check
                let ctrl = guard(|| dec_sum.decrypt_new(&prod)).map_err(|e| e.to_string()).and_then(|p| fx.cmp_plain(cfg, &p, &eu, &ecx, tol));
                if let Err(e) = ctrl {
                    s.observations.push(format!("{} {}: unrelinearised control product does not decrypt ({e}); relinearisation not judged for this pair", cfg.shape(), cfg.spec.label()));
                    continue;
                }
                match guard(|| {
                    let ct = ev.relinearize_new(&prod, rlk);
                    fx.note_budget(cfg, &dec_sum, &ct);
                    dec_sum.decrypt_new(&ct)
                }) {
                    Ok(p) => {
                        if let Err(e) = fx.cmp_plain(cfg, &p, &eu, &ecx, tol) {
                            s.fails.push(mkfail(cfg, "semantic:collective-relin-key-wrong", "a product relinearised with the collective key decrypts to the product under the summed secret key", e));
                        }
                    }
                    Err(e) => s.fails.push(mkfail(cfg, &format!("semantic:collective-relin-key-unusable:{}", panic_class(&e)), "Evaluator::relinearize accepts the collective key", e)),
                }
            }
        }
        Proto::RevealSk => {
            for (p, o) in outs.iter().enumerate() {
                let Out::Sk(sk) = o else { unreachable!() };
                s.steps += 1;
                if sk.data() != fx.sk_sum.data() {
                    s.fails.push(mkfail(cfg, "semantic:revealed-key-is-not-the-sum", format!("party {p} reveals the component-wise sum of the parties' keys"), "different residues"));
                    break;
                }
            }
        }
        Proto::Decrypt => {
            let tol = fx.tol(fx.fresh_bound(cfg.level) + n * E_MAX, 1.0, fx.scale);
            for (p, o) in outs.iter().enumerate() {
                let Out::Pt(pt) = o else { unreachable!() };
                s.steps += 1;
                if let Err(e) = fx.cmp_plain(cfg, pt, &fx.msg_u, &fx.msg_c, tol) {
                    s.fails.push(mkfail(cfg, "semantic:collective-decryption-wrong", format!("party {p} obtains the encrypted plaintext"), e));
                    break;
                }
            }
        }
        Proto::KeySwitch | Proto::PubKeySwitch => {
            let (target_sk, bound, what) = if cfg.proto == Proto::KeySwitch {
                (fx.new_sk_sum.clone().unwrap(), fx.fresh_bound(cfg.level) + n * E_MAX, "semantic:key-switch-output-does-not-decrypt-under-target-key")
            } else {
                (fx.target.as_ref().unwrap().1.clone(), fx.fresh_bound(cfg.level) + n * (E_MAX + 2.0 * deg * E_MAX), "semantic:public-key-switch-output-does-not-decrypt-under-target-key")
            };
            let tol = fx.tol(bound, 1.0, fx.scale);
            let dec_t = Decryptor::new(ctx.clone(), target_sk);
            for (p, o) in outs.iter().enumerate() {
                let Out::Ct(ct) = o else { unreachable!() };
                s.steps += 1;
                fx.note_budget(cfg, &dec_t, ct);
                match guard(|| dec_t.decrypt_new(ct)) {
                    Ok(pt) => {
                        if let Err(e) = fx.cmp_plain(cfg, &pt, &fx.msg_u, &fx.msg_c, tol) {
                            s.fails.push(mkfail(cfg, what, format!("party {p}'s output decrypts to the plaintext under the target key"), e));
                            break;
                        }
                    }
                    Err(e) => {
                        s.fails.push(mkfail(cfg, &format!("{what}:panic:{}", panic_class(&e)), format!("party {p}'s output is a valid ciphertext"), e));
                        break;
                    }
                }
            }
            // under the OLD key the output must no longer be the plaintext when the keys differ: not demanded by the statement, not checked
        }
        Proto::CipherToShares => {
            s.steps += 1;
            if cfg.is_ckks() {
                let mut sum = vec![C64::new(0.0, 0.0); fx.nslots];
                for o in outs {
                    let Out::ShC(v) = o else { unreachable!() };
                    for k in 0..fx.nslots {
                        sum[k] += v.get(k).copied().unwrap_or(C64::new(f64::NAN, 0.0));
                    }
                }
                let tol = fx.tol(fx.fresh_bound(cfg.level) + n * E_MAX, 1.0 + n, fx.scale);
                let r = close(&sum, &fx.msg_c, tol);
                if let Ok(r) = &r {
                    fx.ckks_ratio.set(fx.ckks_ratio.get().max(*r));
                }
                if let Err(e) = r {
                    s.fails.push(mkfail(cfg, "semantic:shares-do-not-sum-to-plaintext", "the parties' shares add up to the encrypted plaintext", e));
                }
            } else {
                let mut sum = vec![0u64; fx.nslots];
                let mut bad = None;
                for (p, o) in outs.iter().enumerate() {
                    let Out::ShU(v) = o else { unreachable!() };
                    if v.len() != fx.nslots || v.iter().any(|&x| x >= fx.t) {
                        bad = Some(format!("party {p} share {:?}", v));
                    }
                    for k in 0..fx.nslots.min(v.len()) {
                        sum[k] = (sum[k] + v[k] % fx.t) % fx.t;
                    }
                }
                if let Some(b) = bad {
                    s.fails.push(mkfail(cfg, "semantic:share-not-a-vector-mod-t", "every share is a length-N vector of residues mod t", b));
                } else if sum != fx.msg_u {
                    s.fails.push(mkfail(cfg, "semantic:shares-do-not-sum-to-plaintext", "the parties' shares add up (mod t) to the encrypted plaintext", format!("sum {:?} vs plaintext {:?}", sum, fx.msg_u)));
                }
            }
        }
        Proto::SharesToCipher => {
            let tol = fx.tol(n * E_MAX, n, fx.scale);
            let mut eu = vec![0u64; fx.nslots];
            let mut ec = vec![C64::new(0.0, 0.0); fx.nslots];
            for p in 0..cfg.parties {
                for k in 0..fx.nslots {
                    if cfg.is_ckks() {
                        ec[k] += fx.shares_c[p][k];
                    } else {
                        eu[k] = (eu[k] + fx.shares_u[p][k]) % fx.t;
                    }
                }
            }
            for (p, o) in outs.iter().enumerate() {
                let Out::Ct(ct) = o else { unreachable!() };
                let mut ct = ct.clone();
                if cfg.is_ckks() {
                    ct.set_scale(fx.scale);
                }
                // what the code implies for a non-aggregating party: sum + share_p - share_0
                let (mut xu, mut xc) = (eu.clone(), ec.clone());
                if p != 0 {
                    for k in 0..fx.nslots {
                        if cfg.is_ckks() {
                            xc[k] += fx.shares_c[p][k] - fx.shares_c[0][k];
                        } else {
                            xu[k] = (xu[k] + fx.shares_u[p][k] + fx.t - fx.shares_u[0][k]) % fx.t;
                        }
                    }
                }
                s.steps += 1;
                if p == 0 {
                    fx.note_budget(cfg, &dec_sum, &ct);
                }
                let res = guard(|| dec_sum.decrypt_new(&ct)).map_err(|e| format!("decrypt panicked: {e}"));
                if p == 0 {
                    match res.and_then(|pt| fx.cmp_plain(cfg, &pt, &eu, &ec, tol)) {
                        Ok(()) => {}
                        Err(e) => s.fails.push(mkfail(cfg, "semantic:shares-to-cipher-wrong-at-aggregator", "party 0's ciphertext decrypts (summed key) to the sum of the shares", e)),
                    }
                } else {
                    let sum_ok = res.clone().and_then(|pt| fx.cmp_plain(cfg, &pt, &eu, &ec, tol)).is_ok();
                    let implied_ok = res.and_then(|pt| fx.cmp_plain(cfg, &pt, &xu, &xc, tol * 2.0)).is_ok();
                    s.observations.push(format!(
                        "{}: non-aggregating party's output decrypts to the sum of shares: {}; to sum + own share - share_0 (what the code implies): {} [not judged]",
                        cfg.shape(),
                        sum_ok,
                        implied_ok
                    ));
                }
            }
        }
    }
    s
}

// ---------------------------------------------------------------------------------------------
// exploration of one configuration
// ---------------------------------------------------------------------------------------------

#[derive(Clone, Copy, PartialEq, Eq, Debug)]
pub enum Mode {
    /// every subset of the message pairs, breadth first
    Lattice,
    /// covering family of orders (non-exhaustive)
    Cover,
    /// a sequence of protocols on the same participants: canonical and reverse orders, refusal probes in the last protocol
    Chain,
    /// many parties: the stated family of delivery orders {identity, reverse, rotations, adjacent transpositions}
    /// (`full` = every rotation and every transposition, otherwise those at a sender boundary)
    Family { full: bool },
}

/// one delivery order of the m messages of a round
#[derive(Clone, Copy, Debug, PartialEq, Eq, Hash)]
enum Order {
    Identity,
    Reverse,
    /// identity order rotated left by r: r, r+1, .., m-1, 0, .., r-1
    Rot(usize),
    /// identity order with the deliveries at positions i and i+1 exchanged
    Swap(usize),
}

fn order_vec(o: Order, m: usize) -> Vec<usize> {
    match o {
        Order::Identity => (0..m).collect(),
        Order::Reverse => (0..m).rev().collect(),
        Order::Rot(r) => (0..m).map(|i| (i + r) % m).collect(),
        Order::Swap(i) => {
            let mut v: Vec<usize> = (0..m).collect();
            v.swap(i, i + 1);
            v
        }
    }
}

/// numbers k of completely delivered senders at which the sender-boundary sub-family cuts / rotates / transposes
const SENDER_BOUNDARIES: [usize; 14] = [1, 2, 7, 8, 9, 15, 16, 17, 31, 32, 33, 63, 64, 65];

/// prefix lengths of the identity / reverse order at which every party is probed when not every prefix is: 0, 1, 2, m-2, m-1 and
/// {k(n-1)-1, k(n-1), k(n-1)+1} for k senders completely delivered (sender-major order), k = 1..n (`all_senders`) or k in the
/// boundary set {1, 2, 7, 8, 9, 15, 16, 17, 31, 32, 33, 63, 64, 65}
fn boundary_cuts(m: usize, n: usize, all_senders: bool) -> Vec<usize> {
    let mut v: BTreeSet<usize> = BTreeSet::new();
    for c in [0usize, 1, 2, m.saturating_sub(2), m.saturating_sub(1)] {
        v.insert(c);
    }
    let block = if m == n - 1 { 1 } else { n - 1 };
    for k in 1..=n {
        if all_senders || SENDER_BOUNDARIES.contains(&k) {
            for c in [(k * block).saturating_sub(1), k * block, k * block + 1] {
                v.insert(c);
            }
        }
    }
    v.into_iter().filter(|&c| c < m).collect()
}

/// (order, None = complete run | Some(c) = every party probed after the first c deliveries)
fn family_jobs(m: usize, n: usize, full: bool) -> Vec<(Order, Option<usize>)> {
    let mut jobs = vec![];
    if m == 0 {
        return jobs;
    }
    for o in [Order::Identity, Order::Reverse] {
        jobs.push((o, None));
        let cuts: Vec<usize> = if full && m <= 300 { (0..m).collect() } else { boundary_cuts(m, n, full) };
        for c in cuts {
            jobs.push((o, Some(c)));
        }
    }
    // messages per sender in the canonical order (cipher->shares: one)
    let block = if m == n - 1 { 1 } else { n - 1 };
    let at_boundary = |pos: usize| pos % block == 0 && SENDER_BOUNDARIES.contains(&(pos / block));
    for r in 1..m {
        if full || at_boundary(r) {
            jobs.push((Order::Rot(r), None));
            jobs.push((Order::Rot(r), Some(1)));
            jobs.push((Order::Rot(r), Some(m - 1)));
        }
    }
    for i in 0..m.saturating_sub(1) {
        if full || at_boundary(i + 1) {
            jobs.push((Order::Swap(i), None));
            jobs.push((Order::Swap(i), Some(i + 1)));
        }
    }
    jobs
}

/// normal form of the delivered set of a probed state of the family (for counting distinct states)
fn family_state(o: Order, c: usize, m: usize) -> (u8, usize, usize) {
    if c == 0 {
        return (0, 0, 0);
    }
    if c >= m {
        return (0, 0, m);
    }
    match o {
        Order::Identity => (0, 0, c),
        Order::Reverse => (0, m - c, c),
        Order::Rot(r) => (0, r % m, c),
        Order::Swap(i) => {
            if c <= i || c >= i + 2 {
                (0, 0, c)
            } else if i == 0 {
                (0, 1, 1)
            } else if i == m - 2 {
                (0, m - 1, m - 1)
            } else {
                (1, i, c)
            }
        }
    }
}

#[derive(Default)]
struct Acc {
    states: u64,
    transitions: u64,
    histories: u64,
    receives: u64,
    sem_steps: u64,
    nontrivial: Vec<u64>,
    outcomes: HashSet<u64>,
    fails: BTreeMap<String, (Value, Fail, u64)>,
    refusal_classes: BTreeSet<String>,
    observations: BTreeSet<String>,
    skipped: Option<String>,
    capped: bool,
    max_leftover: usize,
    ckks_ratio: f64,
    min_budget: Option<i64>,
}

impl Acc {
    fn add_fail(&mut self, case: impl FnOnce() -> Value, f: Fail) {
        if let Some(e) = self.fails.get_mut(&f.key) {
            e.2 += 1;
        } else {
            self.fails.insert(f.key.clone(), (case(), f, 1));
        }
    }
    fn merge(&mut self, o: Acc) {
        self.states += o.states;
        self.transitions += o.transitions;
        self.histories += o.histories;
        self.receives += o.receives;
        self.sem_steps += o.sem_steps;
        self.nontrivial.extend(o.nontrivial);
        self.outcomes.extend(o.outcomes);
        for (k, (c, f, n)) in o.fails {
            if let Some(e) = self.fails.get_mut(&k) {
                e.2 += n;
            } else {
                self.fails.insert(k, (c, f, n));
            }
        }
        self.refusal_classes.extend(o.refusal_classes);
        self.observations.extend(o.observations);
        self.capped |= o.capped;
        self.max_leftover = self.max_leftover.max(o.max_leftover);
        self.ckks_ratio = self.ckks_ratio.max(o.ckks_ratio);
        self.min_budget = match (self.min_budget, o.min_budget) {
            (Some(a), Some(b)) => Some(a.min(b)),
            (a, b) => a.or(b),
        };
    }
    fn absorb(&mut self, cfg: &Cfg, fx: &Fixture, hist: &[Vec<usize>], j: Judged, canonical_full: bool) {
        self.histories += 1;
        self.receives += j.receives;
        self.outcomes.insert(j.class);
        self.max_leftover = self.max_leftover.max(j.leftover);
        if !canonical_full {
            self.nontrivial.push(h64(&(cfg.tag(), hist)));
        }
        for c in j.refusal_classes {
            self.refusal_classes.insert(c);
        }
        for f in j.fails {
            self.add_fail(|| case_json(cfg, fx, hist), f);
        }
    }
}

/// history reaching (round, canon(mask)++extra) with all earlier rounds canonical and, if `complete`, canonical completion to the end
fn make_hist(fx: &Fixture, rounds_total: usize, round: usize, mask: u64, extra: Option<usize>, complete: bool) -> Vec<Vec<usize>> {
    let m = fx.edges.len();
    let mut h: Vec<Vec<usize>> = (0..round).map(|_| (0..m).collect()).collect();
    let mut cur = bits(mask);
    let mut have = mask;
    if let Some(e) = extra {
        cur.push(e);
        have |= 1u64 << e;
    }
    if complete {
        for e in 0..m {
            if have >> e & 1 == 0 {
                cur.push(e);
            }
        }
        h.push(cur);
        for _ in round + 1..rounds_total {
            h.push((0..m).collect());
        }
    } else {
        h.push(cur);
    }
    h
}

/// state check + all outgoing edges of one state; returns the successor masks
fn process_state(cfg: &Cfg, fx: &Fixture, refs: &Refs, round: usize, mask: u64, acc: &mut Acc) -> Vec<u64> {
    let m = fx.edges.len();
    let rounds = cfg.proto.rounds();
    let fullmask = if m == 64 { u64::MAX } else { (1u64 << m) - 1 };
    acc.states += 1;
    // (a) canonical materialisation, every party probed
    let h = make_hist(fx, rounds, round, mask, None, false);
    let canonical_full = mask == fullmask && round + 1 == rounds;
    let j = judge_history(cfg, fx, refs, &h);
    acc.absorb(cfg, fx, &h, j, canonical_full);
    let mut succ = vec![];
    let top = if mask == 0 { None } else { Some(63 - mask.leading_zeros() as usize) };
    for e in 0..m {
        if mask >> e & 1 == 1 {
            continue;
        }
        acc.transitions += 1;
        let m2 = mask | 1u64 << e;
        succ.push(m2);
        // (b1) the same delivered set reached through a non-canonical history, probed at once
        if top.map_or(false, |t| e < t) {
            let h = make_hist(fx, rounds, round, mask, Some(e), false);
            let j = judge_history(cfg, fx, refs, &h);
            acc.absorb(cfg, fx, &h, j, false);
        }
        // (b2) through this edge to the end, canonical completion
        let h = make_hist(fx, rounds, round, mask, Some(e), true);
        let is_canon = h.iter().all(|r| r.windows(2).all(|w| w[0] < w[1]));
        if !is_canon {
            let j = judge_history(cfg, fx, refs, &h);
            acc.absorb(cfg, fx, &h, j, false);
        }
    }
    succ
}

fn explore_cfg(cfg: &Cfg, seed: u64, mode: Mode, inner_threads: usize, deadline: Instant) -> Acc {
    let mut acc = Acc::default();
    let fx = match guard(|| Fixture::build(cfg, seed)) {
        Ok(Ok(f)) => f,
        Ok(Err(e)) => {
            acc.skipped = Some(format!("fixture: {e}"));
            return acc;
        }
        Err(e) => {
            acc.add_fail(|| json!({"cfg": cfg, "hist": [[]]}), mkfail(cfg, &format!("fixture:panic:{}", panic_class(&e)), "keys and input ciphertext of the configuration can be produced", e));
            return acc;
        }
    };
    let refs = match reference(cfg, &fx) {
        Ok(r) => r,
        Err(RefErr::Skip(why)) => {
            acc.observations.insert(why.clone());
            acc.skipped = Some(why);
            return acc;
        }
        Err(RefErr::Fail(c, f)) => {
            acc.add_fail(|| c, f);
            return acc;
        }
    };
    // semantic oracles on the reference outputs (all other histories must reproduce these bytes)
    let sem = semantic(cfg, &fx, &refs.outs);
    acc.sem_steps += sem.steps;
    let full = canonical(&fx, fx.total_rounds());
    for f in sem.fails {
        acc.add_fail(|| case_json(cfg, &fx, &full), f);
    }
    acc.observations.extend(sem.observations);
    acc.ckks_ratio = fx.ckks_ratio.get();
    if fx.min_budget.get() != i64::MAX {
        acc.min_budget = Some(fx.min_budget.get());
    }
    let m = fx.edges.len();
    let rounds = cfg.proto.rounds();
    match mode {
        Mode::Lattice => {
            for round in 0..rounds {
                let mut visited: HashSet<u64> = HashSet::new();
                visited.insert(0);
                let mut frontier = vec![0u64];
                while !frontier.is_empty() {
                    if Instant::now() > deadline {
                        acc.capped = true;
                        return acc;
                    }
                    let mut next = vec![];
                    if inner_threads <= 1 || frontier.len() < 8 {
                        for &mask in &frontier {
                            for s in process_state(cfg, &fx, &refs, round, mask, &mut acc) {
                                if visited.insert(s) {
                                    next.push(s);
                                }
                            }
                            if Instant::now() > deadline {
                                acc.capped = true;
                                return acc;
                            }
                        }
                    } else {
                        let idx = AtomicUsize::new(0);
                        let results: Mutex<Vec<(Acc, Vec<u64>)>> = Mutex::new(vec![]);
                        std::thread::scope(|sc| {
                            for _ in 0..inner_threads {
                                std::thread::Builder::new()
                                    .stack_size(64 << 20)
                                    .spawn_scoped(sc, || {
                                        heathcliff_thread_init();
                                        let mut a = Acc::default();
                                        let mut succ = vec![];
                                        let fxl = match guard(|| Fixture::build(cfg, seed)) {
                                            Ok(Ok(f)) => f,
                                            _ => return,
                                        };
                                        loop {
                                            let i = idx.fetch_add(1, Ordering::SeqCst);
                                            if i >= frontier.len() || Instant::now() > deadline {
                                                break;
                                            }
                                            succ.extend(process_state(cfg, &fxl, &refs, round, frontier[i], &mut a));
                                        }
                                        results.lock().unwrap().push((a, succ));
                                    })
                                    .expect("spawn");
                            }
                        });
                        let done = idx.load(Ordering::SeqCst);
                        for (a, succ) in results.into_inner().unwrap() {
                            acc.merge(a);
                            for s in succ {
                                if visited.insert(s) {
                                    next.push(s);
                                }
                            }
                        }
                        if done < frontier.len() + inner_threads && Instant::now() > deadline {
                            acc.capped = true;
                            return acc;
                        }
                    }
                    next.sort_unstable();
                    frontier = next;
                }
                debug_assert!(visited.len() as u128 == 1u128 << m);
            }
        }
        Mode::Chain => {
            let total = fx.total_rounds();
            let canon = canonical(&fx, total);
            let rev: Vec<Vec<usize>> = canon.iter().map(|r| r.iter().rev().cloned().collect()).collect();
            let first_last = total - cfg.proto.rounds();
            let mut hists: Vec<Vec<Vec<usize>>> = vec![];
            // complete histories: everything reversed; only the prefix reversed; only the last protocol reversed
            hists.push(rev.clone());
            hists.push(rev[..first_last].iter().chain(canon[first_last..].iter()).cloned().collect());
            hists.push(canon[..first_last].iter().chain(rev[first_last..].iter()).cloned().collect());
            // refusal probes in every round of the last protocol: nothing delivered, all but the last message
            for base in [&canon, &rev] {
                for gr in first_last..total {
                    let m = fx.edges_at(gr).len();
                    for cut in [0, m - 1] {
                        let mut h: Vec<Vec<usize>> = base[..gr].to_vec();
                        h.push(base[gr][..cut].to_vec());
                        hists.push(h);
                    }
                }
            }
            let mut done: HashSet<Vec<Vec<usize>>> = HashSet::new();
            let mut seen: HashSet<(usize, u64)> = HashSet::new();
            done.insert(canon.clone());
            for gr in 0..total {
                // the reference run passed through every prefix state of the canonical order
                let mut mask = 0u64;
                seen.insert((gr, 0));
                for &e in &canon[gr] {
                    mask |= 1u64 << e;
                    seen.insert((gr, mask));
                }
            }
            acc.transitions += canon.iter().map(|r| r.len() as u64).sum::<u64>();
            for h in hists {
                if Instant::now() > deadline {
                    acc.capped = true;
                    return acc;
                }
                if !done.insert(h.clone()) {
                    continue;
                }
                for (gr, r) in h.iter().enumerate() {
                    let mut mask = 0u64;
                    seen.insert((gr, 0));
                    for &e in r {
                        mask |= 1u64 << e;
                        seen.insert((gr, mask));
                    }
                }
                acc.transitions += h.iter().map(|r| r.len() as u64).sum::<u64>();
                let j = judge_history(cfg, &fx, &refs, &h);
                acc.absorb(cfg, &fx, &h, j, false);
            }
            acc.states += seen.len() as u64;
        }
        Mode::Family { full } => {
            for round in 0..rounds {
                let jobs = family_jobs(m, cfg.parties, full);
                let mut seen: HashSet<(u8, usize, usize)> = HashSet::new();
                for (o, c) in &jobs {
                    seen.insert(family_state(*o, c.unwrap_or(m), m));
                    if c.is_none() {
                        acc.transitions += m as u64;
                    }
                }
                acc.states += seen.len() as u64;
                let mk = |fxl: &Fixture, job: &(Order, Option<usize>)| -> (Vec<Vec<usize>>, bool) {
                    let ord = order_vec(job.0, m);
                    let mut h: Vec<Vec<usize>> = (0..round).map(|_| (0..m).collect()).collect();
                    match job.1 {
                        None => {
                            h.push(ord);
                            for _ in round + 1..rounds {
                                h.push((0..m).collect());
                            }
                        }
                        Some(c) => h.push(ord[..c].to_vec()),
                    }
                    let _ = fxl;
                    let canon = job.0 == Order::Identity && job.1.is_none() && round + 1 == rounds;
                    (h, canon)
                };
                let idx = AtomicUsize::new(0);
                let results: Mutex<Vec<Acc>> = Mutex::new(vec![]);
                let capped = std::sync::atomic::AtomicBool::new(false);
                let worker = |fxl: &Fixture| {
                    let mut a = Acc::default();
                    loop {
                        let i = idx.fetch_add(1, Ordering::SeqCst);
                        if i >= jobs.len() {
                            break;
                        }
                        if Instant::now() > deadline {
                            capped.store(true, Ordering::SeqCst);
                            break;
                        }
                        let (h, canon) = mk(fxl, &jobs[i]);
                        let j = judge_history(cfg, fxl, &refs, &h);
                        a.absorb(cfg, fxl, &h, j, canon);
                    }
                    results.lock().unwrap().push(a);
                };
                if inner_threads <= 1 || jobs.len() < 32 {
                    worker(&fx);
                } else {
                    std::thread::scope(|sc| {
                        for _ in 0..inner_threads {
                            std::thread::Builder::new()
                                .stack_size(64 << 20)
                                .spawn_scoped(sc, || {
                                    heathcliff_thread_init();
                                    let fxl = match guard(|| Fixture::build(cfg, seed)) {
                                        Ok(Ok(f)) => f,
                                        _ => {
                                            capped.store(true, Ordering::SeqCst);
                                            return;
                                        }
                                    };
                                    worker(&fxl);
                                })
                                .expect("spawn");
                        }
                    });
                }
                for a in results.into_inner().unwrap() {
                    acc.merge(a);
                }
                if capped.load(Ordering::SeqCst) {
                    acc.capped = true;
                    return acc;
                }
            }
        }
        Mode::Cover => {
            for round in 0..rounds {
                let mut seen_states: HashSet<u64> = HashSet::new();
                let mut orders: Vec<Vec<usize>> = vec![];
                orders.push((0..m).collect());
                orders.push((0..m).rev().collect());
                for last in 0..m {
                    let mut o: Vec<usize> = (0..m).filter(|&e| e != last).collect();
                    o.push(last);
                    orders.push(o);
                    let mut o: Vec<usize> = vec![last];
                    o.extend((0..m).filter(|&e| e != last));
                    orders.push(o);
                }
                for i in 0..m.saturating_sub(1) {
                    let mut o: Vec<usize> = (0..m).collect();
                    o.swap(i, i + 1);
                    orders.push(o);
                }
                let prefix: Vec<Vec<usize>> = (0..round).map(|_| (0..m).collect()).collect();
                let suffix: Vec<Vec<usize>> = (round + 1..rounds).map(|_| (0..m).collect()).collect();
                let mut done: HashSet<Vec<usize>> = HashSet::new();
                for (oi, o) in orders.iter().enumerate() {
                    if Instant::now() > deadline {
                        acc.capped = true;
                        return acc;
                    }
                    if !done.insert(o.clone()) {
                        continue;
                    }
                    // complete run in this order
                    let mut h = prefix.clone();
                    h.push(o.clone());
                    h.extend(suffix.clone());
                    let is_canon = oi == 0;
                    let j = judge_history(cfg, &fx, &refs, &h);
                    acc.absorb(cfg, &fx, &h, j, is_canon && round + 1 == rounds);
                    acc.transitions += m as u64;
                    // probed prefixes: all of them for the canonical and the reverse order, the one-before-last state for the others
                    let cuts: Vec<usize> = if oi < 2 { (0..m).collect() } else { vec![m - 1] };
                    for c in cuts {
                        let mut h = prefix.clone();
                        h.push(o[..c].to_vec());
                        let j = judge_history(cfg, &fx, &refs, &h);
                        acc.absorb(cfg, &fx, &h, j, false);
                    }
                    let mut mask = 0u64;
                    seen_states.insert(0);
                    for &e in o {
                        mask |= 1u64 << e;
                        seen_states.insert(mask);
                    }
                }
                acc.states += seen_states.len() as u64;
            }
        }
    }
    acc
}

// ---------------------------------------------------------------------------------------------
// section
// ---------------------------------------------------------------------------------------------

pub struct E5Section {
    pub name: String,
    pub bound: String,
    pub cfgs: Vec<Cfg>,
    pub mode: Mode,
    pub seed: u64,
    /// true: configurations one after the other, each lattice layer spread over the worker threads
    pub inner_parallel: bool,
    pub budget_share: f64,
}

fn replay_case(case: &Value, seed: u64) -> Result<CaseOut, String> {
    let cfg: Cfg = serde_json::from_value(case["cfg"].clone()).map_err(|e| format!("cannot parse cfg: {e}"))?;
    let pairs: Vec<Vec<(usize, usize)>> = serde_json::from_value(case["hist"].clone()).map_err(|e| format!("cannot parse hist: {e}"))?;
    let fx = match guard(|| Fixture::build(&cfg, seed)) {
        Ok(Ok(f)) => f,
        Ok(Err(e)) => return Ok(CaseOut::skip(&e)),
        Err(e) => return Ok(CaseOut::fail(format!("{}:fixture:panic:{}", cfg.shape(), panic_class(&e)), "fixture can be built", e)),
    };
    let mut hist: Vec<Vec<usize>> = vec![];
    if pairs.len() > fx.total_rounds() {
        return Err(format!("{} rounds listed, the sequence has {}", pairs.len(), fx.total_rounds()));
    }
    for (gr, r) in pairs.iter().enumerate() {
        let mut row = vec![];
        for pr in r {
            row.push(fx.edges_at(gr).iter().position(|e| e == pr).ok_or_else(|| format!("({},{}) is not a message of round {gr}", pr.0, pr.1))?);
        }
        hist.push(row);
    }
    if hist.is_empty() {
        hist.push(vec![]);
    }
    let refs = match reference(&cfg, &fx) {
        Ok(r) => r,
        Err(RefErr::Skip(w)) => return Ok(CaseOut::skip(&w)),
        Err(RefErr::Fail(_, f)) => return Ok(CaseOut::fail(f.key, f.expected, f.observed)),
    };
    let full = canonical(&fx, fx.total_rounds());
    if hist == full {
        let sem = semantic(&cfg, &fx, &refs.outs);
        if let Some(f) = sem.fails.into_iter().next() {
            return Ok(CaseOut::fail(f.key, f.expected, f.observed));
        }
    }
    let j = judge_history(&cfg, &fx, &refs, &hist);
    if let Some(f) = j.fails.into_iter().next() {
        return Ok(CaseOut::fail(f.key, f.expected, f.observed));
    }
    Ok(CaseOut::pass(true, j.class, 1))
}

impl AnySection for E5Section {
    fn name(&self) -> String {
        self.name.clone()
    }

    fn replay(&self, case: &Value) -> Result<CaseOut, String> {
        heathcliff_thread_init();
        match guard(|| replay_case(case, self.seed)) {
            Ok(r) => r,
            Err(p) => Ok(CaseOut::fail(format!("unexpected-panic:{}", panic_class(&p)), "no panic outside the guarded subject calls", p)),
        }
    }

    fn run(self: Box<Self>, rep: &Arc<Report>) {
        let t0 = Instant::now();
        let deadline = Instant::now() + rep.cfg.remaining().mul_f64(self.budget_share.clamp(0.01, 1.0));
        let threads = rep.cfg.threads.max(1);
        let seed = self.seed;
        let mode = self.mode;
        // determinism self-test: reference observations of the first configurations, twice, in fresh threads
        {
            let head: Vec<Cfg> = self.cfgs.iter().take(3).cloned().collect();
            let once = |cfgs: Vec<Cfg>| {
                std::thread::Builder::new()
                    .stack_size(64 << 20)
                    .spawn(move || {
                        heathcliff_thread_init();
                        cfgs.iter()
                            .map(|c| {
                                guard(|| match Fixture::build(c, seed) {
                                    Ok(fx) => match reference(c, &fx) {
                                        Ok(r) => h64(&r.obs),
                                        Err(RefErr::Skip(_)) => 1,
                                        Err(RefErr::Fail(_, f)) => h64(&f.key),
                                    },
                                    Err(_) => 2,
                                })
                                .unwrap_or(3)
                            })
                            .collect::<Vec<u64>>()
                    })
                    .expect("spawn")
                    .join()
                    .unwrap_or_default()
            };
            if once(head.clone()) != once(head) {
                rep.machinery_error(format!("section {}: determinism self-test failed (same configurations, different reference observations)", self.name));
            }
        }
        let total = Mutex::new(Acc::default());
        let per_proto: Mutex<BTreeMap<String, (u64, u64, u64)>> = Mutex::new(BTreeMap::new());
        let ncfg = AtomicUsize::new(0);
        let nskip = AtomicUsize::new(0);
        let flush = |cfg: &Cfg, a: Acc| {
            ncfg.fetch_add(1, Ordering::SeqCst);
            if let Some(w) = &a.skipped {
                nskip.fetch_add(1, Ordering::SeqCst);
                rep.skipped.fetch_add(1, Ordering::Relaxed);
                rep.observe(format!("skipped (outside the domain): {w}"));
            }
            {
                let mut pp = per_proto.lock().unwrap();
                let e = pp.entry(format!("{}/{:?}", cfg.proto.name(), cfg.spec.scheme)).or_insert((0, 0, 0));
                e.0 += a.states;
                e.1 += a.transitions;
                e.2 += a.histories;
            }
            total.lock().unwrap().merge(a);
        };
        if self.inner_parallel {
            for cfg in &self.cfgs {
                if Instant::now() > deadline {
                    total.lock().unwrap().capped = true;
                    break;
                }
                let a = match guard(|| explore_cfg(cfg, seed, mode, threads, deadline)) {
                    Ok(a) => a,
                    Err(p) => {
                        let mut a = Acc::default();
                        a.add_fail(|| json!({"cfg": cfg, "hist": [[]]}), Fail { key: format!("unexpected-panic:{}", panic_class(&p)), expected: "no panic outside the guarded subject calls".into(), observed: p });
                        a
                    }
                };
                flush(cfg, a);
            }
        } else {
            let idx = AtomicUsize::new(0);
            std::thread::scope(|sc| {
                for _ in 0..threads {
                    std::thread::Builder::new()
                        .stack_size(64 << 20)
                        .spawn_scoped(sc, || {
                            heathcliff_thread_init();
                            loop {
                                let i = idx.fetch_add(1, Ordering::SeqCst);
                                if i >= self.cfgs.len() {
                                    break;
                                }
                                if Instant::now() > deadline {
                                    total.lock().unwrap().capped = true;
                                    break;
                                }
                                let cfg = &self.cfgs[i];
                                let a = match guard(|| explore_cfg(cfg, seed, mode, 1, deadline)) {
                                    Ok(a) => a,
                                    Err(p) => {
                                        let mut a = Acc::default();
                                        a.add_fail(
                                            || json!({"cfg": cfg, "hist": [[]]}),
                                            Fail { key: format!("unexpected-panic:{}", panic_class(&p)), expected: "no panic outside the guarded subject calls".into(), observed: p },
                                        );
                                        a
                                    }
                                };
                                flush(cfg, a);
                            }
                        })
                        .expect("spawn");
                }
            });
        }
        let acc = total.into_inner().unwrap();
        let done = ncfg.load(Ordering::SeqCst) as u64;
        let skipped = nskip.load(Ordering::SeqCst) as u64;
        let exhaustive_run = !acc.capped && done == self.cfgs.len() as u64;
        for (_, (case, f, n)) in acc.fails.iter() {
            for _ in 0..*n {
                rep.add_violation(&self.name, case.clone(), f.clone());
            }
        }
        for h in &acc.nontrivial {
            rep.mark_nontrivial(*h);
        }
        for o in &acc.outcomes {
            rep.mark_outcome(*o);
        }
        for o in &acc.observations {
            rep.observe(o.clone());
        }
        if !acc.refusal_classes.is_empty() {
            rep.observe(format!("{}: refusal classes of incomplete inboxes: {:?}", self.name, acc.refusal_classes));
        }
        if acc.ckks_ratio > 0.0 {
            rep.observe(format!("{}: largest |error|/tolerance over all passing CKKS comparisons = {:.3}", self.name, acc.ckks_ratio));
        }
        if let Some(b) = acc.min_budget {
            rep.observe(format!("{}: smallest invariant noise budget of a judged BFV/BGV ciphertext = {} bits", self.name, b));
        }
        if acc.max_leftover > 0 {
            rep.observe(format!("{}: a receive() left up to {} bytes of its message unread", self.name, acc.max_leftover));
        }
        rep.evaluations.fetch_add(acc.histories, Ordering::Relaxed);
        rep.steps.fetch_add(acc.histories + acc.sem_steps, Ordering::Relaxed);
        rep.states.fetch_add(acc.states, Ordering::Relaxed);
        rep.transitions.fetch_add(acc.transitions, Ordering::Relaxed);
        if let Some(c) = self.cfgs.first() {
            rep.sample(json!({"section": self.name, "first_cfg": c}));
        }
        if let Some(c) = self.cfgs.last() {
            rep.sample(json!({"section": self.name, "last_cfg": c}));
        }
        // the Cover mode is a non-exhaustive family by construction: say so in the bound text, not via the flag of the run
        let bound = if exhaustive_run { self.bound.clone() } else { format!("{} — CAPPED: only {} of {} configurations were completed", self.bound, done, self.cfgs.len()) };
        rep.push_section(SectionStat {
            name: self.name.clone(),
            engine: "E5".into(),
            cases: done,
            nontrivial: acc.nontrivial.len() as u64,
            skipped,
            outcomes: acc.outcomes.len() as u64,
            steps: acc.histories + acc.sem_steps,
            states: acc.states,
            transitions: acc.transitions,
            exhaustive: exhaustive_run,
            bound,
            wall_s: t0.elapsed().as_secs_f64(),
            extra: json!({
                "histories_replayed": acc.histories,
                "receive_calls": acc.receives,
                "semantic_checks": acc.sem_steps,
                "per_protocol_scheme(states,transitions,histories)": per_proto.into_inner().unwrap(),
                "refusal_classes": acc.refusal_classes,
                "mode": format!("{:?}", self.mode),
            }),
        });
    }
}

// ---------------------------------------------------------------------------------------------
// configurations per tier
// ---------------------------------------------------------------------------------------------

/// N = 8; the special (last) prime is the largest so that key-switching noise is not amplified
fn param_sets(scheme: Scheme) -> Vec<ParamSpec> {
    let n = 8;
    [vec![30usize, 40], vec![30, 35, 40], vec![30, 31, 35, 40]].iter().map(|b| ParamSpec::new(scheme, n, chain(n, b), 17)).collect()
}

fn cfgs_for(n: usize, cfg: &RunCfg, reduced: bool) -> Vec<Cfg> {
    let mut v = vec![];
    let th = cfg.thorough();
    for proto in Proto::all() {
        for scheme in Scheme::all() {
            let sets = param_sets(scheme);
            for (si, spec) in sets.iter().enumerate() {
                // reduced (big lattices / covering families): the 3-prime set only
                if reduced && si != 1 {
                    continue;
                }
                let msgs = msgs_for(scheme, 17, 8);
                let msg_ids: Vec<usize> = if proto.uses_message() && !reduced { vec![2, 0, 1] } else { vec![2] };
                let max_level = spec.q.len() - 2;
                for &mi in &msg_ids {
                    let mut levels = vec![0usize];
                    if proto.has_cipher_input() && max_level > 0 && mi == 2 {
                        levels.push(max_level);
                    }
                    for &level in &levels {
                        let mut modes = vec![ShareMode::Sampler];
                        if proto == Proto::CipherToShares && scheme != Scheme::CKKS && mi == 2 && level == 0 && !reduced {
                            modes.push(ShareMode::FixedZero);
                            modes.push(ShareMode::FixedMax);
                        }
                        for &shares in &modes {
                            let mut scripts = vec![(Noise::Real, Noise::Real)];
                            if th && !reduced && mi == 2 && level == 0 && shares == ShareMode::Sampler {
                                scripts.push((Noise::Real, Noise::AllMax));
                                scripts.push((Noise::Real, Noise::Alt));
                                scripts.push((Noise::AllMax, Noise::AllMax));
                            }
                            for &(tern, err) in &scripts {
                                v.push(Cfg { proto, spec: spec.clone(), parties: n, msg: msgs[mi].clone(), level, shares, err, tern, chain: vec![] });
                            }
                        }
                    }
                }
            }
        }
    }
    v
}

/// every sequence of `len` protocols (with repetition) on the same participants; primes [30,35,40], dense plaintext, first level
fn chain_cfgs(n: usize, lens: &[usize]) -> Vec<Cfg> {
    let mut v = vec![];
    let protos = Proto::all();
    for &len in lens {
        for scheme in Scheme::all() {
            let spec = param_sets(scheme).remove(1);
            let msg = msgs_for(scheme, 17, 8).remove(2);
            let count = protos.len().pow(len as u32);
            for idx in 0..count {
                let mut seq = vec![];
                let mut x = idx;
                for _ in 0..len {
                    seq.push(protos[x % protos.len()]);
                    x /= protos.len();
                }
                seq.reverse();
                if scheme == Scheme::BGV && seq.contains(&Proto::SharesToCipher) {
                    continue; // creation is refused by the library ([Invalid argument]), see lattice sections
                }
                let proto = seq.pop().unwrap();
                v.push(Cfg { proto, spec: spec.clone(), parties: n, msg: msg.clone(), level: 0, shares: ShareMode::Sampler, err: Noise::Real, tern: Noise::Real, chain: seq });
            }
        }
    }
    v
}

// ---------------------------------------------------------------------------------------------
// production-size configurations (many primes / many parties / large N)
// ---------------------------------------------------------------------------------------------

/// smallest prime t >= 17 with t = 1 (mod 2N)
fn plain_modulus_for(n: usize) -> u64 {
    let step = 2 * n as u64;
    let mut t = step + 1;
    while t < 17 || !crate::refmodel::bigu::is_prime_u64(t) {
        t += step;
    }
    t
}

/// `total` explicit primes: total-1 data primes of `data_bits` bits and a larger special prime (so that key-switching noise is not amplified)
fn sized_spec(scheme: Scheme, n: usize, total: usize, data_bits: usize, special_bits: usize) -> ParamSpec {
    let mut q = ntt_primes(n, data_bits, total - 1);
    q.extend(ntt_primes(n, special_bits, 1));
    ParamSpec::new(scheme, n, q, plain_modulus_for(n))
}

/// tiny degree, many primes: [30 x (total-1), 40] bits
fn many_prime_spec(scheme: Scheme, n: usize, total: usize) -> ParamSpec {
    sized_spec(scheme, n, total, 30, 40)
}

/// large degree: [54 x (total-1), 60] bits
fn big_spec(scheme: Scheme, n: usize, total: usize) -> ParamSpec {
    sized_spec(scheme, n, total, 54, 60)
}

const SLOT_BOUNDARIES: [usize; 33] =
    [0, 1, 7, 8, 9, 15, 16, 17, 31, 32, 33, 63, 64, 65, 127, 128, 129, 255, 256, 257, 511, 512, 513, 1023, 1024, 1025, 2047, 2048, 2049, 4095, 4096, 4097, 8191];

/// structured plaintexts of the large-degree sections: [0] ramp (slot i -> 1 + i mod (t-1); CKKS: a grid ramp), [1] all-maximal,
/// [2..] unit slots (value t-1 resp. -4+4i at one slot, zero elsewhere) at the boundary positions, last slot and middle slot included
fn big_msgs(scheme: Scheme, t: u64, deg: usize) -> Vec<(String, Vec<i64>)> {
    let nslots = if scheme == Scheme::CKKS { deg / 2 } else { deg };
    let mut units: BTreeSet<usize> = SLOT_BOUNDARIES.iter().cloned().filter(|&k| k < nslots).collect();
    units.insert(nslots - 1);
    units.insert(nslots / 2);
    units.insert(nslots / 2 - 1);
    let mut v = vec![];
    if scheme == Scheme::CKKS {
        v.push(("ramp".to_string(), (0..nslots).flat_map(|i| [(i % 33) as i64 - 16, 16 - (i % 29) as i64]).collect()));
        v.push(("max".to_string(), (0..nslots).flat_map(|_| [-16i64, 16]).collect()));
        for k in units {
            let mut m = vec![0i64; 2 * k + 2];
            m[2 * k] = -16;
            m[2 * k + 1] = 16;
            v.push((format!("unit{k}"), m));
        }
    } else {
        v.push(("ramp".to_string(), (0..nslots).map(|i| 1 + (i as u64 % (t - 1)) as i64).collect()));
        v.push(("max".to_string(), vec![(t - 1) as i64; nslots]));
        for k in units {
            let mut m = vec![0i64; k + 1];
            m[k] = (t - 1) as i64;
            v.push((format!("unit{k}"), m));
        }
    }
    v
}

fn plain_cfg(proto: Proto, spec: &ParamSpec, parties: usize, msg: &[i64], level: usize) -> Cfg {
    Cfg { proto, spec: spec.clone(), parties, msg: msg.to_vec(), level, shares: ShareMode::Sampler, err: Noise::Real, tern: Noise::Real, chain: vec![] }
}

/// every protocol x every scheme x every total prime count in `totals` at degree `deg` (tiny), dense plaintext;
/// input level: first and last, and EVERY level of the chain when `all_levels` names the prime count
fn many_prime_cfgs(parties: usize, degs: &[usize], totals: &[usize], all_levels: &[usize]) -> Vec<Cfg> {
    let mut v = vec![];
    for &deg in degs {
        for &total in totals {
            for scheme in Scheme::all() {
                let spec = many_prime_spec(scheme, deg, total);
                let msg = msgs_for(scheme, spec.t.max(17), deg).remove(2);
                for proto in Proto::all() {
                    let max_level = total - 2;
                    let mut levels = vec![0usize];
                    if proto.has_cipher_input() {
                        if all_levels.contains(&total) {
                            levels = (0..=max_level).collect();
                        } else if max_level > 0 {
                            levels.push(max_level);
                        }
                    }
                    for level in levels {
                        v.push(plain_cfg(proto, &spec, parties, &msg, level));
                    }
                }
            }
        }
    }
    v
}

/// every protocol x every scheme at N=4, primes [30,35,40] bits, dense plaintext, first level, for each party count
fn many_party_cfgs(ns: &[usize]) -> Vec<Cfg> {
    let mut v = vec![];
    for &n in ns {
        for scheme in Scheme::all() {
            let spec = ParamSpec::new(scheme, 4, chain(4, &[30, 35, 40]), 17);
            let msg = msgs_for(scheme, 17, 4).remove(2);
            for proto in Proto::all() {
                v.push(plain_cfg(proto, &spec, n, &msg, 0));
            }
        }
    }
    v
}

/// large degrees: every protocol x every scheme x (degree, total primes) x the named structured plaintexts x {first, last level}
fn big_n_cfgs(parties: usize, sizes: &[(usize, usize)], plain: &dyn Fn(usize, usize, &str) -> bool, last_level: bool) -> Vec<Cfg> {
    let mut v = vec![];
    for &(deg, total) in sizes {
        for scheme in Scheme::all() {
            let spec = big_spec(scheme, deg, total);
            let msgs = big_msgs(scheme, spec.t.max(17), deg);
            for proto in Proto::all() {
                for (mi, (name, msg)) in msgs.iter().enumerate() {
                    if !plain(deg, if scheme == Scheme::CKKS { deg / 2 } else { deg }, name) || (mi > 0 && !proto.uses_message()) {
                        continue;
                    }
                    v.push(plain_cfg(proto, &spec, parties, msg, 0));
                    if last_level && mi == 0 && proto.has_cipher_input() && total > 2 {
                        v.push(plain_cfg(proto, &spec, parties, msg, total - 2));
                    }
                }
            }
        }
    }
    v
}

/// every ordered pair of protocols on the same participants at N=8 with `total` primes (the common tape is consumed in much
/// larger pieces: the relinearisation round draws total*(total-1)*N words)
fn many_prime_chain_cfgs(parties: usize, totals: &[usize]) -> Vec<Cfg> {
    let mut v = vec![];
    let protos = Proto::all();
    for &total in totals {
        for scheme in Scheme::all() {
            let spec = many_prime_spec(scheme, 8, total);
            let msg = msgs_for(scheme, 17, 8).remove(2);
            for a in protos {
                for b in protos {
                    if scheme == Scheme::BGV && (a == Proto::SharesToCipher || b == Proto::SharesToCipher) {
                        continue;
                    }
                    let mut c = plain_cfg(b, &spec, parties, &msg, 0);
                    c.chain = vec![a];
                    v.push(c);
                }
            }
        }
    }
    v
}

fn size_sections(cfg: &RunCfg) -> Vec<Box<dyn AnySection>> {
    let seed = cfg.seed;
    let th = cfg.thorough();
    let protos = "8 protocols x {BFV,BGV,CKKS} (shares->cipher/BGV is refused by the library and skipped)";
    let mut v: Vec<Box<dyn AnySection>> = vec![];
    let sec = |name: &str, bound: String, cfgs: Vec<Cfg>, mode: Mode, inner: bool, share: f64| -> Box<dyn AnySection> {
        Box::new(E5Section { name: name.to_string(), bound, cfgs, mode, seed, inner_parallel: inner, budget_share: share })
    };
    let all_totals: Vec<usize> = (2..=19).collect();
    // --- many primes, tiny degree ---------------------------------------------------------------
    {
        let degs: &[usize] = if th { &[4, 8] } else { &[4] };
        v.push(sec(
            "primes_n2",
            format!(
                "n=2, N in {degs:?}: EVERY total prime count 2..19 (1..18 data primes at the first level = 1..18 decomposition components of the relinearisation rounds; 8, 9, 16, 17 included), primes [30 x (k-1), 40] bits, t=17; {protos}; dense plaintext; input level first and last, and for the 19-prime chain EVERY level (18..1 primes at the level); ALL 2^2 delivered-sets per round = both delivery orders, every state probed at every party, every lattice edge executed"
            ),
            many_prime_cfgs(2, degs, &all_totals, &[19]),
            Mode::Lattice,
            false,
            0.3,
        ));
        let totals3: Vec<usize> = if th { all_totals.clone() } else { vec![5, 9, 10, 17, 18] };
        v.push(sec(
            "primes_n3",
            format!(
                "n=3, N in {degs:?}: total prime counts {totals3:?} (data primes / decomposition components = count-1), primes [30 x (k-1), 40] bits, t=17; {protos}; dense plaintext; input level first and last; ALL 2^6 delivered-sets per round (2^2 for cipher->shares), every state probed at every party, every lattice edge executed"
            ),
            many_prime_cfgs(3, degs, &totals3, &[]),
            Mode::Lattice,
            false,
            0.4,
        ));
        let ctot: &[usize] = if th { &[9, 10, 17, 18] } else { &[9] };
        v.push(sec(
            "primes_chained_n2",
            format!(
                "n=2, N=8, total prime counts {ctot:?}: EVERY ordered pair of the 8 protocols on the SAME Participant objects (common tape carried over; the relinearisation rounds draw k(k-1)N words from it) x {{BFV,BGV,CKKS}} (pairs with shares->cipher/BGV excluded); orders and probes as in chained_n2; last protocol judged"
            ),
            many_prime_chain_cfgs(2, ctot),
            Mode::Chain,
            false,
            0.3,
        ));
    }
    // --- many parties, tiny degree --------------------------------------------------------------
    {
        let sub_ns: &[usize] = &[16, 17, 33, 65];
        v.push(sec(
            "parties_boundary",
            format!(
                "n in {sub_ns:?} parties, N=4, primes [30,35,40] bits, t=17, dense plaintext, first level; {protos}; EXACTLY this family of delivery orders of the m = n(n-1) messages of a round (cipher->shares: m = n-1), the other round canonical: identity (sender-major) order, reverse order, and for every k in K = {{1,2,7,8,9,15,16,17,31,32,33,63,64}} below n: the rotation of the identity order that starts with the first message of sender k, and the transposition of the two adjacent deliveries across the boundary between senders k-1 and k — NOT all orders. Every order run to completion; every party probed after the prefixes of the identity and reverse orders of length 0, 1, 2, m-2, m-1 and k(n-1)-1, k(n-1), k(n-1)+1 for k in K (k completely delivered senders), after the first and the all-but-last delivery of every rotation run (all-but-one states: the last message of sender k-1 missing), after the later message of every transposed pair"
            ),
            many_party_cfgs(sub_ns),
            Mode::Family { full: false },
            true,
            0.6,
        ));
    }
    // --- large degree ---------------------------------------------------------------------------
    {
        let ladder: Vec<(usize, usize)> = if th { [16, 32, 64, 128, 256, 512, 1024, 2048, 4096, 8192].iter().map(|&d| (d, 3)).collect() } else { [16, 32, 64, 128, 256, 512, 1024].iter().map(|&d| (d, 3)).collect() };
        // (degree, slot count, name of the plaintext)
        let quick_plain = |deg: usize, ns: usize, name: &str| -> bool {
            name == "ramp" || (deg >= 128 && (name == "max" || name == "unit0" || name == format!("unit{}", ns - 1) || name == format!("unit{}", ns / 2 - 1) || name == format!("unit{}", ns / 2)))
        };
        let all_plain = |deg: usize, _ns: usize, name: &str| -> bool { deg >= 128 || name == "ramp" };
        v.push(sec(
            "bigN_n2",
            format!(
                "n=2, N in {:?} x 3 primes [54,54,60] bits, t = smallest prime = 1 mod 2N (>= 17); {protos}; structured plaintexts: ramp (slot i -> 1 + i mod (t-1)) at every N, first and last level; from N=128 on also all-(t-1) and unit slots ({}); ALL 2^2 delivered-sets per round = both delivery orders, every state probed, every edge executed; CKKS scale 2^48 from N=128 on",
                ladder.iter().map(|x| x.0).collect::<Vec<_>>(),
                if th { "value t-1 / -4+4i at ONE slot k, for every k in {0,1,7,8,9,..,2^j-1,2^j,2^j+1,..} below the slot count, the middle and the last slot" } else { "slots 0, middle-1, middle, last (thorough: all boundary slots)" }
            ),
            if th { big_n_cfgs(2, &ladder, &all_plain, true) } else { big_n_cfgs(2, &ladder, &quick_plain, true) },
            Mode::Lattice,
            false,
            0.5,
        ));
        let sizes3: Vec<(usize, usize)> = if th { vec![(128, 3), (1024, 3), (4096, 3)] } else { vec![(128, 3), (1024, 3)] };
        let ramp_only = |_deg: usize, _ns: usize, name: &str| -> bool { name == "ramp" };
        v.push(sec(
            "bigN_n3",
            format!(
                "n=3, N in {:?} x 3 primes [54,54,60] bits; {protos}; ramp plaintext, first level (thorough: and last level); ALL 2^6 delivered-sets per round (2^2 for cipher->shares), every state probed at every party, every lattice edge executed",
                sizes3.iter().map(|x| x.0).collect::<Vec<_>>()
            ),
            big_n_cfgs(3, &sizes3, &ramp_only, th),
            Mode::Lattice,
            false,
            0.6,
        ));
        let sizesp: Vec<(usize, usize)> = if th { vec![(1024, 9), (1024, 10), (1024, 17), (1024, 18), (4096, 9), (4096, 10)] } else { vec![(1024, 10)] };
        v.push(sec(
            "bigN_primes_n2",
            format!(
                "n=2, (N, total primes) in {sizesp:?}, primes [54 x (k-1), 60] bits (long chains over large degrees: 8/9/16/17 primes at the first level, 9/10/17/18 at the key level); {protos}; ramp plaintext, first and last level; ALL 2^2 delivered-sets per round = both delivery orders"
            ),
            big_n_cfgs(2, &sizesp, &ramp_only, true),
            Mode::Lattice,
            false,
            0.6,
        ));
    }
    // --- many parties, the complete stated family (last: by far the largest section of the thorough tier, n = 65 alone
    //     replays 560 k histories of up to 4160 deliveries) -----------------------------------------
    {
        let full_ns: &[usize] = if th { &[8, 9, 16, 17, 33, 65] } else { &[8, 9] };
        let parties_family = sec(
            "parties_family",
            format!(
                "n in {full_ns:?} parties (65 = one more than a machine word of senders), N=4, primes [30,35,40] bits, t=17, dense plaintext, first level; {protos}; EXACTLY this family of delivery orders of the m = n(n-1) messages of a round (cipher->shares: m = n-1), the other round canonical: identity (sender-major) order, reverse order, EVERY rotation of the identity order, EVERY single transposition of two adjacent deliveries of the identity order — NOT all orders. Every order is run to completion (final outputs byte-identical to the canonical run at every party); every party is probed (refusal with an incomplete inbox / canonical bytes with a complete one) after: every prefix of the identity and reverse orders when m <= 300, otherwise the prefixes of length 0, 1, 2, m-2, m-1 and k(n-1)-1, k(n-1), k(n-1)+1 for every k = 1..n; the first delivery and all-but-the-last delivery of every rotation (= EVERY all-but-one state and every single-message state); the state after the later message of every transposed pair. states = distinct probed delivered-sets"
            ),
            many_party_cfgs(full_ns),
            Mode::Family { full: true },
            true,
            1.0,
        );
        v.push(parties_family);
    }
    v
}

// =============================================================================================
// HISTORY and VALUE sections (`histories`, `extreme_shares`): engine E1 on top of the same protocol objects
// =============================================================================================
//
// Both sections run complete protocol rounds on live `Participant` objects (no replay of partial histories: incomplete
// inboxes are the business of the lattice sections) and judge what comes out after EVERY protocol run.

/// what one complete run of one protocol on the given participants produced
struct StepRun {
    outs: Vec<Out>,
    /// wires[round][sender] = the bytes the sender serialised in that round (None: not a sender of this protocol)
    wires: Vec<Vec<Option<Vec<u8>>>>,
}

/// One protocol, all parties, run to completion on `parties`: create (H1 reseeded per party), per round send / deliver every
/// message in canonical order (reversed where `rev[round]`) / step2, finish at every party.
fn run_step(cfg: &Cfg, fx: &Fixture, proto: Proto, parties: &mut [Participant], step: usize, rev: &[bool]) -> Result<StepRun, Fail> {
    let n = parties.len();
    let mut objs: Vec<Obj> = Vec::with_capacity(n);
    for (p, party) in parties.iter_mut().enumerate() {
        fx.reseed("hproto", step, p);
        match guard(|| create(cfg, proto, fx, p, party)) {
            Ok(o) => objs.push(o),
            Err(e) => {
                let what = if e.contains("[Invalid argument]") { format!("create:refused:{}", panic_class(&e)) } else { format!("create:{}:panic:{}", proto.name(), panic_class(&e)) };
                return Err(mkfail(cfg, &what, format!("party {p} can start {} on a valid input", proto.name()), e));
            }
        }
    }
    let edges = proto.edges(n);
    let senders: BTreeSet<usize> = edges.iter().map(|e| e.0).collect();
    let mut wires = vec![];
    for lr in 0..proto.rounds() {
        let mut msgs: Vec<Option<Vec<u8>>> = vec![None; n];
        for &s in &senders {
            let mut v = vec![];
            match guard(|| objs[s].send(&mut v)) {
                Ok(Ok(())) => {}
                Ok(Err(e)) => return Err(mkfail(cfg, "send:io-error", format!("party {s} can serialise its round-{lr} message"), e.to_string())),
                Err(e) => return Err(mkfail(cfg, &format!("send:panic:{}", panic_class(&e)), format!("party {s} can serialise its round-{lr} message"), e)),
            }
            msgs[s] = Some(v);
        }
        let mut ord: Vec<usize> = (0..edges.len()).collect();
        if rev.get(lr).copied().unwrap_or(false) {
            ord.reverse();
        }
        let mut late = vec![false; n];
        for e in ord {
            let (s, rcv) = edges[e];
            if !late[s] {
                // sent as late as the order allows (see `run`)
                late[s] = true;
                let mut v = vec![];
                match guard(|| objs[s].send(&mut v)) {
                    Ok(Ok(())) => msgs[s] = Some(v),
                    Ok(Err(e)) => return Err(mkfail(cfg, "send:io-error", format!("party {s} can serialise its round-{lr} message after receiving"), e.to_string())),
                    Err(e) => return Err(mkfail(cfg, &format!("send:panic:{}", panic_class(&e)), format!("party {s} can serialise its round-{lr} message after receiving"), e)),
                }
            }
            let bytes = msgs[s].as_ref().unwrap();
            match guard(|| objs[rcv].receive(s, bytes)) {
                Ok(Ok(_)) => {}
                Ok(Err(er)) => return Err(mkfail(cfg, "receive:io-error", format!("party {rcv} accepts the round-{lr} message of party {s}"), er.to_string())),
                Err(er) => return Err(mkfail(cfg, &format!("receive:panic:{}", panic_class(&er)), format!("party {rcv} accepts the round-{lr} message of party {s}"), er)),
            }
        }
        wires.push(msgs);
        if lr + 1 < proto.rounds() {
            for p in 0..n {
                fx.reseed("hadvance", step * 4 + lr, p);
                if let Err(e) = guard(|| objs[p].advance()) {
                    return Err(mkfail(cfg, &format!("step2:complete-inbox-refused:{}", panic_class(&e)), format!("party {p} with a complete round-{lr} inbox can start round {}", lr + 1), e));
                }
            }
        }
    }
    let mut outs = vec![];
    for (p, o) in objs.into_iter().enumerate() {
        match guard(|| o.finish(fx)) {
            Ok(out) => outs.push(out),
            Err(e) => return Err(mkfail(cfg, &format!("finish:complete-inbox-refused:{}", panic_class(&e)), format!("party {p} has received every message addressed to it and completes {}", proto.name()), e)),
        }
    }
    Ok(StepRun { outs, wires })
}

// ---------------------------------------------------------------------------------------------
// histories
// ---------------------------------------------------------------------------------------------

/// one step of a history; the participants, their key shares and the current ciphertext are carried from step to step
#[derive(Serialize, Deserialize, Clone, Copy, Debug, PartialEq, Eq, Hash, PartialOrd, Ord)]
pub enum HStep {
    /// collective decryption of the current ciphertext (the ciphertext stays)
    Decrypt,
    /// collective key switch of the current ciphertext to fresh shares; every party then ADOPTS its new share with
    /// update_secret_key, the output becomes the current ciphertext, the new sum the current collective key
    KeySwitchAdopt,
    /// collective public-key switch of the current ciphertext to an outside key (the ciphertext stays)
    PubKeySwitch,
    /// cipher_to_shares of the current ciphertext, then shares_to_cipher of exactly those shares; party 0's output becomes
    /// the current ciphertext (BGV: cipher_to_shares only, the library refuses shares_to_cipher there)
    SharesRoundTrip,
    PublicKey,
    RelinKeys,
    RevealSk,
}

impl HStep {
    pub fn all() -> [HStep; 7] {
        [HStep::Decrypt, HStep::KeySwitchAdopt, HStep::PubKeySwitch, HStep::SharesRoundTrip, HStep::PublicKey, HStep::RelinKeys, HStep::RevealSk]
    }
    fn protos(self, scheme: Scheme) -> Vec<Proto> {
        match self {
            HStep::Decrypt => vec![Proto::Decrypt],
            HStep::KeySwitchAdopt => vec![Proto::KeySwitch],
            HStep::PubKeySwitch => vec![Proto::PubKeySwitch],
            HStep::SharesRoundTrip => {
                if scheme == Scheme::BGV {
                    vec![Proto::CipherToShares]
                } else {
                    vec![Proto::CipherToShares, Proto::SharesToCipher]
                }
            }
            HStep::PublicKey => vec![Proto::PublicKey],
            HStep::RelinKeys => vec![Proto::RelinKeys],
            HStep::RevealSk => vec![Proto::RevealSk],
        }
    }
    /// rounds of message exchange of the step (over its protocols)
    fn rounds(self, scheme: Scheme) -> usize {
        self.protos(scheme).iter().map(|p| p.rounds()).sum()
    }
}

#[derive(Serialize, Deserialize, Clone, Debug)]
pub struct HistCase {
    pub spec: ParamSpec,
    pub parties: usize,
    pub steps: Vec<HStep>,
    /// delivery-order variants, each run from fresh participants: (every round of the earlier steps reversed,
    /// bit r set = round r of the LAST step delivered in reverse order)
    pub orders: Vec<(bool, u8)>,
    pub msg: Vec<i64>,
}

fn hist_base_cfg(c: &HistCase) -> Option<Cfg> {
    let mut seq: Vec<Proto> = c.steps.iter().flat_map(|s| s.protos(c.spec.scheme)).collect();
    let proto = seq.pop()?;
    Some(Cfg { proto, spec: c.spec.clone(), parties: c.parties, msg: c.msg.clone(), level: 0, shares: ShareMode::Sampler, err: Noise::Real, tern: Noise::Real, chain: seq })
}

/// where a history stands (for the violation key: the protocol being run, and whether a share has been adopted before it)
struct HistPos {
    proto: Proto,
    adopted: bool,
}

/// one history from fresh participants; Ok(number of judged observations)
fn hist_run(case: &HistCase, base: &Cfg, fx: &mut Fixture, rev_earlier: bool, last_mask: u8, pos: &mut HistPos) -> Result<u64, Fail> {
    let n = case.parties;
    let scheme = case.spec.scheme;
    let deg = case.spec.n;
    let nf = n as f64;
    let mut parties: Vec<Participant> = Vec::with_capacity(n);
    for p in 0..n {
        match guard(|| fx.new_party(p)) {
            Ok(pt) => parties.push(pt),
            Err(e) => return Err(mkfail(base, &format!("participant-new:panic:{}", panic_class(&e)), "Participant::new succeeds", e)),
        }
        if parties[p].secret_key().data() != &fx.sk_parts[p] {
            return Err(mkfail(base, "harness:replay-not-deterministic", "a re-created participant has the secret key of the first creation", format!("party {p} differs")));
        }
    }
    // the share every party is expected to hold right now
    let mut shares_now: Vec<Vec<u64>> = fx.sk_parts.clone();
    let mut judged = 0u64;
    for (k, &st) in case.steps.iter().enumerate() {
        let is_last = k + 1 == case.steps.len();
        let mut round_idx = 0usize;
        for (sub, &proto) in st.protos(scheme).iter().enumerate() {
            let mut cfgk = base.clone();
            cfgk.proto = proto;
            cfgk.chain = vec![];
            pos.proto = proto;
            let rev: Vec<bool> = (0..proto.rounds()).map(|lr| if is_last { last_mask >> (round_idx + lr) & 1 == 1 } else { rev_earlier }).collect();
            round_idx += proto.rounds();
            if proto == Proto::KeySwitch {
                // fresh target shares for THIS step
                let mut parts = vec![];
                fx.new_sks.clear();
                for p in 0..n {
                    fx.reseed("hnewsk", k, p);
                    let sk = KeyGenerator::new(fx.ctx.clone()).secret_key().clone();
                    parts.push(sk.data().clone());
                    fx.new_sks.push(sk);
                }
                let mut s = fx.new_sks[0].clone();
                s.data_mut().copy_from_slice(&sum_keys(&parts, &fx.key_moduli, deg));
                fx.new_sk_sum = Some(s);
            }
            let run = run_step(&cfgk, fx, proto, &mut parties, k * 2 + sub, &rev)?;
            judged += run.outs.len() as u64;
            // no protocol run may change a party's key share
            for p in 0..n {
                if parties[p].secret_key().data() != &shares_now[p] {
                    return Err(mkfail(&cfgk, "key-share-changed-by-a-protocol-run", format!("party {p} still holds the share it held before {}", proto.name()), "different residues"));
                }
            }
            let sem = semantic(&cfgk, fx, &run.outs);
            judged += sem.steps;
            if let Some(f) = sem.fails.into_iter().next() {
                return Err(f);
            }
            // carry the state into the next step
            match proto {
                Proto::KeySwitch => {
                    let Out::Ct(ct) = &run.outs[0] else { unreachable!() };
                    fx.cipher = Some(ct.clone());
                    for p in 0..n {
                        let sk = fx.new_sks[p].clone();
                        if let Err(e) = guard(|| parties[p].update_secret_key(&sk)) {
                            return Err(mkfail(&cfgk, &format!("update_secret_key:panic:{}", panic_class(&e)), format!("party {p} can adopt its new share"), e));
                        }
                        shares_now[p] = sk.data().clone();
                        if parties[p].secret_key().data() != &shares_now[p] {
                            return Err(mkfail(&cfgk, "update_secret_key:share-not-adopted", format!("party {p} holds the share it was given"), "different residues"));
                        }
                    }
                    fx.sk_sum = fx.new_sk_sum.clone().unwrap();
                    fx.reseed("hpk", k, 0);
                    fx.pk_sum = KeyGenerator::from_sk(fx.ctx.clone(), fx.sk_sum.clone()).create_public_key(false);
                    fx.extra_noise.set(fx.extra_noise.get() + nf * E_MAX);
                    pos.adopted = true;
                }
                Proto::CipherToShares => {
                    fx.shares_u.clear();
                    fx.shares_c.clear();
                    for o in &run.outs {
                        match o {
                            Out::ShU(v) => fx.shares_u.push(v.clone()),
                            Out::ShC(v) => fx.shares_c.push(v.clone()),
                            _ => unreachable!(),
                        }
                    }
                }
                Proto::SharesToCipher => {
                    let Out::Ct(ct) = &run.outs[0] else { unreachable!() };
                    let mut ct = ct.clone();
                    if scheme == Scheme::CKKS {
                        ct.set_scale(fx.scale);
                        let mut sum = vec![C64::new(0.0, 0.0); fx.nslots];
                        for v in &fx.shares_c {
                            for k2 in 0..fx.nslots {
                                sum[k2] += v[k2];
                            }
                        }
                        fx.msg_c = sum;
                    } else {
                        let mut sum = vec![0u64; fx.nslots];
                        for v in &fx.shares_u {
                            for k2 in 0..fx.nslots {
                                sum[k2] = (sum[k2] + v[k2] % fx.t) % fx.t;
                            }
                        }
                        fx.msg_u = sum;
                    }
                    fx.cipher = Some(ct);
                    // a fresh ciphertext: n error samples and n encodings instead of the public-key encryption noise
                    fx.extra_noise.set(nf * E_MAX + nf / 2.0);
                }
                Proto::PublicKey => {
                    // the collective key goes into the data flow: the NEXT plaintext (slots rotated by one) is encrypted under it
                    // and becomes the current ciphertext (a new second component, a new plaintext)
                    let Out::Pk(pk) = &run.outs[0] else { unreachable!() };
                    fx.msg_u.rotate_left(1);
                    fx.msg_c.rotate_left(1);
                    fx.reseed("hreenc", k, 0);
                    let plain = fx.plain_of(&cfgk, &fx.msg_u, &fx.msg_c);
                    let enc = Encryptor::new(fx.ctx.clone()).set_public_key(pk.clone());
                    match guard(|| enc.encrypt_new(&plain)) {
                        Ok(ct) => fx.cipher = Some(ct),
                        Err(e) => return Err(mkfail(&cfgk, &format!("semantic:collective-public-key-unusable:{}", panic_class(&e)), "Encryptor accepts the collective key", e)),
                    }
                    fx.extra_noise.set(0.0);
                }
                _ => {}
            }
        }
    }
    Ok(judged)
}

fn check_history(case: &HistCase, seed: u64) -> CaseOut {
    let Some(base) = hist_base_cfg(case) else { return CaseOut::skip("empty history") };
    let mut fx = match guard(|| Fixture::build(&base, seed)) {
        Ok(Ok(f)) => f,
        Ok(Err(e)) => return CaseOut::skip(&format!("fixture: {e}")),
        Err(e) => return CaseOut::fail(format!("histories:{}:fixture:panic:{}", base.shape(), panic_class(&e)), "keys and input ciphertext of the configuration can be produced", e),
    };
    let init = (fx.cipher.clone(), fx.sk_sum.clone(), fx.pk_sum.clone(), fx.msg_u.clone(), fx.msg_c.clone());
    let mut steps = 0u64;
    for &(rev_earlier, mask) in &case.orders {
        fx.cipher = init.0.clone();
        fx.sk_sum = init.1.clone();
        fx.pk_sum = init.2.clone();
        fx.msg_u = init.3.clone();
        fx.msg_c = init.4.clone();
        fx.extra_noise.set(0.0);
        let mut pos = HistPos { proto: base.proto, adopted: false };
        match guard(|| hist_run(case, &base, &mut fx, rev_earlier, mask, &mut pos)) {
            Ok(Ok(s)) => steps += s,
            Ok(Err(f)) => {
                // key: section : protocol that failed : scheme : had a share been adopted before : what went wrong (the history
                // itself is in `observed` and in the case — one defect, one key per protocol it breaks)
                let prefix = format!("{}:{:?}:", pos.proto.name(), case.spec.scheme);
                let what = f.key.strip_prefix(&prefix).unwrap_or(&f.key).to_string();
                let ord = format!(" [history {:?}, earlier steps {}, last step reversed rounds mask {mask}]", case.steps, if rev_earlier { "reverse order" } else { "identity order" });
                return CaseOut::fail(format!("histories:{prefix}{}:{what}", if pos.adopted { "after-adoption" } else { "no-adoption" }), f.expected, format!("{}{ord}", f.observed));
            }
            Err(p) => return CaseOut::fail(format!("histories:{}:unexpected-panic:{}", base.shape(), panic_class(&p)), "no panic outside the guarded subject calls", p),
        }
    }
    CaseOut::pass(true, h64(&(&case.steps, case.spec.scheme, case.parties, case.orders.len())), steps)
}

/// every sequence of `len` steps over the 7-letter alphabet (repetition allowed) x scheme, for `n` parties;
/// `all_last_orders`: every combination of (identity | reverse) over the rounds of the last step with the earlier steps in
/// identity order (n = 2: these are ALL delivery orders of the last step); otherwise whole history identity / whole history reversed
/// (`mixed`: also only-the-earlier-steps reversed and only-the-last-step reversed)
fn history_cases(n: usize, len: usize, all_last_orders: bool, mixed: bool, keep: &dyn Fn(&[HStep]) -> bool) -> Vec<HistCase> {
    let al = HStep::all();
    let mut v = vec![];
    for scheme in Scheme::all() {
        let spec = param_sets(scheme).remove(1);
        let msg = msgs_for(scheme, 17, 8).remove(2);
        for idx in 0..al.len().pow(len as u32) {
            let mut steps = vec![];
            let mut x = idx;
            for _ in 0..len {
                steps.push(al[x % al.len()]);
                x /= al.len();
            }
            steps.reverse();
            if !keep(&steps) {
                continue;
            }
            let lr = steps.last().unwrap().rounds(scheme);
            let full: u8 = ((1u16 << lr) - 1) as u8;
            // rounds of the last step with a single message have one delivery order only
            let mut single: u8 = 0;
            let mut ri = 0;
            for p in steps.last().unwrap().protos(scheme) {
                for _ in 0..p.rounds() {
                    if p.edges(n).len() <= 1 {
                        single |= 1 << ri;
                    }
                    ri += 1;
                }
            }
            let orders: Vec<(bool, u8)> = if all_last_orders {
                (0..=full).filter(|m| m & single == 0).map(|m| (false, m)).collect()
            } else if mixed {
                vec![(false, 0), (true, full), (true, 0), (false, full)]
            } else {
                vec![(false, 0), (true, full)]
            };
            v.push(HistCase { spec: spec.clone(), parties: n, steps, orders, msg: msg.clone() });
        }
    }
    v
}

// ---------------------------------------------------------------------------------------------
// extreme_shares
// ---------------------------------------------------------------------------------------------

/// residue vectors at the value boundaries of a modular sum (party `id`, modulus q, position k inside the component)
#[derive(Serialize, Deserialize, Clone, Copy, Debug, PartialEq, Eq, Hash)]
pub enum XPat {
    /// q - 1 - id
    MaxMinusId,
    /// q - 1
    Max,
    /// 0 at even positions, q - 1 at odd positions
    AltZeroMax,
    /// (q + 1) / 2: two of them exceed q by one
    HalfUp,
    /// (q - 1) / 2: two of them stay one below q
    HalfDown,
    /// (q + 1) / 2 at the parties with an even id, (q - 1) / 2 at the odd ones: every pair adds up to EXACTLY q
    HalfMixed,
    /// q - 1 - id in the FIRST RNS component only, id + 1 in the others (when every component of a position goes wrong by the
    /// same integer — 2^64 for a wrapped word — the error is a small integer and BFV's scale-and-round absorbs it; a
    /// single wrong component is garbage after CRT composition)
    MaxFirstComponent,
}

impl XPat {
    pub fn all() -> [XPat; 7] {
        [XPat::MaxMinusId, XPat::Max, XPat::AltZeroMax, XPat::HalfUp, XPat::HalfDown, XPat::HalfMixed, XPat::MaxFirstComponent]
    }
    /// the same residues at every party (the only patterns a quantity common to all parties can carry)
    fn party_independent(self) -> bool {
        !matches!(self, XPat::MaxMinusId | XPat::HalfMixed | XPat::MaxFirstComponent)
    }
    /// residue of party `id` modulo q = the j-th prime, at position k of that component
    fn val(self, id: usize, q: u64, j: usize, k: usize) -> u64 {
        match self {
            XPat::MaxMinusId => q - 1 - (id as u64 % (q - 1)),
            XPat::Max => q - 1,
            XPat::AltZeroMax => {
                if k % 2 == 0 {
                    0
                } else {
                    q - 1
                }
            }
            XPat::HalfUp => (q + 1) / 2,
            XPat::HalfDown => (q - 1) / 2,
            XPat::HalfMixed => (q + 1 - 2 * (id as u64 % 2)) / 2,
            XPat::MaxFirstComponent => {
                if j == 0 {
                    q - 1 - (id as u64 % (q - 1))
                } else {
                    (id as u64 + 1) % q
                }
            }
        }
    }
}

#[derive(Serialize, Deserialize, Clone, Debug)]
pub struct XCase {
    pub spec: ParamSpec,
    pub parties: usize,
    pub proto: Proto,
    pub pattern: XPat,
    /// None: the parties' KEY SHARES are the pattern. Some((round, i)): the key shares are SOLVED (the i-th polynomial of a
    /// party's round message is an affine function of its share, measured with two probe runs) so that this polynomial of
    /// every party's message is the pattern; round 1 (relinearisation) keeps the sum of the shares fixed, the last party absorbs
    pub target: Option<(usize, usize)>,
    /// public_key_switch, second message polynomial (u_i * pk'_1 + e_i, independent of the key shares): ternary and error
    /// scripts all-maximal (every party draws the same u and e) and pk'_1 solved so that every party sends the pattern
    #[serde(default)]
    pub craft_pk: bool,
}

fn parse_polys(ctx: &HeContext, bytes: &[u8]) -> Result<Vec<Vec<u64>>, String> {
    let mut b = bytes;
    let mut v = vec![];
    while !b.is_empty() {
        match guard(|| PolynomialSerializer::deserialize_polynomial(ctx, &mut b)) {
            Ok(Ok(p)) => v.push(p),
            Ok(Err(e)) => return Err(format!("io error: {e}")),
            Err(e) => return Err(e),
        }
    }
    Ok(v)
}

fn add_mod(a: u64, b: u64, q: u64) -> u64 {
    ((a as u128 + b as u128) % q as u128) as u64
}
fn sub_mod(a: u64, b: u64, q: u64) -> u64 {
    ((a as u128 + q as u128 - (b % q) as u128) % q as u128) as u64
}
fn mulm(a: u64, b: u64, q: u64) -> u64 {
    ((a as u128 * b as u128) % q as u128) as u64
}

/// component-wise sum of polynomials over the first len/deg moduli, every partial sum in u128
fn sum_polys<'x>(polys: impl Iterator<Item = &'x Vec<u64>>, moduli: &[u64], deg: usize) -> Option<Vec<u64>> {
    let mut acc: Option<Vec<u128>> = None;
    for p in polys {
        match &mut acc {
            None => acc = Some(p.iter().map(|&x| x as u128).collect()),
            Some(a) => {
                if a.len() != p.len() {
                    return None;
                }
                for (x, y) in a.iter_mut().zip(p) {
                    *x += *y as u128;
                }
            }
        }
    }
    acc.map(|a| a.iter().enumerate().map(|(i, &x)| (x % moduli[i / deg] as u128) as u64).collect())
}

fn poly_add(a: &[u64], b: &[u64], moduli: &[u64], deg: usize) -> Vec<u64> {
    a.iter().zip(b).enumerate().map(|(i, (&x, &y))| add_mod(x, y, moduli[i / deg])).collect()
}

struct XWorld {
    /// a secret key object of the context (parms id, size); its residues are overwritten
    template: SecretKey,
}

/// fresh participants holding exactly `keys`, one complete run of the protocol
fn xrun(cfg: &Cfg, fx: &Fixture, w: &XWorld, keys: &[Vec<u64>], rev: bool) -> Result<StepRun, Fail> {
    let n = cfg.parties;
    let mut parties = Vec::with_capacity(n);
    for p in 0..n {
        let mut sk = w.template.clone();
        sk.data_mut().copy_from_slice(&keys[p]);
        match guard(|| {
            let mut pt = fx.new_party(p);
            pt.update_secret_key(&sk);
            pt
        }) {
            Ok(pt) => parties.push(pt),
            Err(e) => return Err(mkfail(cfg, &format!("participant-new:panic:{}", panic_class(&e)), "Participant::new and update_secret_key succeed", e)),
        }
        if parties[p].secret_key().data() != &keys[p] {
            return Err(mkfail(cfg, "update_secret_key:share-not-adopted", format!("party {p} holds the share it was given"), "different residues"));
        }
    }
    run_step(cfg, fx, cfg.proto, &mut parties, 0, &vec![rev; cfg.proto.rounds()])
}

/// the ciphertext-form protocols of BFV exchange coefficient-form polynomials; everything else is in NTT form
fn coeff_domain(cfg: &Cfg) -> bool {
    cfg.spec.scheme == Scheme::BFV && (cfg.proto.has_cipher_input() || cfg.proto == Proto::SharesToCipher)
}

fn to_ntt(fx: &Fixture, v: &mut [u64], deg: usize) {
    let cd = fx.ctx.key_context_data().unwrap();
    let l = v.len() / deg;
    heathcliff::verif_hooks::polysmallmod::ntt_p(v, deg, &cd.small_ntt_tables()[..l]);
}
fn from_ntt(fx: &Fixture, v: &mut [u64], deg: usize) {
    let cd = fx.ctx.key_context_data().unwrap();
    let l = v.len() / deg;
    heathcliff::verif_hooks::polysmallmod::intt_p(v, deg, &cd.small_ntt_tables()[..l]);
}

fn wire_poly(fx: &Fixture, run: &StepRun, r: usize, sender: usize, i: usize) -> Option<Vec<u64>> {
    let bytes = run.wires.get(r)?.get(sender)?.as_ref()?;
    parse_polys(&fx.ctx, bytes).ok()?.into_iter().nth(i)
}

/// a symmetric encryption of the configuration's plaintext under the key `s` whose second component is EXACTLY `c1`
/// (the library's own symmetric encryption (c0', a') with c0 = c0' + (a' - c1) * s, so that c0 + c1*s = c0' + a'*s)
fn craft_cipher(cfg: &Cfg, fx: &Fixture, s: &SecretKey, c1: &[u64], deg: usize) -> Result<Ciphertext, String> {
    fx.reseed("xcraft", 0, 0);
    let plain = fx.plain_of(cfg, &fx.msg_u, &fx.msg_c);
    let enc = Encryptor::new(fx.ctx.clone()).set_secret_key(s.clone());
    // (at N = 4 a polynomial is too short to hold a seed: the library then returns the expanded ciphertext at once)
    let mut ct = guard(|| {
        let c = enc.encrypt_symmetric_new(&plain);
        if c.contains_seed() {
            c.expand_seed(&fx.ctx)
        } else {
            c
        }
    })?;
    if ct.poly(1).len() != c1.len() || ct.parms_id() != &fx.cipher_parms {
        return Err("symmetric encryption is not at the level of the probe ciphertext".into());
    }
    let l = c1.len() / deg;
    let q = &fx.key_moduli[..l];
    let mut d: Vec<u64> = ct.poly(1).iter().zip(c1).enumerate().map(|(i, (&a, &c))| sub_mod(a, c, q[i / deg])).collect();
    let ntt_form = ct.is_ntt_form();
    if !ntt_form {
        to_ntt(fx, &mut d, deg);
    }
    for i in 0..d.len() {
        d[i] = mulm(d[i], s.data()[i], q[i / deg]);
    }
    if !ntt_form {
        from_ntt(fx, &mut d, deg);
    }
    let c0 = poly_add(ct.poly(0), &d, q, deg);
    ct.poly_mut(0).copy_from_slice(&c0);
    ct.poly_mut(1).copy_from_slice(c1);
    Ok(ct)
}

struct XStat {
    judged: u64,
    /// some position of some exchanged polynomial: the residues of all senders add up to >= 2^64
    wrapped: bool,
    /// the targeted polynomial of every controlled party is the pattern at every position / at some position
    full_hit: bool,
    some_hit: bool,
}

fn extreme_inner(case: &XCase, cfg: &Cfg, fx: &mut Fixture) -> Result<XStat, Fail> {
    let n = case.parties;
    let deg = case.spec.n;
    let proto = case.proto;
    let kq = fx.key_moduli.clone();
    let klen = kq.len() * deg;
    let template = guard(|| fx.new_party(0).secret_key().clone()).map_err(|e| mkfail(cfg, &format!("participant-new:panic:{}", panic_class(&e)), "Participant::new succeeds", e))?;
    let w = XWorld { template };
    let pat = case.pattern;
    let pat_poly = |id: usize, len: usize| -> Vec<u64> { (0..len).map(|x| pat.val(id, kq[x / deg], x / deg, x % deg)).collect() };
    let mut keys: Vec<Vec<u64>> = (0..n).map(|i| pat_poly(i, klen)).collect();
    let cdom = coeff_domain(cfg);
    let mut controlled: Vec<usize> = vec![];
    // positions of the targeted polynomial that depend on the solved quantity at all (h0_j of the first relinearisation round
    // depends on the share in component j only)
    let mut solvable: Vec<bool> = vec![];
    let harness = |what: &str, obs: String| mkfail(cfg, &format!("harness:{what}"), "the probe runs of the configuration complete", obs);

    // At N = 4 a fresh encryption has an all-zero ternary u with probability 1/81 and then an all-zero second component:
    // nothing a party sends would depend on its share. Deterministic retry until every NTT residue of c1 is invertible.
    if proto.has_cipher_input() {
        let enc = Encryptor::new(fx.ctx.clone()).set_public_key(fx.pk_sum.clone());
        let plain = fx.plain_of(cfg, &fx.msg_u, &fx.msg_c);
        for attempt in 0..16 {
            let ct = fx.cipher.as_ref().unwrap();
            let mut c1 = ct.poly(1).to_vec();
            if !ct.is_ntt_form() {
                to_ntt(fx, &mut c1, deg);
            }
            if c1.iter().all(|&x| x != 0) {
                break;
            }
            fx.reseed("xct", attempt, 0);
            fx.cipher = Some(guard(|| enc.encrypt_new(&plain)).map_err(|e| harness("cannot-encrypt-input", e))?);
        }
    }

    if case.craft_pk {
        // h1_i = u_i * pk'_1 + e_i with the same scripted u, e at every party: affine in the common pk'_1
        let (pk0, tsk) = fx.target.clone().ok_or_else(|| harness("no-target-key", String::new()))?;
        let (r, pi) = case.target.unwrap_or((0, 1));
        let probe = |v: u64, fx: &mut Fixture| -> Result<Vec<u64>, Fail> {
            let mut pk = pk0.clone();
            pk.as_ciphertext_mut().poly_mut(1).iter_mut().for_each(|x| *x = v);
            fx.target = Some((pk, tsk.clone()));
            let run = xrun(cfg, fx, &w, &keys, false)?;
            let mut m = wire_poly(fx, &run, r, 0, pi).ok_or_else(|| harness("probe-message-unreadable", format!("round {r} polynomial {pi}")))?;
            if cdom {
                to_ntt(fx, &mut m, deg);
            }
            Ok(m)
        };
        let m0 = probe(0, fx)?;
        let m1 = probe(1, fx)?;
        let mut tgt = pat_poly(0, m0.len());
        if cdom {
            to_ntt(fx, &mut tgt, deg);
        }
        let mut pk = pk0.clone();
        {
            let p1 = pk.as_ciphertext_mut().poly_mut(1);
            p1.iter_mut().for_each(|x| *x = 0);
            solvable = vec![false; m0.len()];
            for x in 0..m0.len() {
                let q = kq[x / deg];
                let a = sub_mod(m1[x], m0[x], q);
                if a != 0 {
                    p1[x] = mulm(sub_mod(tgt[x], m0[x], q), crate::refmodel::bigu::inv_mod_u64(a, q).unwrap_or(0), q);
                    solvable[x] = true;
                }
            }
        }
        fx.target = Some((pk, tsk));
        controlled = (0..n).collect();
    } else if let Some((r, pi)) = case.target {
        let fixed_sum = r > 0;
        let sstar: Vec<u64> = (0..klen).map(|x| 7 % kq[x / deg]).collect();
        let probe_keys = |v: u64| -> Vec<Vec<u64>> {
            let mut ks: Vec<Vec<u64>> = (0..n).map(|_| (0..klen).map(|x| v % kq[x / deg]).collect()).collect();
            if fixed_sum {
                ks[n - 1] = (0..klen).map(|x| sub_mod(sstar[x], mulm((n - 1) as u64, v, kq[x / deg]), kq[x / deg])).collect();
            }
            ks
        };
        let r0 = xrun(cfg, fx, &w, &probe_keys(0), false)?;
        let r1 = xrun(cfg, fx, &w, &probe_keys(1), false)?;
        for i in 0..n {
            if fixed_sum && i == n - 1 {
                continue;
            }
            let (Some(mut m0), Some(mut m1)) = (wire_poly(fx, &r0, r, i, pi), wire_poly(fx, &r1, r, i, pi)) else { continue };
            if m0.len() != m1.len() || m0.len() > klen || m0.len() % deg != 0 {
                return Err(harness("probe-message-shape", format!("party {i}: {} / {} words", m0.len(), m1.len())));
            }
            let mut tgt = pat_poly(i, m0.len());
            if cdom {
                to_ntt(fx, &mut m0, deg);
                to_ntt(fx, &mut m1, deg);
                to_ntt(fx, &mut tgt, deg);
            }
            if controlled.is_empty() {
                solvable = vec![true; m0.len()];
            }
            for x in 0..m0.len() {
                let q = kq[x / deg];
                let a = sub_mod(m1[x], m0[x], q);
                if a != 0 {
                    keys[i][x] = mulm(sub_mod(tgt[x], m0[x], q), crate::refmodel::bigu::inv_mod_u64(a, q).unwrap_or(0), q);
                } else if x < solvable.len() {
                    solvable[x] = false;
                }
            }
            controlled.push(i);
        }
        if fixed_sum {
            let mut last = sstar.clone();
            for i in 0..n - 1 {
                for x in 0..klen {
                    last[x] = sub_mod(last[x], keys[i][x], kq[x / deg]);
                }
            }
            keys[n - 1] = last;
        }
    }

    // the collective key and, for the ciphertext protocols, an input that really is an encryption under it
    let ssum = sum_keys(&keys, &kq, deg);
    let mut sk_sum = w.template.clone();
    sk_sum.data_mut().copy_from_slice(&ssum);
    fx.sk_sum = sk_sum.clone();
    let input = if proto.has_cipher_input() {
        let c1 = fx.cipher.as_ref().unwrap().poly(1).to_vec();
        match craft_cipher(cfg, fx, &sk_sum, &c1, deg) {
            Ok(ct) => {
                fx.cipher = Some(ct.clone());
                Some(ct)
            }
            Err(e) => return Err(harness("cannot-craft-input", e)),
        }
    } else {
        None
    };

    let mut st = XStat { judged: 0, wrapped: false, full_hit: false, some_hit: false };
    let dec_any = Decryptor::new(fx.ctx.clone(), sk_sum.clone());
    for rev in [false, true] {
        let run = xrun(cfg, fx, &w, &keys, rev)?;
        let ord = if rev { "reverse order" } else { "identity order" };
        // everything that went over the wire, per round and polynomial index: the senders' polynomials
        let mut wire: Vec<Vec<Vec<Vec<u64>>>> = vec![]; // [round][poly index][sender]
        for r in 0..run.wires.len() {
            let mut per_poly: Vec<Vec<Vec<u64>>> = vec![];
            for s in 0..n {
                if let Some(bytes) = &run.wires[r][s] {
                    let polys = parse_polys(&fx.ctx, bytes).map_err(|e| harness("message-unreadable", e))?;
                    for (i, p) in polys.into_iter().enumerate() {
                        if per_poly.len() <= i {
                            per_poly.push(vec![]);
                        }
                        per_poly[i].push(p);
                    }
                }
            }
            wire.push(per_poly);
        }
        // did the values get where they were meant to be
        for per_poly in &wire {
            for senders in per_poly {
                for x in 0..senders[0].len() {
                    let s: u128 = senders.iter().map(|p| p.get(x).copied().unwrap_or(0) as u128).sum();
                    if s >> 64 != 0 {
                        st.wrapped = true;
                    }
                }
            }
        }
        if let Some((r, pi)) = case.target {
            let mut all = true;
            let mut some = false;
            let mut len = 0;
            let got: Vec<Option<Vec<u64>>> = controlled.iter().map(|&i| wire_poly(fx, &run, r, i, pi)).collect();
            if let Some(Some(g0)) = got.first() {
                len = g0.len();
            }
            // (in the NTT domain a position the share does not reach stays what it is; in the coefficient domain every
            // position must be solvable for any coefficient to hit)
            let reach = |x: usize| if cdom { solvable.iter().all(|&b| b) } else { solvable.get(x).copied().unwrap_or(false) };
            for x in 0..len {
                if !reach(x) {
                    continue;
                }
                let hit = controlled.iter().zip(&got).all(|(&i, g)| g.as_ref().map_or(false, |g| g[x] == pat.val(if case.craft_pk { 0 } else { i }, kq[x / deg], x / deg, x % deg)));
                all &= hit;
                some |= hit;
            }
            st.full_hit = some && all;
            st.some_hit = some;
        } else {
            st.full_hit = true;
            st.some_hit = true;
        }
        let sum_of = |r: usize, i: usize| -> Result<Vec<u64>, Fail> {
            wire.get(r).and_then(|pp| pp.get(i)).and_then(|s| sum_polys(s.iter(), &kq, deg)).ok_or_else(|| harness("message-shape", format!("round {r} polynomial {i} missing or ragged")))
        };
        let wrong = |what: &str, p: usize, detail: String| -> Fail {
            mkfail(cfg, &format!("aggregate-is-not-the-sum-of-the-shares:{what}"), format!("party {p}: {what} = sum over all parties of the exchanged polynomials, every residue reduced modulo its prime (u128 reference), {ord}"), detail)
        };
        let diff = |a: &[u64], b: &[u64]| -> String {
            match a.iter().zip(b).position(|(x, y)| x != y) {
                Some(i) => format!("word {i}: {} vs expected {} (modulus {})", a[i], b[i], kq[(i / deg).min(kq.len() - 1)]),
                None => format!("lengths {} vs {}", a.len(), b.len()),
            }
        };
        // all parties agree
        if !matches!(proto, Proto::CipherToShares | Proto::SharesToCipher) {
            for p in 1..n {
                st.judged += 1;
                if run.outs[p].fp() != run.outs[0].fp() {
                    return Err(mkfail(cfg, "parties-disagree", format!("party {p} derives the same output as party 0 ({ord})"), "different bytes"));
                }
            }
        }
        match proto {
            Proto::RevealSk => {
                let exp = sum_of(0, 0)?;
                for (p, o) in run.outs.iter().enumerate() {
                    let Out::Sk(sk) = o else { unreachable!() };
                    st.judged += 1;
                    if sk.data()[..] != exp[..] {
                        return Err(wrong("revealed key", p, diff(sk.data(), &exp)));
                    }
                }
            }
            Proto::PublicKey => {
                let exp = sum_of(0, 0)?;
                for (p, o) in run.outs.iter().enumerate() {
                    let Out::Pk(pk) = o else { unreachable!() };
                    st.judged += 1;
                    if pk.as_ciphertext().poly(0)[..] != exp[..] {
                        return Err(wrong("public key component 0", p, diff(pk.as_ciphertext().poly(0), &exp)));
                    }
                }
                // ... and corresponds to the sum of the shares: pk0 + pk1 * s = -(sum of the parties' error polynomials)
                let Out::Pk(pk) = &run.outs[0] else { unreachable!() };
                let mut ph: Vec<u64> = (0..klen).map(|x| add_mod(pk.as_ciphertext().poly(0)[x], mulm(pk.as_ciphertext().poly(1)[x], ssum[x], kq[x / deg]), kq[x / deg])).collect();
                from_ntt(fx, &mut ph, deg);
                let bound = (n as u64) * 21 * if cfg.spec.scheme == Scheme::BGV { fx.t } else { 1 };
                st.judged += 1;
                if let Some(x) = (0..klen).find(|&x| ph[x] > bound && ph[x] < kq[x / deg] - bound) {
                    return Err(mkfail(cfg, "collective-public-key-does-not-match-summed-secret-key", format!("pk0 + pk1*(sum of the shares) is the negated sum of n error polynomials (|coefficient| <= {bound}), {ord}"), format!("coefficient {x}: {} mod {}", ph[x], kq[x / deg])));
                }
            }
            Proto::RelinKeys => {
                // which polynomial of a round message feeds which key component is the protocol's private layout (today: round 1
                // polynomial d+j -> component 1 of key j, round 2 polynomials j and d+j -> component 0): every component must be
                // the u128 sum of ONE round-1 polynomial index resp. of TWO round-2 polynomial indices
                let d = kq.len() - 1;
                let r1: Vec<Vec<u64>> = (0..wire.first().map_or(0, |w| w.len())).map(|i| sum_of(0, i)).collect::<Result<_, _>>()?;
                let r2: Vec<Vec<u64>> = (0..wire.get(1).map_or(0, |w| w.len())).map(|i| sum_of(1, i)).collect::<Result<_, _>>()?;
                let mut pairs: Vec<Vec<u64>> = vec![];
                for a in 0..r2.len() {
                    for b in a + 1..r2.len() {
                        pairs.push(poly_add(&r2[a], &r2[b], &kq, deg));
                    }
                }
                for (p, o) in run.outs.iter().enumerate() {
                    let Out::Rlk(rlk) = o else { unreachable!() };
                    let ks = &rlk.as_kswitch_keys().data()[0];
                    for j in 0..d.min(ks.len()) {
                        st.judged += 2;
                        let (c0, c1) = (ks[j].as_ciphertext().poly(0), ks[j].as_ciphertext().poly(1));
                        if !r1.iter().any(|s| s[..] == c1[..]) {
                            return Err(wrong("relinearisation key component 1 (round 1 aggregate)", p, r1.get(d + j).map_or(String::new(), |e| diff(c1, e))));
                        }
                        if !pairs.iter().any(|s| s[..] == c0[..]) {
                            let e = if d + j < r2.len() { poly_add(&r2[j], &r2[d + j], &kq, deg) } else { vec![] };
                            return Err(wrong("relinearisation key component 0 (round 2 aggregates)", p, diff(c0, &e)));
                        }
                    }
                }
            }
            Proto::KeySwitch => {
                let inp = input.as_ref().unwrap();
                let c0 = poly_add(inp.poly(0), &sum_of(0, 0)?, &kq, deg);
                for (p, o) in run.outs.iter().enumerate() {
                    let Out::Ct(ct) = o else { unreachable!() };
                    st.judged += 2;
                    if ct.poly(0)[..] != c0[..] {
                        return Err(wrong("output component 0", p, diff(ct.poly(0), &c0)));
                    }
                    if ct.poly(1)[..] != inp.poly(1)[..] {
                        return Err(wrong("output component 1", p, diff(ct.poly(1), inp.poly(1))));
                    }
                }
            }
            Proto::PubKeySwitch => {
                // two polynomials per message: one is added to c0, the other one becomes c1 (either order on the wire)
                let inp = input.as_ref().unwrap();
                let (sa, sb) = (sum_of(0, 0)?, sum_of(0, 1)?);
                let (c0a, c0b) = (poly_add(inp.poly(0), &sa, &kq, deg), poly_add(inp.poly(0), &sb, &kq, deg));
                for (p, o) in run.outs.iter().enumerate() {
                    let Out::Ct(ct) = o else { unreachable!() };
                    st.judged += 2;
                    let ok = (ct.poly(0)[..] == c0a[..] && ct.poly(1)[..] == sb[..]) || (ct.poly(0)[..] == c0b[..] && ct.poly(1)[..] == sa[..]);
                    if !ok {
                        let (what, d) = if ct.poly(0)[..] != c0a[..] { ("output component 0", diff(ct.poly(0), &c0a)) } else { ("output component 1", diff(ct.poly(1), &sb)) };
                        return Err(wrong(what, p, d));
                    }
                }
            }
            Proto::Decrypt => {
                // c0 + sum of the shares, decoded by the ORDINARY decryptor from a ciphertext whose second component is zero
                let inp = input.as_ref().unwrap();
                let mut tr = inp.clone();
                let c0 = poly_add(inp.poly(0), &sum_of(0, 0)?, &kq, deg);
                tr.poly_mut(0).copy_from_slice(&c0);
                tr.poly_mut(1).iter_mut().for_each(|x| *x = 0);
                if let Ok(exp) = guard(|| dec_any.decrypt_new(&tr)) {
                    for (p, o) in run.outs.iter().enumerate() {
                        let Out::Pt(pt) = o else { unreachable!() };
                        st.judged += 1;
                        let same = if cfg.is_ckks() { pt.data() == exp.data() } else { guard(|| fx.decode_u(pt)).ok() == guard(|| fx.decode_u(&exp)).ok() };
                        if !same {
                            return Err(wrong("decrypted plaintext (decoding of c0 + sum)", p, "differs from the ordinary decryptor's decoding of (c0 + sum, 0)".to_string()));
                        }
                    }
                }
            }
            Proto::SharesToCipher => {
                // party 0 (the aggregating party): encode(share_0) + sum of the exchanged polynomials
                let Out::Ct(ct) = &run.outs[0] else { unreachable!() };
                let plain = if cfg.is_ckks() { fx.ck_enc(Some(1.0)).encode(&fx.shares_c[0]) } else { fx.bshare.as_ref().unwrap().encode(&fx.shares_u[0]) };
                let mut z = ct.clone();
                z.poly_mut(0).iter_mut().for_each(|x| *x = 0);
                z.poly_mut(1).iter_mut().for_each(|x| *x = 0);
                if guard(|| Evaluator::new(fx.ctx.clone()).add_plain_inplace(&mut z, &plain)).is_ok() {
                    let c0 = poly_add(z.poly(0), &sum_of(0, 0)?, &kq, deg);
                    st.judged += 1;
                    if ct.poly(0)[..] != c0[..] {
                        return Err(wrong("aggregating party's output component 0", 0, diff(ct.poly(0), &c0)));
                    }
                }
            }
            Proto::CipherToShares => {} // party 0's own term never goes over the wire: judged semantically below
        }
        // plaintext preserved although no share is small: the input is an exact symmetric encryption under the sum
        let semantic_applies = match proto {
            Proto::Decrypt | Proto::KeySwitch | Proto::CipherToShares | Proto::SharesToCipher | Proto::RevealSk => true,
            Proto::PubKeySwitch => !case.craft_pk,
            Proto::PublicKey | Proto::RelinKeys => false, // encrypting under such a key multiplies the encryption error by a large secret
        };
        if semantic_applies {
            let sem = semantic(cfg, fx, &run.outs);
            st.judged += sem.steps;
            if let Some(f) = sem.fails.into_iter().next() {
                return Err(Fail { key: f.key, expected: format!("{} ({ord})", f.expected), observed: f.observed });
            }
        }
    }
    Ok(st)
}

fn xcase_cfg(case: &XCase) -> Cfg {
    let msg = msgs_for(case.spec.scheme, case.spec.t.max(17), case.spec.n).remove(2);
    let (tern, err) = if case.craft_pk { (Noise::AllMax, Noise::AllMax) } else { (Noise::Real, Noise::Real) };
    Cfg { proto: case.proto, spec: case.spec.clone(), parties: case.parties, msg, level: 0, shares: ShareMode::Sampler, err, tern, chain: vec![] }
}

fn xshape(case: &XCase) -> String {
    let tgt = match (case.craft_pk, case.target) {
        (true, _) => "crafted-pk".to_string(),
        (false, None) => "key-shares".to_string(),
        (false, Some((r, i))) => format!("message-r{r}p{i}"),
    };
    format!("extreme:{}:{:?}:{tgt}", case.proto.name(), case.spec.scheme)
}

fn check_extreme(case: &XCase, seed: u64) -> CaseOut {
    let cfg = xcase_cfg(case);
    if cfg.expected_refusal() {
        return CaseOut::skip("shares_to_cipher refuses BGV");
    }
    let mut fx = match guard(|| Fixture::build(&cfg, seed)) {
        Ok(Ok(f)) => f,
        Ok(Err(e)) => return CaseOut::skip(&format!("fixture: {e}")),
        Err(e) => return CaseOut::fail(format!("{}:fixture:panic:{}", xshape(case), panic_class(&e)), "keys and input ciphertext of the configuration can be produced", e),
    };
    match guard(|| extreme_inner(case, &cfg, &mut fx)) {
        Ok(Ok(st)) => CaseOut::pass(st.full_hit, h64(&(case.proto, case.spec.scheme, case.target, case.craft_pk, case.parties, st.wrapped, st.full_hit, st.some_hit)), st.judged),
        Ok(Err(f)) => {
            // key: section : protocol : scheme : what was made extreme : what went wrong (the cfg shape prefix is replaced)
            let what = f.key.strip_prefix(&format!("{}:", cfg.shape())).unwrap_or(&f.key).to_string();
            CaseOut::fail(format!("extreme:{}:{:?}:{what}", case.proto.name(), case.spec.scheme), f.expected, format!("{} [{}, n = {}, pattern {:?}, moduli {:?}]", f.observed, xshape(case), case.parties, case.pattern, case.spec.q))
        }
        Err(p) => CaseOut::fail(format!("{}:unexpected-panic:{}", xshape(case), panic_class(&p)), "no panic outside the guarded subject calls", p),
    }
}

/// every aggregating protocol x scheme x party count x pattern x (key shares | every polynomial of every round message)
fn extreme_cases(ns: &[usize], specs: &dyn Fn(Scheme) -> Vec<ParamSpec>) -> Vec<XCase> {
    let mut v = vec![];
    for &n in ns {
        for scheme in Scheme::all() {
            for spec in specs(scheme) {
                let d = spec.q.len() - 1;
                for proto in Proto::all() {
                    if scheme == Scheme::BGV && proto == Proto::SharesToCipher {
                        continue;
                    }
                    let mut targets: Vec<(Option<(usize, usize)>, bool)> = vec![(None, false)];
                    match proto {
                        Proto::RevealSk => {} // the message IS the key share
                        Proto::RelinKeys => {
                            for r in 0..2 {
                                for i in 0..2 * d {
                                    targets.push((Some((r, i)), false));
                                }
                            }
                        }
                        Proto::PubKeySwitch => {
                            targets.push((Some((0, 0)), false));
                            targets.push((Some((0, 1)), true));
                        }
                        _ => targets.push((Some((0, 0)), false)),
                    }
                    for (target, craft_pk) in targets {
                        for pattern in XPat::all() {
                            if craft_pk && !pattern.party_independent() {
                                continue; // one common pk' for all parties: only party-independent patterns
                            }
                            v.push(XCase { spec: spec.clone(), parties: n, proto, pattern, target, craft_pk });
                        }
                    }
                }
            }
        }
    }
    v
}

fn value_history_sections(cfg: &RunCfg) -> Vec<Box<dyn AnySection>> {
    let seed = cfg.seed;
    let th = cfg.thorough();
    let mut v: Vec<Box<dyn AnySection>> = vec![];
    let alphabet = "{collective decryption of the current ciphertext; key_switch of the current ciphertext to fresh shares, every party ADOPTS its new share with update_secret_key, the output becomes the current ciphertext and the new sum the current collective key; public_key_switch to an outside key; cipher_to_shares followed by shares_to_cipher of exactly those shares, party 0's output becomes the current ciphertext (BGV: cipher_to_shares only); collective public key, under which the next plaintext (slots rotated by one) is encrypted and becomes the current ciphertext; relinearisation keys; reveal_secret_key}";
    let oracles = "after EVERY protocol run: the oracles of the lattice sections under the key that is CURRENT at that point (keys byte-identical at all parties and matching the sum of the current shares through ordinary Encryptor/Decryptor/Evaluator objects, decryption = plaintext at every party, switched ciphertexts decrypt under the new sum / the outside key at every party, shares add up to the plaintext, revealed key = sum of the current shares) and no party's share changed by a protocol run";
    {
        let cases = history_cases(2, 3, true, false, &|_| true);
        v.push(E1::new(
            "histories_n2",
            &format!("n=2, N=8, primes [30,35,40] bits, t=17, dense plaintext, BFV + BGV + CKKS: EVERY sequence of 3 steps (repetition allowed, 7^3 = 343 per scheme) over {alphabet} on the SAME participants with data flow; earlier steps in identity order, the last step in ALL its delivery orders (every combination of identity / reverse over its rounds); {oracles}"),
            cases.into_iter(),
            move |c| check_history(c, seed),
        ));
    }
    {
        let cases = history_cases(3, 3, false, th, &|_| true);
        v.push(E1::new(
            "histories_n3",
            &format!(
                "n=3, N=8, primes [30,35,40] bits, t=17, dense plaintext, BFV + BGV + CKKS: EVERY sequence of 3 steps (repetition allowed, 7^3 = 343 per scheme) over {alphabet} on the SAME participants with data flow; delivery orders: {}; {oracles}",
                if th { "whole history identity, whole history reversed, only the earlier steps reversed, only the last step reversed" } else { "whole history identity, whole history reversed" }
            ),
            cases.into_iter(),
            move |c| check_history(c, seed),
        ));
    }
    {
        let ns: Vec<usize> = if th { vec![2, 3, 16, 17, 18, 33, 65] } else { vec![2, 3, 16, 17, 18] };
        let specs = move |scheme: Scheme| -> Vec<ParamSpec> {
            // the three LARGEST primes the library accepts (60 bits, = 1 mod 8): 16 residues cannot reach 2^64, 17 maximal ones do
            let mut s = vec![ParamSpec::new(scheme, 4, ntt_primes(4, 60, 3), 17)];
            if th {
                // the three SMALLEST 60-bit primes (just above 2^59): the 2^64 boundary lies between 31 and 33 parties
                s.push(ParamSpec::new(scheme, 4, crate::refmodel::bigu::primes_1_mod_low(8, 60, 3), 17));
            }
            s
        };
        let cases = extreme_cases(&ns, &specs);
        v.push(
            E1::new(
                "extreme_shares",
                &format!(
                    "n in {ns:?} parties, N=4, 3 primes of 60 bits (the largest the library accepts: {:?}{}), t=17, BFV + BGV + CKKS, every aggregating protocol (public key, relin keys both rounds, secret-key revelation, decrypt, key switch, public-key switch, cipher->shares, shares->cipher; shares->cipher/BGV refused by the library) run once in identity and once in reverse delivery order with residue vectors at the value boundaries of a modular sum: patterns {{q-1-id, q-1, alternating 0 / q-1, (q+1)/2, (q-1)/2, (q+1)/2 at even and (q-1)/2 at odd party ids (pairs add up to exactly q), q-1-id in the first RNS component only}} x what carries the pattern: (a) the parties' KEY SHARES (set with update_secret_key), (b) for every polynomial of every round message: that polynomial of EVERY party's message — the shares are solved from two probe runs (the polynomial is an affine function of the party's share; round 2 of the relinearisation protocol with the sum of the shares held fixed, the last party absorbing), (c) public_key_switch second polynomial: all-maximal ternary/error scripts and a solved second component of the outside public key. Oracles: every aggregate a party outputs (revealed key, public key, both relinearisation-key components, switched ciphertext components, decrypted plaintext = ordinary decryptor's decoding of (c0 + sum, 0), aggregating party's shares->cipher output) equals the sum of the polynomials that went over the wire, every residue summed in u128 and reduced once; all parties byte-identical; pk0 + pk1*(sum of shares) = small; and with the input crafted as an exact symmetric encryption under the sum of the (large) shares: plaintext preserved by decrypt / key switch / public-key switch / cipher->shares / shares->cipher. non-trivial = the targeted polynomial of every controlled party is the pattern at every position",
                    ntt_primes(4, 60, 3),
                    if th { format!(" and the smallest: {:?}", crate::refmodel::bigu::primes_1_mod_low(8, 60, 3)) } else { String::new() }
                ),
                cases.into_iter(),
                move |c| check_extreme(c, seed),
            )
            .batch(4),
        );
    }
    v
}

pub fn sections(cfg: &RunCfg) -> Vec<Box<dyn AnySection>> {
    let seed = cfg.seed;
    let th = cfg.thorough();
    let common = "8 protocols (public key, relin keys 2 rounds, secret-key revelation, decrypt, key switch, public-key switch, cipher->shares, shares->cipher) x {BFV,BGV,CKKS} x N=8";
    let mut v: Vec<Box<dyn AnySection>> = vec![];
    let lattice = |n: usize, reduced: bool, inner: bool, share: f64| -> Box<dyn AnySection> {
        let m = n * (n - 1);
        Box::new(E5Section {
            name: format!("lattice_n{n}"),
            bound: format!(
                "n={n}: ALL 2^{m} delivered-sets per round ({} for cipher->shares), every state probed at every party, every lattice edge executed; {common}; {}",
                format!("2^{}", n - 1),
                if reduced { "primes [30,35,40] bits, dense plaintext, first level + last level" } else { "primes [30,40],[30,35,40],[30,31,35,40] bits, t=17; plaintexts {0, all t-1, dense}; first and last level; share modes {library sampler, all-0, all-(t-1)}; thorough adds (ternary,error) scripts {(real,+21),(real,alternating),(all +1,+21)}" }
            ),
            cfgs: cfgs_for(n, cfg, reduced),
            mode: Mode::Lattice,
            seed,
            inner_parallel: inner,
            budget_share: share,
        })
    };
    let cover = |n: usize, share: f64| -> Box<dyn AnySection> {
        Box::new(E5Section {
            name: format!("cover_n{n}"),
            bound: format!(
                "n={n}: NON-EXHAUSTIVE covering family of delivery orders per round (canonical, reverse, every message last once, every message first once, every adjacent pair of the canonical order swapped), every prefix of the canonical and reverse orders and every all-but-one state probed; {common}; primes [30,35,40] bits, dense plaintext"
            ),
            cfgs: cfgs_for(n, cfg, true),
            mode: Mode::Cover,
            seed,
            inner_parallel: false,
            budget_share: share,
        })
    };
    let chained = |n: usize, share: f64| -> Box<dyn AnySection> {
        let lens: &[usize] = if th { &[2, 3] } else { &[2] };
        Box::new(E5Section {
            name: format!("chained_n{n}"),
            bound: format!(
                "n={n}: EVERY ordered {} of the 8 protocols (repetition allowed) run to completion one after the other on the SAME Participant objects (common random tape and private state carried over) x {{BFV,BGV,CKKS}}, primes [30,35,40] bits, dense plaintext, library share sampler; delivery orders: canonical, all rounds reversed, only the prefix reversed, only the last protocol reversed; in every round of the last protocol the empty and the all-but-one delivered sets are probed for refusal; the LAST protocol's outputs are judged with the oracles of the lattice sections (byte-identical keys, semantics under the summed key / target key, shares sum). Excluded: sequences containing shares_to_cipher under BGV (creation refused by the library). No protocol changes the participants' secret keys and update_secret_key is never called, so the summed key is the same at every step; key_switch / public_key_switch outputs are judged under their own target keys; inputs of every step are fresh encryptions of the plaintext (no data flow between steps)",
                if th { "pair and triple" } else { "pair" }
            ),
            cfgs: chain_cfgs(n, lens),
            mode: Mode::Chain,
            seed,
            inner_parallel: false,
            budget_share: share,
        })
    };
    if th {
        v.push(lattice(2, false, false, 0.1));
        v.push(lattice(3, false, false, 0.3));
        v.push(chained(2, 0.2));
        v.push(chained(3, 0.3));
        v.push(cover(5, 0.2));
        v.push(cover(6, 0.3));
        v.push(lattice(4, true, true, 0.5));
    } else {
        v.push(lattice(2, false, false, 0.2));
        v.push(lattice(3, false, false, 0.7));
        v.push(chained(2, 0.3));
        v.push(chained(3, 0.5));
        v.push(cover(5, 0.5));
        v.push(cover(6, 0.5));
    }
    v.extend(value_history_sections(cfg));
    v.extend(size_sections(cfg));
    v
}
