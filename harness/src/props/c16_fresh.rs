//! C16 (b): freshness of the randomness of encryptions and key generations (hook H1 on), and the
//! explicit-generator entry points.

use super::stream::SeedSpec;
use crate::engine::*;
use crate::he::{self, chain, ParamSpec, Scheme};
use crate::refmodel::blakestream::*;
use heathcliff::util::rlwe::encrypt_zero;
use heathcliff::util::BlakeRNG;
use heathcliff::verif_hooks::{self, NoiseMode};
use heathcliff::*;
use rand::RngCore;
use serde::{Deserialize, Serialize};
use std::collections::HashMap;
use std::sync::Arc;
use std::time::Duration;

const N: usize = 16;

pub fn spec3(s: Scheme) -> ParamSpec {
    ParamSpec::new(s, N, chain(N, &[30, 30, 31]), 97)
}
pub fn spec1(s: Scheme) -> ParamSpec {
    ParamSpec::new(s, N, chain(N, &[40]), 97)
}

struct World {
    spec: ParamSpec,
    ctx: Arc<HeContext>,
    kg: KeyGenerator,
    sk: SecretKey,
    pk: PublicKey,
    other_sk: SecretKey,
    enc: Encryptor,
    dec: Decryptor,
    pt: Plaintext,
    ckks: Option<CKKSEncoder>,
}

const CKKS_VALS: [(f64, f64); 2] = [(1.5, -2.0), (0.25, 3.0)];

impl World {
    fn new(spec: &ParamSpec) -> Result<World, String> {
        guard(|| {
            let ctx = spec.context();
            assert!(ctx.parameters_set(), "parameters not set");
            let kg = KeyGenerator::new(ctx.clone());
            let sk = kg.secret_key().clone();
            let pk = kg.create_public_key(false);
            let other = KeyGenerator::new(ctx.clone());
            let other_sk = other.secret_key().clone();
            let enc = Encryptor::new(ctx.clone()).set_public_key(pk.clone()).set_secret_key(sk.clone());
            let dec = Decryptor::new(ctx.clone(), sk.clone());
            let (pt, ckks) = if spec.scheme == Scheme::CKKS {
                let e = CKKSEncoder::new(ctx.clone());
                let vals: Vec<num_complex::Complex<f64>> = CKKS_VALS.iter().map(|&(a, b)| num_complex::Complex::new(a, b)).collect();
                (e.encode_c64_array_new(&vals, None, (1u64 << 20) as f64), Some(e))
            } else {
                let mut p = Plaintext::new();
                p.resize(3);
                p.data_mut()[..3].copy_from_slice(&[1, 2, 3]);
                (p, None)
            };
            World { spec: spec.clone(), ctx, kg, sk, pk, other_sk, enc, dec, pt, ckks }
        })
    }

    fn moduli(&self, id: &ParmsID) -> Vec<u64> {
        self.ctx.get_context_data(id).unwrap().parms().coeff_modulus().iter().map(|m| m.value()).collect()
    }

    /// does the ciphertext decrypt to the plaintext of this world?
    fn decrypts(&self, ct: &Ciphertext) -> Result<bool, String> {
        guard(|| {
            let p = self.dec.decrypt_new(ct);
            match &self.ckks {
                None => {
                    let mut v: Vec<u64> = p.data().to_vec();
                    v.resize(N, 0);
                    v[..3] == [1, 2, 3] && v[3..].iter().all(|&x| x == 0)
                }
                Some(e) => {
                    let d = e.decode_new(&p);
                    CKKS_VALS.iter().enumerate().all(|(i, &(a, b))| (d[i].re - a).abs() < 0.01 && (d[i].im - b).abs() < 0.01)
                }
            }
        })
    }
}

#[derive(Default)]
struct Pool {
    map: HashMap<Vec<u64>, String>,
    dup: Option<(String, String)>,
    items: u64,
}

impl Pool {
    fn add(&mut self, label: &str, words: &[u64]) {
        self.items += 1;
        if let Some(prev) = self.map.insert(words.to_vec(), label.to_string()) {
            if self.dup.is_none() {
                self.dup = Some((prev, label.to_string()));
            }
        }
    }
    fn add_components(&mut self, label: &str, data: &[u64]) {
        for (j, c) in data.chunks(N).enumerate() {
            self.add(&format!("{label}[rns {j}]"), c);
        }
    }
}

fn kind(label: &str) -> String {
    // "Relin#2.key0.1.c1[rns 0]" -> "Relin.c1"
    let op = label.split('#').next().unwrap_or("?");
    let what = label.rsplit('.').next().unwrap_or("?").split('[').next().unwrap_or("?");
    format!("{op}.{what}")
}

fn seed_bytes(words: &[u64]) -> [u8; 64] {
    let mut b = [0u8; 64];
    for (i, w) in words.iter().enumerate() {
        b[8 * i..8 * i + 8].copy_from_slice(&w.to_le_bytes());
    }
    b
}


/// Expansion of a stored seed: equal to the reference expansion (uniform polynomial from BlakeRNG(seed), reference rule) or —
/// when the library maps generator output to residues differently than the reference does, which the property does not fix —
/// at least reproducible: a second expansion and an expansion under an independently built context give the same
/// polynomial, with every residue below its modulus.
fn expansion_ok(w: &World, ct: &Ciphertext, ex: &Ciphertext, seed: &[u64], moduli: &[u64]) -> Result<(), (String, String)> {
    let reference = uniform_from_stream(&mut RefStream::new(seed_bytes(seed)), N, moduli);
    if ex.poly(1) == reference.as_slice() {
        return Ok(());
    }
    let ctx2 = w.spec.context();
    let again = guard(|| (ct.clone().expand_seed(&w.ctx), ct.clone().expand_seed(&ctx2))).map_err(|p| ("expanding twice succeeds".to_string(), p))?;
    if again.0.poly(1) != ex.poly(1) || again.1.poly(1) != ex.poly(1) {
        return Err(("the same stored seed expands to the same polynomial every time and under an independently built context".into(), format!("{:?} / {:?} / {:?}", &ex.poly(1)[..3], &again.0.poly(1)[..3], &again.1.poly(1)[..3])));
    }
    for (j, &q) in moduli.iter().enumerate() {
        if let Some(x) = ex.poly(1)[j * N..(j + 1) * N].iter().find(|&&x| x >= q) {
            return Err((format!("expanded residues below q_{j} = {q}"), format!("{x}")));
        }
    }
    Ok(())
}

/// Adds the mask of one two-polynomial object; checks the seeded expansion against the reference.
fn masks_of(w: &World, pool: &mut Pool, label: &str, ct: &Ciphertext) -> Result<bool, Fail> {
    let sch = w.spec.scheme;
    if ct.size() != 2 {
        return Err(Fail { key: format!("fresh:{sch:?}:{}:size", kind(label)), expected: "two polynomials".into(), observed: format!("{}", ct.size()) });
    }
    let seeded = ct.contains_seed();
    if seeded {
        let seed: Vec<u64> = ct.poly(1)[1..9].to_vec();
        pool.add(&format!("{label}.seed"), &seed);
        let ex = match guard(|| ct.clone().expand_seed(&w.ctx)) {
            Ok(e) => e,
            Err(p) => return Err(Fail { key: format!("fresh:expand:panic:{}", panic_class(&p)), expected: "expand_seed succeeds on a freshly produced seeded object".into(), observed: p }),
        };
        let moduli = w.moduli(ct.parms_id());
        if ex.poly(0) != ct.poly(0) || ex.contains_seed() {
            return Err(Fail {
                key: "fresh:expand:differs-from-reference".to_string(),
                expected: format!("{label}: c0 unchanged, seed flag cleared"),
                observed: format!("c0 unchanged = {}, contains_seed = {}", ex.poly(0) == ct.poly(0), ex.contains_seed()),
            });
        }
        if let Err((e, o)) = expansion_ok(w, ct, &ex, &seed, &moduli) {
            return Err(Fail { key: "fresh:expand:not-reproducible".to_string(), expected: format!("{label}: {e}"), observed: o });
        }
        pool.add_components(&format!("{label}.c1"), ex.poly(1));
    } else {
        pool.add_components(&format!("{label}.c1"), ct.poly(1));
    }
    pool.add_components(&format!("{label}.c0"), ct.poly(0));
    Ok(seeded)
}

fn kswitch_masks(w: &World, pool: &mut Pool, label: &str, k: &KSwitchKeys) -> Result<u64, Fail> {
    let mut n = 0;
    for (i, v) in k.data().iter().enumerate() {
        for (j, pk) in v.iter().enumerate() {
            masks_of(w, pool, &format!("{label}.key{i}_{j}"), pk.as_ciphertext())?;
            n += 1;
        }
    }
    Ok(n)
}

#[derive(Serialize, Deserialize, Clone, Copy, Debug, PartialEq, Eq, Hash)]
pub enum Op {
    EncPk,
    EncSk,
    EncSkSeed,
    EncZero,
    Keygen,
    Pk,
    Relin,
    Galois,
    Ksk,
}

pub const OPS: [Op; 9] = [Op::EncPk, Op::EncSk, Op::EncSkSeed, Op::EncZero, Op::Keygen, Op::Pk, Op::Relin, Op::Galois, Op::Ksk];

#[derive(Serialize, Deserialize, Clone, Debug)]
pub struct HistCase {
    pub spec: ParamSpec,
    pub ops: Vec<Op>,
    pub save_seed: bool,
    /// run on the library's own entropy path (no entropy script installed): `BlakeRNGFactory::get_rng` as shipped
    #[serde(default)]
    pub os_entropy: bool,
}

fn check_hist(c: &HistCase, seed: u64) -> CaseOut {
    he::env_real(seed, h64(&serde_json::to_string(c).unwrap()));
    if c.os_entropy {
        // the factory's real path: a collision of two 512-bit seeds / 480-bit masks drawn from OS entropy is not a reachable
        // event, so "pairwise distinct" stays a sound oracle; what a failing history reports is deterministic in its key
        verif_hooks::set_entropy(None);
    }
    let sch = c.spec.scheme;
    let mut w = match World::new(&c.spec) {
        Ok(w) => w,
        Err(p) => return CaseOut::fail(format!("fresh:{sch:?}:setup:panic:{}", panic_class(&p)), "context and keys can be built", p),
    };
    let decomp = w.moduli(w.ctx.first_parms_id()).len() as u64;
    let mut pool = Pool::default();
    pool.add_components("Setup#0.sk", w.sk.data());
    pool.add_components("Setup#0.othersk", w.other_sk.data());
    if let Err(f) = masks_of(&w, &mut pool, "Setup#0.pk", w.pk.as_ciphertext()) {
        return CaseOut { nontrivial: true, outcome: h64(&f.key), steps: 1, verdict: Verdict::Fail(f) };
    }
    let mut deltas: Vec<u64> = vec![];
    let mut steps = 0u64;
    for (i, &op) in c.ops.iter().enumerate() {
        let label = format!("{op:?}#{}", i + 1);
        let before = verif_hooks::entropy_calls();
        let ss = c.save_seed;
        // the operation
        enum Out {
            Ct(Ciphertext),
            Kg(KeyGenerator),
            Ks(KSwitchKeys),
        }
        let r = guard(|| match op {
            Op::EncPk => Out::Ct(w.enc.encrypt_new(&w.pt)),
            Op::EncSk => {
                let mut ct = Ciphertext::new();
                w.enc.encrypt_symmetric(&w.pt, &mut ct);
                Out::Ct(ct)
            }
            Op::EncSkSeed => Out::Ct(w.enc.encrypt_symmetric_new(&w.pt)),
            Op::EncZero => Out::Ct(w.enc.encrypt_zero_new()),
            Op::Keygen => Out::Kg(KeyGenerator::new(w.ctx.clone())),
            Op::Pk => Out::Ct(w.kg.create_public_key(ss).as_ciphertext().clone()),
            Op::Relin => Out::Ks(w.kg.create_relin_keys(ss).as_kswitch_keys().clone()),
            Op::Galois => Out::Ks(w.kg.create_galois_keys_from_elts(&[3], ss).as_kswitch_keys().clone()),
            Op::Ksk => Out::Ks(w.kg.create_keyswitching_key(&w.other_sk, ss)),
        });
        let delta = verif_hooks::entropy_calls() - before;
        deltas.push(delta);
        steps += 1;
        let out = match r {
            Ok(o) => o,
            Err(p) => return CaseOut::fail(format!("fresh:{sch:?}:{op:?}:panic:{}", panic_class(&p)), format!("history {:?}: operation #{} succeeds", c.ops, i + 1), p),
        };
        // How many generators an operation requests from the context is an implementation detail (upstream SEAL uses one
        // bootstrap generator where this port used two): freshness is decided below on the masks and seeds themselves.
        // (This was a violation "too-few-generators" until two behaviour-preserving refactors tripped it, DESIGN §10.)
        let res: Result<(), Fail> = (|| {
            match out {
                Out::Ct(ct) => {
                    let seeded = masks_of(&w, &mut pool, &label, &ct)?;
                    if op == Op::EncSkSeed {
                        if !seeded {
                            return Err(Fail { key: format!("fresh:{sch:?}:EncSkSeed:no-seed"), expected: "encrypt_symmetric_new stores a seed (polynomial has >= 9 words)".into(), observed: "contains_seed() = false".into() });
                        }
                        let ex = ct.clone().expand_seed(&w.ctx);
                        match w.decrypts(&ex) {
                            Ok(true) => {}
                            Ok(false) => return Err(Fail { key: format!("fresh:{sch:?}:EncSkSeed:expanded-does-not-decrypt"), expected: "the expanded ciphertext decrypts to the plaintext (the expansion reproduces the mask used for c0)".into(), observed: "different plaintext".into() }),
                            Err(p) => return Err(Fail { key: format!("fresh:{sch:?}:EncSkSeed:decrypt-panic:{}", panic_class(&p)), expected: "decrypts".into(), observed: p }),
                        }
                    }
                }
                Out::Kg(kg) => {
                    pool.add_components(&format!("{label}.sk"), kg.secret_key().data());
                    w.kg = kg;
                }
                Out::Ks(k) => {
                    let n = kswitch_masks(&w, &mut pool, &label, &k)?;
                    if n < decomp {
                        return Err(Fail { key: format!("fresh:{sch:?}:{op:?}:key-count"), expected: format!("{decomp} key components"), observed: format!("{n}") });
                    }
                }
            }
            Ok(())
        })();
        if let Err(f) = res {
            return CaseOut { nontrivial: true, outcome: h64(&f.key), steps, verdict: Verdict::Fail(f) };
        }
        if let Some((a, b)) = &pool.dup {
            let (mut ka, mut kb) = (kind(a), kind(b));
            if ka > kb {
                std::mem::swap(&mut ka, &mut kb);
            }
            return CaseOut::fail(
                format!("fresh:dup:{ka}~{kb}"),
                format!("{} history {:?} (save_seed={}): all mask polynomials / stored seeds / secrets pairwise distinct", c.spec.label(), c.ops, c.save_seed),
                format!("{a} == {b}"),
            );
        }
    }
    CaseOut::pass(true, h64(&(sch, &deltas, pool.items)), steps)
}

// ---------------------------------------------------------------------------------------------
// explicit generator state
// ---------------------------------------------------------------------------------------------

#[derive(Serialize, Deserialize, Clone, Debug)]
pub struct ExplCase {
    pub spec: ParamSpec,
    pub api: String,
    pub prng: SeedSpec,
    pub advance: usize,
}

const SYM_APIS: [&str; 6] = ["enc_sym", "enc_sym_seed", "zero_sym", "zero_sym_seed", "pk", "pk_seed"];
const ASYM_APIS: [&str; 3] = ["enc_asym", "zero_asym", "rlwe_asym"];

fn mk(p: SeedSpec, advance: usize) -> BlakeRNG {
    let mut g = p.rng();
    let mut b = vec![0u8; advance];
    g.fill_bytes(&mut b);
    g
}

fn run_api(w: &World, api: &str, g: &mut BlakeRNG) -> Ciphertext {
    let mut ct = Ciphertext::new();
    match api {
        "enc_sym" => w.enc.encrypt_symmetric_with_u_prng(&w.pt, g, &mut ct),
        "enc_sym_seed" => ct = w.enc.encrypt_symmetric_new_with_u_prng(&w.pt, g),
        "zero_sym" => w.enc.encrypt_zero_symmetric_with_u_prng(g, &mut ct),
        "zero_sym_seed" => ct = w.enc.encrypt_zero_symmetric_new_with_u_prng(g),
        "pk" => ct = w.kg.create_public_key_with_u_prng(false, g).as_ciphertext().clone(),
        "pk_seed" => ct = w.kg.create_public_key_with_u_prng(true, g).as_ciphertext().clone(),
        "enc_asym" => w.enc.encrypt_with_u_prng(&w.pt, g, &mut ct),
        "zero_asym" => ct = w.enc.encrypt_zero_new_with_u_prng(g),
        "rlwe_asym" => {
            let ntt = w.spec.scheme != Scheme::BFV;
            encrypt_zero::asymmetric_with_u_prng(&w.pk, &w.ctx, w.ctx.key_parms_id(), ntt, g, &mut ct)
        }
        _ => panic!("unknown api {api}"),
    }
    ct
}

struct Run {
    ct: Ciphertext,
    tail: [u8; 16],
    calls: u64,
}

fn run_once(w: &World, api: &str, p: SeedSpec, advance: usize) -> Result<Run, String> {
    guard(|| {
        let mut g = mk(p, advance);
        let before = verif_hooks::entropy_calls();
        let ct = run_api(w, api, &mut g);
        let calls = verif_hooks::entropy_calls() - before;
        let mut tail = [0u8; 16];
        g.fill_bytes(&mut tail);
        Run { ct, tail, calls }
    })
}

fn mask(ct: &Ciphertext) -> Vec<u64> {
    if ct.contains_seed() {
        ct.poly(1)[..9].to_vec()
    } else {
        ct.poly(1).to_vec()
    }
}

fn check_expl(c: &ExplCase, seed: u64) -> CaseOut {
    he::env_real(seed, h64(&serde_json::to_string(c).unwrap()));
    let sch = c.spec.scheme;
    let api = c.api.as_str();
    let w = match World::new(&c.spec) {
        Ok(w) => w,
        Err(p) => return CaseOut::fail(format!("expl:{sch:?}:setup:panic:{}", panic_class(&p)), "context and keys can be built", p),
    };
    let inp = format!("{} {api} generator seed {:?} advanced by {} bytes", c.spec.label(), c.prng, c.advance);
    macro_rules! run {
        ($adv:expr) => {
            match run_once(&w, api, c.prng, $adv) {
                Ok(r) => r,
                Err(p) => return CaseOut::fail(format!("expl:{api}:panic:{}", panic_class(&p)), format!("{inp}: no panic"), p),
            }
        };
    }
    let fail = |what: &str, exp: &str, obs: String| CaseOut::fail(format!("expl:{api}:{what}"), format!("{inp}: {exp}"), obs);
    let symmetric = SYM_APIS.contains(&api);
    let mut steps = 0u64;
    let a = run!(c.advance);
    let b = run!(c.advance);
    let d = run!(c.advance + 1);
    steps += 3;
    if a.calls < 1 {
        return fail("no-fresh-noise-generator", "at least one generator is requested from the context for the noise", format!("{}", a.calls));
    }
    if a.tail != b.tail {
        return fail("generator-left-in-different-state", "the explicit generator is advanced identically by identical calls", format!("{:02x?} vs {:02x?}", a.tail, b.tail));
    }
    let mut obs_bits = 0u32;
    if symmetric {
        if mask(&a.ct) != mask(&b.ct) {
            return fail("same-state-different-mask", "same generator state => identical mask (c1 resp. stored seed)", format!("{:?} vs {:?}", &mask(&a.ct)[..3], &mask(&b.ct)[..3]));
        }
        if a.ct.poly(0) == b.ct.poly(0) {
            return fail("same-state-same-error", "same mask generator state but fresh noise => c0 differs", "c0 identical".into());
        }
        if mask(&d.ct) == mask(&a.ct) {
            return fail("different-state-same-mask", "generator advanced by one more byte => different mask", "identical".into());
        }
        // where does the mask seed come from (observation): next 64 bytes of the explicit generator
        let mut rs = RefStream::new(c.prng.bytes());
        if a.tail[..] == *rs.bytes(c.advance + 64, 16) {
            obs_bits |= 1;
        }
        let seeded = a.ct.contains_seed();
        if api.ends_with("_seed") != seeded {
            return fail("seed-flag", "the *_seed entry points store a seed, the others do not", format!("contains_seed = {seeded}"));
        }
        if seeded {
            let seedw: Vec<u64> = a.ct.poly(1)[1..9].to_vec();
            if seed_bytes(&seedw)[..] == *rs.bytes(c.advance, 64) {
                obs_bits |= 2;
            }
            let ex = match guard(|| a.ct.clone().expand_seed(&w.ctx)) {
                Ok(e) => e,
                Err(p) => return fail(&format!("expand-panic:{}", panic_class(&p)), "expand_seed succeeds", p),
            };
            let moduli = w.moduli(a.ct.parms_id());
            if let Err((e, o)) = expansion_ok(&w, &a.ct, &ex, &seedw, &moduli) {
                return fail("expand-not-reproducible", &e, o);
            }
            if api != "pk_seed" {
                match w.decrypts(&ex) {
                    Ok(true) => {}
                    Ok(false) if api == "zero_sym_seed" => {
                        // zero plaintext: checked below through the unseeded sibling instead
                    }
                    Ok(false) => return fail("expanded-does-not-decrypt", "expanded ciphertext decrypts to the plaintext", "different plaintext".into()),
                    Err(p) => return fail(&format!("decrypt-panic:{}", panic_class(&p)), "decrypts", p),
                }
            }
            // NTT-form objects: the unseeded sibling samples the same polynomial directly
            if a.ct.is_ntt_form() {
                let sib = api.trim_end_matches("_seed");
                let s = match run_once(&w, sib, c.prng, c.advance) {
                    Ok(r) => r,
                    Err(p) => return fail(&format!("sibling-panic:{}", panic_class(&p)), "no panic", p),
                };
                steps += 1;
                if s.ct.poly(1) != ex.poly(1) {
                    return fail("seeded-vs-unseeded-mask", "same generator state: the expanded c1 equals the c1 of the entry point that does not store the seed", "different polynomials".into());
                }
                obs_bits |= 4;
            }
        }
    } else {
        // no modulus switching between sampling and output => the fresh error is visible
        let visible = api == "rlwe_asym" || c.spec.q.len() == 1;
        let same = a.ct.data() == b.ct.data();
        if visible && (a.ct.poly(0) == b.ct.poly(0) || a.ct.poly(1) == b.ct.poly(1)) {
            return fail("same-state-same-error", "same u generator state but fresh noise => both polynomials differ", "identical".into());
        }
        if same {
            obs_bits |= 8;
        }
        // error scripted to zero: the output is a function of the mask u alone
        verif_hooks::set_noise(NoiseMode::Real, NoiseMode::Zero);
        let a0 = run!(c.advance);
        let b0 = run!(c.advance);
        let d0 = run!(c.advance + 4);
        verif_hooks::set_noise(NoiseMode::Real, NoiseMode::Real);
        steps += 3;
        if a0.ct.data() != b0.ct.data() {
            return fail("same-state-different-mask", "zero error + same u generator state => identical ciphertext", "different".into());
        }
        if d0.ct.data() == a0.ct.data() {
            return fail("different-state-same-mask", "zero error + generator advanced by 4 more bytes => different ciphertext", "identical".into());
        }
        if visible && a0.ct.data() == a.ct.data() {
            return fail("error-not-added", "real error differs from zero error", "identical".into());
        }
    }
    CaseOut::pass(true, h64(&(sch, api, obs_bits, a.calls)), steps)
}

pub fn sections(thorough: bool, seed: u64) -> Vec<Box<dyn AnySection>> {
    let mut v: Vec<Box<dyn AnySection>> = vec![];
    // histories
    let mut cases: Vec<HistCase> = vec![];
    let maxlen = if thorough { 4 } else { 3 };
    for len in 1..=maxlen {
        for sch in Scheme::all() {
            let spec = spec3(sch);
            let total = OPS.len().pow(len as u32);
            for code in 0..total {
                let mut ops = vec![];
                let mut x = code;
                for _ in 0..len {
                    ops.push(OPS[x % OPS.len()]);
                    x /= OPS.len();
                }
                let uses_keys = ops.iter().any(|o| matches!(o, Op::Pk | Op::Relin | Op::Galois | Op::Ksk));
                for ss in [false, true] {
                    if ss && !uses_keys {
                        continue;
                    }
                    cases.push(HistCase { spec: spec.clone(), ops: ops.clone(), save_seed: ss, os_entropy: false });
                }
            }
        }
    }
    v.push(
        E1::new(
            "fresh_histories",
            &format!("BFV/BGV/CKKS at N=16, q=(30,30,31 bits): ALL histories of length <= {maxlen} over {{encrypt pk, encrypt sk, encrypt sk+seed, encrypt_zero, new KeyGenerator, create_public_key, create_relin_keys, create_galois_keys_from_elts([3]), create_keyswitching_key}}, key operations with save_seed in {{false,true}}"),
            cases.into_iter(),
            move |c: &HistCase| check_hist(c, seed),
        )
        .deadline(Duration::from_secs(60)),
    );

    // the same histories on the factory's own entropy path (the hook of H1 returns before that code, so state kept by the
    // factory between generators — a counter, a cached master seed — is visible only here)
    let oslen = if thorough { 3 } else { 2 };
    let mut cases: Vec<HistCase> = vec![];
    for len in 1..=oslen {
        for sch in Scheme::all() {
            let spec = spec3(sch);
            for code in 0..OPS.len().pow(len as u32) {
                let mut ops = vec![];
                let mut x = code;
                for _ in 0..len {
                    ops.push(OPS[x % OPS.len()]);
                    x /= OPS.len();
                }
                let uses_keys = ops.iter().any(|o| matches!(o, Op::Pk | Op::Relin | Op::Galois | Op::Ksk));
                for ss in [false, true] {
                    if ss && !uses_keys {
                        continue;
                    }
                    cases.push(HistCase { spec: spec.clone(), ops: ops.clone(), save_seed: ss, os_entropy: true });
                }
            }
        }
    }
    v.push(
        E1::new(
            "fresh_histories_os_entropy",
            &format!("the histories of length <= {oslen} of fresh_histories with NO entropy script installed: BlakeRNGFactory::get_rng runs as shipped (OS entropy); masks / stored seeds / secrets pairwise distinct, seeded objects expand to what decrypts"),
            cases.into_iter(),
            move |c: &HistCase| check_hist(c, seed),
        )
        .deadline(Duration::from_secs(60)),
    );

    // explicit state
    let mut cases: Vec<ExplCase> = vec![];
    let prngs: Vec<SeedSpec> = if thorough {
        vec![SeedSpec::Zero, SeedSpec::Ones, SeedSpec::FF, SeedSpec::Bit(0), SeedSpec::Bit(7), SeedSpec::Bit(256), SeedSpec::Bit(511)]
    } else {
        vec![SeedSpec::Zero, SeedSpec::Ones, SeedSpec::FF, SeedSpec::Bit(0), SeedSpec::Bit(511)]
    };
    let mut advances: Vec<usize> = vec![0, 1, 2, 3, 4, 7, 8, 4031, 4032, 4033, 4090, 4095, 4096];
    if thorough {
        advances.extend(4000..4031);
        advances.extend(4034..4090);
        advances.extend([8128, 8191, 8192]);
        advances.sort();
        advances.dedup();
    }
    for sch in Scheme::all() {
        for spec in [spec3(sch), spec1(sch)] {
            for api in SYM_APIS.iter().chain(ASYM_APIS.iter()) {
                for &p in &prngs {
                    for &a in &advances {
                        cases.push(ExplCase { spec: spec.clone(), api: api.to_string(), prng: p, advance: a });
                    }
                }
            }
        }
    }
    v.push(
        E1::new(
            "explicit_state",
            &format!(
                "3 schemes x {{3 primes, 1 prime}} at N=16 x 9 entry points taking an explicit generator x {} generator seeds x {} pre-consumed byte counts (alignment skips and refills inside the mask draw)",
                prngs.len(),
                advances.len()
            ),
            cases.into_iter(),
            move |c: &ExplCase| check_expl(c, seed),
        )
        .deadline(Duration::from_secs(60)),
    );
    v
}
