//! C14 — serialization round-trips every object exactly, sizes exact, across contexts.
//!
//! E1 sections:
//!  * `scalars`  scalar / vector / Modulus / SchemeType / ParmsID writers on boundary alphabets
//!  * `objects`  (parameter set x object kind): every variant of the kind is written back to back into ONE
//!               stream (+ sentinel byte), read back in the same context and in a context rebuilt from the
//!               serialized EncryptionParameters; announced size = returned count = bytes written = bytes
//!               consumed; restored object field-wise equal to the (seed-expanded) original
//!  * `terms`    `serialize_terms` over ALL 2^N term subsets (ascending + one shuffled order) for N <= 8
//!  * `rnsp`     the Rnsp* wrappers (component-wise serialization over several plain moduli)
//!
//! production-size sections (same oracle; every dimension the serializers loop over is driven across 8/9, 16/17, .. 4096/4097,
//! 8192, 65536 by structured families):
//!  * `big-primes`  chains of 1..19 (24, 31..33, 63, 64) primes at N = 4 / 8 x every object kind (+ `levelbox`)
//!  * `big-words`   (N <= 32768, chain, sizes) grids whose totals size*primes*N of data words lie on both sides of 1024, 4096,
//!                  8192, 65536, in all three ciphertext formats, seeded and expanded; plaintexts / vectors of exactly L words;
//!                  keys at production degree
//!  * `big-terms`   `serialize_terms` over term FAMILIES (singles, prefixes, suffixes, combs, descending, shuffled) for N = 32..8192
//!  * `big-shapes`  containers of every length 0..20, boxes, ragged shapes, lengths up to 4097
//!  * `big-rnsp`    Rnsp* wrappers with 1..64 primes, 1..17 plain moduli and at N = 256..4096
//!
//! The deciding step is exhaustive enumeration; nothing is sampled. `cfg.seed` only selects the
//! generic fill constants of crafted residues.

use crate::engine::*;
use crate::he::{self, Kit, ParamSpec, Scheme};
use crate::refmodel::ntt::{fast_intt, fast_ntt};
use crate::refmodel::poly::naive_ntt;
use crate::refmodel::ser::{fill, naive_intt};
use heathcliff::app::matmul::cipher3d::{Cipher3d, Plain3d};
use heathcliff::app::matmul::{Cipher1d, Cipher2d, Plain1d, Plain2d};
use heathcliff::app::rns_plain::{
    RnspCiphertext, RnspEncryptionParameters, RnspEncryptor, RnspExpandSeed, RnspGaloisKeys, RnspHeContext, RnspKeyGenerator,
    RnspPlaintext, RnspPublicKey, RnspRelinKeys, RnspSerializableWithHeContext,
};
use heathcliff::*;
use serde::{Deserialize, Serialize};
use std::collections::BTreeSet;
use std::io;
use std::sync::Arc;

pub fn describe(rep: &Report) {
    rep.set_rule(
        "case = (parameter set with explicit primes, object kind); the check builds every variant of that kind (levels, sizes, \
         representations, seeded/expanded, metadata, missing entries, empty/ragged containers), writes them back to back into one \
         stream followed by a sentinel byte and reads them back twice (same context; context rebuilt from the serialized \
         parameters). traces_validated_against_impl counts single serialize / deserialize calls compared with the oracle. \
         non-trivial = at least one variant was written and restored. terms: every subset of {0..N-1} in ascending and one \
         shuffled order. big-* sections: the same oracle at production sizes - case = (parameter set, kind / ciphertext variant / \
         term family / container kind, share); many-prime chains at N = 4, 8; N up to 8192 (32768) with few primes; structured \
         families (every single term, prefix, suffix, comb; every container length and box) in place of full products.",
    );
    rep.assume("streams are complete in-memory buffers (I/O faults are C15)");
    rep.assume("the reference for seeded objects is ExpandSeed::expand_seed of the library applied element-wise (that IS the property's definition of the expanded form); the reference NTT/INTT of the selected-terms oracle is the naive O(N^2) evaluation map with the root of the context's table");
    rep.assume("crafted ciphertexts/plaintexts (public constructors, residues below the moduli incl. q-1 and 0) stand for evaluator results of sizes 3..16 and of both representations that tiny parameter sets cannot produce by real evaluation");
    rep.assume("big-* sections: for N > 64 (big-words: N > 16) the reference transform of the selected-terms oracle is refmodel::ntt::fast_ntt / fast_intt (O(N log N), validated against the by-definition transform in the harness self-test) with the root of the context's table; term lists are the structured families named in the section bound, not all 2^N subsets; total data-word counts are those reachable as size*primes*N (sizes 2..16, 1..64 primes) - exact counts 2^k-1 / 2^k+1 are reached by plaintexts, word vectors and the full format of seeded ciphertexts (primes*N + 9)");
    rep.assume("ExpandSeed of the Cipher1d/2d/3d containers is judged on homogeneous containers only (mixed seeded/unseeded rows are reported in REPORT.md as an observation)");
}

// ---------------------------------------------------------------------------------------------
// failure plumbing
// ---------------------------------------------------------------------------------------------

#[derive(Debug, Clone)]
struct Bad {
    key: String,
    expected: String,
    observed: String,
}
type R<T> = Result<T, Bad>;

fn bad(key: impl Into<String>, e: impl Into<String>, o: impl Into<String>) -> Bad {
    Bad { key: key.into(), expected: e.into(), observed: o.into() }
}

/// subject call returning io::Result on a VALID operand: panic or Err are violations
fn io_call<T>(key: &str, what: &str, detail: &str, f: impl FnOnce() -> io::Result<T>) -> R<T> {
    match guard(f) {
        Ok(Ok(v)) => Ok(v),
        Ok(Err(e)) => Err(bad(format!("{key}:{what}:err"), format!("Ok for {detail}"), format!("Err({e})"))),
        Err(p) => Err(bad(format!("{key}:{what}:panic:{}", panic_class(&p)), format!("no panic for {detail}"), p)),
    }
}
fn call<T>(key: &str, what: &str, detail: &str, f: impl FnOnce() -> T) -> R<T> {
    match guard(f) {
        Ok(v) => Ok(v),
        Err(p) => Err(bad(format!("{key}:{what}:panic:{}", panic_class(&p)), format!("no panic for {detail}"), p)),
    }
}

#[derive(Default)]
struct Stats {
    steps: u64,
    classes: BTreeSet<String>,
    skipped: BTreeSet<String>,
    bytes: u64,
}

// ---------------------------------------------------------------------------------------------
// the generic round-trip oracle
// ---------------------------------------------------------------------------------------------

trait Obj: Sized {
    /// context type the object is serialized relative to (HeContext or RnspHeContext)
    type Cx;
    fn kind() -> &'static str;
    fn ser(&self, cx: &Self::Cx, w: &mut Vec<u8>) -> io::Result<usize>;
    /// `like` carries out-of-band information only (the term list)
    fn de(cx: &Self::Cx, r: &mut &[u8], like: &Self) -> io::Result<Self>;
    fn size(&self, cx: &Self::Cx) -> usize;
    /// what deserialization must return
    fn expected(&self, cx: &Self::Cx) -> Self;
    /// (field, detail) of the first difference
    fn diff(&self, got: &Self) -> Option<(String, String)>;
}

struct Item<T> {
    class: String,
    label: String,
    obj: T,
}
fn item<T>(class: &str, label: impl Into<String>, obj: T) -> Item<T> {
    Item { class: class.to_string(), label: label.into(), obj }
}

type Ctxs = Vec<(&'static str, Arc<HeContext>)>;

/// All items back to back in one stream + sentinel; read back in every context.
fn stream_check<T: Obj>(sec: &str, items: &[Item<T>], ctxs: &[(&'static str, Arc<T::Cx>)], st: &mut Stats) -> R<()> {
    if items.is_empty() {
        return Ok(());
    }
    let a = &ctxs[0].1;
    let mut buf: Vec<u8> = Vec::new();
    let mut ends: Vec<usize> = Vec::with_capacity(items.len());
    for it in items {
        let key = format!("{sec}:{}:{}", T::kind(), it.class);
        let announced = call(&key, "serialized_size", &it.label, || it.obj.size(a))?;
        let before = buf.len();
        let ret = io_call(&key, "serialize", &it.label, || it.obj.ser(a, &mut buf))?;
        let written = buf.len() - before;
        if ret != announced || written != announced {
            return Err(bad(
                format!("{key}:size-mismatch"),
                format!("{}: announced = returned = written", it.label),
                format!("announced={announced} returned={ret} written={written}"),
            ));
        }
        ends.push(buf.len());
        st.steps += 1;
        st.bytes += written as u64;
        st.classes.insert(format!("{}:{}", T::kind(), it.class));
    }
    const SENTINEL: u8 = 0xA5;
    buf.push(SENTINEL);
    // one reader per context, advanced in lock-step (the expected object is computed once per item)
    let mut rds: Vec<&[u8]> = ctxs.iter().map(|_| &buf[..]).collect();
    for (i, it) in items.iter().enumerate() {
        let key = format!("{sec}:{}:{}", T::kind(), it.class);
        let exp = call(&key, "expand_seed", &it.label, || it.obj.expected(a))?;
        for (ci, (cname, cx)) in ctxs.iter().enumerate() {
            let detail = format!("{} (item {i} of the stream, context '{cname}')", it.label);
            let rd = &mut rds[ci];
            let got = io_call(&key, "deserialize", &detail, || T::de(cx, rd, &it.obj))?;
            let consumed = buf.len() - rd.len();
            if consumed != ends[i] {
                return Err(bad(
                    format!("{key}:consumed-mismatch"),
                    format!("{detail}: stream position {} after reading", ends[i]),
                    format!("position {consumed}"),
                ));
            }
            if let Some((field, d)) = exp.diff(&got) {
                return Err(bad(format!("{key}:restored-differs:{field}"), format!("{detail}: restored object equals the original"), d));
            }
            st.steps += 1;
        }
    }
    for (ci, (cname, _)) in ctxs.iter().enumerate() {
        if rds[ci] != [SENTINEL] {
            return Err(bad(
                format!("{sec}:{}:sentinel", T::kind()),
                format!("exactly the sentinel byte left after {} objects (context '{cname}')", items.len()),
                format!("{} bytes left", rds[ci].len()),
            ));
        }
    }
    Ok(())
}

// ---------------------------------------------------------------------------------------------
// field-wise comparisons
// ---------------------------------------------------------------------------------------------

type D = Option<(String, String)>;
fn d(field: &str, e: impl std::fmt::Debug, o: impl std::fmt::Debug) -> D {
    Some((field.to_string(), format!("{field}: expected {e:?}, restored {o:?}")))
}
fn first_diff(a: &[u64], b: &[u64]) -> Option<usize> {
    a.iter().zip(b).position(|(x, y)| x != y)
}

fn ct_diff(a: &Ciphertext, b: &Ciphertext) -> D {
    if a.size() != b.size() {
        return d("size", a.size(), b.size());
    }
    if a.coeff_modulus_size() != b.coeff_modulus_size() {
        return d("coeff_modulus_size", a.coeff_modulus_size(), b.coeff_modulus_size());
    }
    if a.poly_modulus_degree() != b.poly_modulus_degree() {
        return d("poly_modulus_degree", a.poly_modulus_degree(), b.poly_modulus_degree());
    }
    if a.parms_id() != b.parms_id() {
        return d("parms_id", a.parms_id(), b.parms_id());
    }
    if a.is_ntt_form() != b.is_ntt_form() {
        return d("is_ntt_form", a.is_ntt_form(), b.is_ntt_form());
    }
    if a.scale().to_bits() != b.scale().to_bits() {
        return d("scale", a.scale(), b.scale());
    }
    if a.correction_factor() != b.correction_factor() {
        return d("correction_factor", a.correction_factor(), b.correction_factor());
    }
    if a.data().len() != b.data().len() {
        return d("data_len", a.data().len(), b.data().len());
    }
    if let Some(i) = first_diff(a.data(), b.data()) {
        let per = (a.poly_modulus_degree() * a.coeff_modulus_size()).max(1);
        let n = a.poly_modulus_degree().max(1);
        return Some((
            "data".into(),
            format!("data[{i}] (poly {}, component {}, coefficient {}): expected {:#x}, restored {:#x}", i / per, (i % per) / n, i % n, a.data()[i], b.data()[i]),
        ));
    }
    None
}

fn pt_diff(a: &Plaintext, b: &Plaintext) -> D {
    if a.coeff_count() != b.coeff_count() {
        return d("coeff_count", a.coeff_count(), b.coeff_count());
    }
    if a.parms_id() != b.parms_id() {
        return d("parms_id", a.parms_id(), b.parms_id());
    }
    if a.scale().to_bits() != b.scale().to_bits() {
        return d("scale", a.scale(), b.scale());
    }
    if a.data().len() != b.data().len() {
        return d("data_len", a.data().len(), b.data().len());
    }
    if let Some(i) = first_diff(a.data(), b.data()) {
        return Some(("data".into(), format!("data[{i}]: expected {:#x}, restored {:#x}", a.data()[i], b.data()[i])));
    }
    None
}

fn modulus_diff(a: &Modulus, b: &Modulus) -> D {
    if a.value() != b.value() || a.bit_count() != b.bit_count() || a.const_ratio() != b.const_ratio() || a.is_prime() != b.is_prime() {
        return d(
            "modulus",
            (a.value(), a.bit_count(), a.const_ratio(), a.is_prime()),
            (b.value(), b.bit_count(), b.const_ratio(), b.is_prime()),
        );
    }
    None
}

fn parms_diff(a: &EncryptionParameters, b: &EncryptionParameters) -> D {
    if a.scheme() != b.scheme() {
        return d("scheme", a.scheme(), b.scheme());
    }
    if a.poly_modulus_degree() != b.poly_modulus_degree() {
        return d("poly_modulus_degree", a.poly_modulus_degree(), b.poly_modulus_degree());
    }
    if a.coeff_modulus().len() != b.coeff_modulus().len() {
        return d("coeff_modulus_len", a.coeff_modulus().len(), b.coeff_modulus().len());
    }
    for (x, y) in a.coeff_modulus().iter().zip(b.coeff_modulus()) {
        if let Some(x) = modulus_diff(x, y) {
            return Some(x);
        }
    }
    if let Some(x) = modulus_diff(a.plain_modulus(), b.plain_modulus()) {
        return Some(("plain_modulus".into(), x.1));
    }
    if a.use_special_prime_for_encryption() != b.use_special_prime_for_encryption() {
        return d("use_special_prime_for_encryption", a.use_special_prime_for_encryption(), b.use_special_prime_for_encryption());
    }
    if a.parms_id() != b.parms_id() {
        return d("parms_id", a.parms_id(), b.parms_id());
    }
    None
}

fn ksk_diff(a: &KSwitchKeys, b: &KSwitchKeys) -> D {
    if a.parms_id() != b.parms_id() {
        return d("parms_id", a.parms_id(), b.parms_id());
    }
    if a.keys().len() != b.keys().len() {
        return d("keys_len", a.keys().len(), b.keys().len());
    }
    for (i, (x, y)) in a.keys().iter().zip(b.keys()).enumerate() {
        if x.len() != y.len() {
            return Some(("entry_len".into(), format!("entry {i}: expected {} keys, restored {}", x.len(), y.len())));
        }
        for (j, (p, q)) in x.iter().zip(y).enumerate() {
            if let Some((f, m)) = ct_diff(p.as_ciphertext(), q.as_ciphertext()) {
                return Some((f, format!("entry {i} key {j}: {m}")));
            }
        }
    }
    None
}

fn expand_ct(c: &Ciphertext, cx: &HeContext) -> Ciphertext {
    if c.contains_seed() {
        c.clone().expand_seed(cx)
    } else {
        c.clone()
    }
}
fn expand_ksk(k: &KSwitchKeys, cx: &HeContext) -> KSwitchKeys {
    let keys = k.keys().iter().map(|v| v.iter().map(|p| PublicKey::new(expand_ct(p.as_ciphertext(), cx))).collect()).collect();
    KSwitchKeys::from_members(*k.parms_id(), keys)
}

// ---------------------------------------------------------------------------------------------
// Obj implementations
// ---------------------------------------------------------------------------------------------

/// context-free objects (trait Serializable)
trait Eqv: Clone {
    const NAME: &'static str;
    fn diffv(&self, o: &Self) -> D;
}
#[derive(Clone)]
struct NoCtx<T>(T);
impl<T: Serializable + Eqv> Obj for NoCtx<T> {
    type Cx = HeContext;
    fn kind() -> &'static str {
        T::NAME
    }
    fn ser(&self, _cx: &HeContext, w: &mut Vec<u8>) -> io::Result<usize> {
        Serializable::serialize(&self.0, w)
    }
    fn de(_cx: &HeContext, r: &mut &[u8], _like: &Self) -> io::Result<Self> {
        Ok(NoCtx(<T as Serializable>::deserialize(r)?))
    }
    fn size(&self, _cx: &HeContext) -> usize {
        Serializable::serialized_size(&self.0)
    }
    fn expected(&self, _cx: &HeContext) -> Self {
        self.clone()
    }
    fn diff(&self, got: &Self) -> D {
        self.0.diffv(&got.0)
    }
}
macro_rules! eqv_plain {
    ($t:ty, $n:expr) => {
        impl Eqv for $t {
            const NAME: &'static str = $n;
            fn diffv(&self, o: &Self) -> D {
                if self != o {
                    d("value", self, o)
                } else {
                    None
                }
            }
        }
    };
}
eqv_plain!(u64, "u64");
eqv_plain!(usize, "usize");
eqv_plain!(u8, "u8");
eqv_plain!(bool, "bool");
eqv_plain!(SchemeType, "SchemeType");
eqv_plain!(ParmsID, "ParmsID");
eqv_plain!(Vec<u64>, "Vec<u64>");
eqv_plain!(Vec<u8>, "Vec<u8>");
impl Eqv for f64 {
    const NAME: &'static str = "f64";
    fn diffv(&self, o: &Self) -> D {
        if self.to_bits() != o.to_bits() {
            d("bits", self.to_bits(), o.to_bits())
        } else {
            None
        }
    }
}
impl Eqv for Modulus {
    const NAME: &'static str = "Modulus";
    fn diffv(&self, o: &Self) -> D {
        modulus_diff(self, o)
    }
}
impl Eqv for Vec<Modulus> {
    const NAME: &'static str = "Vec<Modulus>";
    fn diffv(&self, o: &Self) -> D {
        if self.len() != o.len() {
            return d("len", self.len(), o.len());
        }
        self.iter().zip(o).find_map(|(x, y)| modulus_diff(x, y))
    }
}
impl Eqv for EncryptionParameters {
    const NAME: &'static str = "EncryptionParameters";
    fn diffv(&self, o: &Self) -> D {
        parms_diff(self, o)
    }
}
impl Eqv for Plaintext {
    const NAME: &'static str = "Plaintext";
    fn diffv(&self, o: &Self) -> D {
        pt_diff(self, o)
    }
}
impl Eqv for SecretKey {
    const NAME: &'static str = "SecretKey";
    fn diffv(&self, o: &Self) -> D {
        pt_diff(self.as_plaintext(), o.as_plaintext())
    }
}
fn p1_diff(a: &Plain1d, b: &Plain1d) -> D {
    if a.data.len() != b.data.len() {
        return d("len", a.data.len(), b.data.len());
    }
    a.data.iter().zip(&b.data).enumerate().find_map(|(i, (x, y))| pt_diff(x, y).map(|(f, m)| (f, format!("[{i}] {m}"))))
}
fn p2_diff(a: &Plain2d, b: &Plain2d) -> D {
    if a.data.len() != b.data.len() {
        return d("len", a.data.len(), b.data.len());
    }
    a.data.iter().zip(&b.data).enumerate().find_map(|(i, (x, y))| p1_diff(x, y).map(|(f, m)| (f, format!("[{i}] {m}"))))
}
impl Eqv for Plain1d {
    const NAME: &'static str = "Plain1d";
    fn diffv(&self, o: &Self) -> D {
        p1_diff(self, o)
    }
}
impl Eqv for Plain2d {
    const NAME: &'static str = "Plain2d";
    fn diffv(&self, o: &Self) -> D {
        p2_diff(self, o)
    }
}
impl Eqv for Plain3d {
    const NAME: &'static str = "Plain3d";
    fn diffv(&self, o: &Self) -> D {
        if self.data.len() != o.data.len() {
            return d("len", self.data.len(), o.data.len());
        }
        self.data.iter().zip(&o.data).enumerate().find_map(|(i, (x, y))| p2_diff(x, y).map(|(f, m)| (f, format!("[{i}] {m}"))))
    }
}

/// objects serialized relative to a context (trait SerializableWithHeContext)
trait EqvX: Clone {
    const NAME: &'static str;
    fn diffv(&self, o: &Self) -> D;
    /// element-wise seed expansion (the harness's own traversal; only Ciphertext::expand_seed is the library's)
    fn expandv(&self, cx: &HeContext) -> Self;
}
#[derive(Clone)]
struct WithCtx<T>(T);
impl<T: SerializableWithHeContext + EqvX> Obj for WithCtx<T> {
    type Cx = HeContext;
    fn kind() -> &'static str {
        T::NAME
    }
    fn ser(&self, cx: &HeContext, w: &mut Vec<u8>) -> io::Result<usize> {
        SerializableWithHeContext::serialize(&self.0, cx, w)
    }
    fn de(cx: &HeContext, r: &mut &[u8], _like: &Self) -> io::Result<Self> {
        Ok(WithCtx(<T as SerializableWithHeContext>::deserialize(cx, r)?))
    }
    fn size(&self, cx: &HeContext) -> usize {
        SerializableWithHeContext::serialized_size(&self.0, cx)
    }
    fn expected(&self, cx: &HeContext) -> Self {
        WithCtx(self.0.expandv(cx))
    }
    fn diff(&self, got: &Self) -> D {
        self.0.diffv(&got.0)
    }
}
impl EqvX for Ciphertext {
    const NAME: &'static str = "Ciphertext";
    fn diffv(&self, o: &Self) -> D {
        ct_diff(self, o)
    }
    fn expandv(&self, cx: &HeContext) -> Self {
        expand_ct(self, cx)
    }
}
impl EqvX for PublicKey {
    const NAME: &'static str = "PublicKey";
    fn diffv(&self, o: &Self) -> D {
        ct_diff(self.as_ciphertext(), o.as_ciphertext())
    }
    fn expandv(&self, cx: &HeContext) -> Self {
        PublicKey::new(expand_ct(self.as_ciphertext(), cx))
    }
}
impl EqvX for KSwitchKeys {
    const NAME: &'static str = "KSwitchKeys";
    fn diffv(&self, o: &Self) -> D {
        ksk_diff(self, o)
    }
    fn expandv(&self, cx: &HeContext) -> Self {
        expand_ksk(self, cx)
    }
}
impl EqvX for RelinKeys {
    const NAME: &'static str = "RelinKeys";
    fn diffv(&self, o: &Self) -> D {
        ksk_diff(self.as_kswitch_keys(), o.as_kswitch_keys())
    }
    fn expandv(&self, cx: &HeContext) -> Self {
        RelinKeys::new(expand_ksk(self.as_kswitch_keys(), cx))
    }
}
impl EqvX for GaloisKeys {
    const NAME: &'static str = "GaloisKeys";
    fn diffv(&self, o: &Self) -> D {
        ksk_diff(self.as_kswitch_keys(), o.as_kswitch_keys())
    }
    fn expandv(&self, cx: &HeContext) -> Self {
        GaloisKeys::new(expand_ksk(self.as_kswitch_keys(), cx))
    }
}
impl EqvX for Vec<Ciphertext> {
    const NAME: &'static str = "Vec<Ciphertext>";
    fn diffv(&self, o: &Self) -> D {
        if self.len() != o.len() {
            return d("len", self.len(), o.len());
        }
        self.iter().zip(o).enumerate().find_map(|(i, (x, y))| ct_diff(x, y).map(|(f, m)| (f, format!("[{i}] {m}"))))
    }
    fn expandv(&self, cx: &HeContext) -> Self {
        self.iter().map(|c| expand_ct(c, cx)).collect()
    }
}
impl EqvX for Vec<PublicKey> {
    const NAME: &'static str = "Vec<PublicKey>";
    fn diffv(&self, o: &Self) -> D {
        if self.len() != o.len() {
            return d("len", self.len(), o.len());
        }
        self.iter().zip(o).enumerate().find_map(|(i, (x, y))| ct_diff(x.as_ciphertext(), y.as_ciphertext()).map(|(f, m)| (f, format!("[{i}] {m}"))))
    }
    fn expandv(&self, cx: &HeContext) -> Self {
        self.iter().map(|p| p.expandv(cx)).collect()
    }
}
fn c1_diff(a: &Cipher1d, b: &Cipher1d) -> D {
    if a.data.len() != b.data.len() {
        return d("len", a.data.len(), b.data.len());
    }
    a.data.iter().zip(&b.data).enumerate().find_map(|(i, (x, y))| ct_diff(x, y).map(|(f, m)| (f, format!("[{i}] {m}"))))
}
fn c2_diff(a: &Cipher2d, b: &Cipher2d) -> D {
    if a.data.len() != b.data.len() {
        return d("len", a.data.len(), b.data.len());
    }
    a.data.iter().zip(&b.data).enumerate().find_map(|(i, (x, y))| c1_diff(x, y).map(|(f, m)| (f, format!("[{i}] {m}"))))
}
fn c3_diff(a: &Cipher3d, b: &Cipher3d) -> D {
    if a.data.len() != b.data.len() {
        return d("len", a.data.len(), b.data.len());
    }
    a.data.iter().zip(&b.data).enumerate().find_map(|(i, (x, y))| c2_diff(x, y).map(|(f, m)| (f, format!("[{i}] {m}"))))
}
fn c1_map(a: &Cipher1d, f: &dyn Fn(&Ciphertext) -> Ciphertext) -> Cipher1d {
    Cipher1d::new(a.data.iter().map(f).collect())
}
fn c2_map(a: &Cipher2d, f: &dyn Fn(&Ciphertext) -> Ciphertext) -> Cipher2d {
    Cipher2d::new_1ds(a.data.iter().map(|x| c1_map(x, f)).collect())
}
fn c3_map(a: &Cipher3d, f: &dyn Fn(&Ciphertext) -> Ciphertext) -> Cipher3d {
    Cipher3d::new_2ds(a.data.iter().map(|x| c2_map(x, f)).collect())
}
impl EqvX for Cipher1d {
    const NAME: &'static str = "Cipher1d";
    fn diffv(&self, o: &Self) -> D {
        c1_diff(self, o)
    }
    fn expandv(&self, cx: &HeContext) -> Self {
        c1_map(self, &|c| expand_ct(c, cx))
    }
}
impl EqvX for Cipher2d {
    const NAME: &'static str = "Cipher2d";
    fn diffv(&self, o: &Self) -> D {
        c2_diff(self, o)
    }
    fn expandv(&self, cx: &HeContext) -> Self {
        c2_map(self, &|c| expand_ct(c, cx))
    }
}
impl EqvX for Cipher3d {
    const NAME: &'static str = "Cipher3d";
    fn diffv(&self, o: &Self) -> D {
        c3_diff(self, o)
    }
    fn expandv(&self, cx: &HeContext) -> Self {
        c3_map(self, &|c| expand_ct(c, cx))
    }
}

/// Ciphertext::serialize_full / deserialize_full
#[derive(Clone)]
struct Full(Ciphertext);
impl Obj for Full {
    type Cx = HeContext;
    fn kind() -> &'static str {
        "Ciphertext.full"
    }
    fn ser(&self, cx: &HeContext, w: &mut Vec<u8>) -> io::Result<usize> {
        self.0.serialize_full(cx, w)
    }
    fn de(cx: &HeContext, r: &mut &[u8], _like: &Self) -> io::Result<Self> {
        Ok(Full(Ciphertext::deserialize_full(cx, r)?))
    }
    fn size(&self, cx: &HeContext) -> usize {
        self.0.serialized_full_size(cx)
    }
    fn expected(&self, cx: &HeContext) -> Self {
        Full(expand_ct(&self.0, cx))
    }
    fn diff(&self, got: &Self) -> D {
        ct_diff(&self.0, &got.0)
    }
}

/// reference data of the selected-terms oracle for one ciphertext: c0 in coefficient form
/// (naive inverse evaluation map when the ciphertext is in NTT form) and (psi, q) per component
struct TermsRef {
    c0_coeff: Vec<u64>,
    roots: Vec<(u64, u64)>,
    /// pw[j][i*n + t] = (psi_j^(2*brv(i)+1))^t mod q_j: the evaluation map of `naive_ntt` as a table
    /// (empty when `fast`)
    pw: Vec<Vec<u64>>,
    /// N > 64 (production-size sections): the O(N log N) reference transform `refmodel::ntt::fast_ntt` /
    /// `fast_intt` (validated against the by-definition transform in the self-test) replaces the O(N^2) tables
    fast: bool,
}
fn terms_ref(ct: &Ciphertext, cx: &HeContext) -> TermsRef {
    terms_ref_with(ct, cx, ct.poly_modulus_degree() > 64)
}
fn terms_ref_with(ct: &Ciphertext, cx: &HeContext, fast: bool) -> TermsRef {
    let cd = cx.get_context_data(ct.parms_id()).expect("level of the ciphertext");
    let n = ct.poly_modulus_degree();
    let roots: Vec<(u64, u64)> = cd.parms().coeff_modulus().iter().zip(cd.small_ntt_tables()).map(|(m, t)| (t.root(), m.value())).collect();
    let mut c0 = Vec::with_capacity(n * roots.len());
    for (j, &(psi, q)) in roots.iter().enumerate() {
        let comp = ct.poly_component(0, j);
        if ct.is_ntt_form() {
            let co = if fast { fast_intt(comp, psi, q) } else { naive_intt(comp, psi, q) };
            let back = if fast { fast_ntt(&co, psi, q) } else { naive_ntt(&co, psi, q) };
            assert_eq!(back, comp.to_vec(), "reference NTT pair is not a bijection");
            c0.extend(co);
        } else {
            c0.extend_from_slice(comp);
        }
    }
    let bits = n.trailing_zeros();
    let mut pw = vec![];
    if ct.is_ntt_form() && !fast {
        for &(psi, q) in &roots {
            let mut tab = vec![0u64; n * n];
            for i in 0..n {
                let x = crate::refmodel::bigu::pow_mod(psi, 2 * crate::refmodel::poly::bit_reverse(i, bits) as u64 + 1, q);
                let mut p = 1 % q;
                for t in 0..n {
                    tab[i * n + t] = p;
                    p = crate::refmodel::bigu::mul_mod(p, x, q);
                }
            }
            pw.push(tab);
        }
    }
    let tr = TermsRef { c0_coeff: c0, roots, pw, fast };
    if ct.is_ntt_form() && !fast {
        // the table form of the evaluation map agrees with naive_ntt on the full polynomial
        let all: Vec<usize> = (0..n).collect();
        for j in 0..tr.roots.len() {
            assert_eq!(eval_terms(&tr, j, n, &all), ct.poly_component(0, j).to_vec(), "reference evaluation table");
        }
    }
    tr
}
/// NTT-form component j of the polynomial that keeps only the coefficients listed in `terms`
fn eval_terms(tr: &TermsRef, j: usize, n: usize, terms: &[usize]) -> Vec<u64> {
    let q = tr.roots[j].1;
    if tr.fast {
        let mut a = vec![0u64; n];
        for &t in terms {
            a[t] = tr.c0_coeff[j * n + t];
        }
        return fast_ntt(&a, tr.roots[j].0, q);
    }
    let tab = &tr.pw[j];
    (0..n)
        .map(|i| {
            let mut acc = 0u128;
            for &t in terms {
                acc += (tr.c0_coeff[j * n + t] as u128 * tab[i * n + t] as u128) % q as u128;
            }
            (acc % q as u128) as u64
        })
        .collect()
}
/// expected result of serialize_terms + deserialize_terms
fn terms_expected(ct: &Ciphertext, cx: &HeContext, terms: &[usize], tr: &TermsRef) -> Ciphertext {
    let mut e = expand_ct(ct, cx);
    let n = ct.poly_modulus_degree();
    for j in 0..tr.roots.len() {
        let comp = if ct.is_ntt_form() {
            eval_terms(tr, j, n, terms)
        } else {
            let mut comp = vec![0u64; n];
            for &t in terms {
                comp[t] = tr.c0_coeff[j * n + t];
            }
            comp
        };
        e.poly_component_mut(0, j).copy_from_slice(&comp);
    }
    e
}

struct Terms {
    ct: Arc<Ciphertext>,
    terms: Vec<usize>,
    tr: Arc<TermsRef>,
}
impl Obj for Terms {
    type Cx = HeContext;
    fn kind() -> &'static str {
        "Ciphertext.terms"
    }
    fn ser(&self, cx: &HeContext, w: &mut Vec<u8>) -> io::Result<usize> {
        self.ct.serialize_terms(cx, &self.terms, w)
    }
    fn de(cx: &HeContext, r: &mut &[u8], like: &Self) -> io::Result<Self> {
        Ok(Terms { ct: Arc::new(Ciphertext::deserialize_terms(cx, &like.terms, r)?), terms: like.terms.clone(), tr: like.tr.clone() })
    }
    fn size(&self, cx: &HeContext) -> usize {
        self.ct.serialized_terms_size(cx, self.terms.len())
    }
    fn expected(&self, cx: &HeContext) -> Self {
        Terms { ct: Arc::new(terms_expected(&self.ct, cx, &self.terms, &self.tr)), terms: self.terms.clone(), tr: self.tr.clone() }
    }
    fn diff(&self, got: &Self) -> D {
        ct_diff(&self.ct, &got.ct).map(|(f, m)| (f, format!("terms={:?}: {m}", self.terms)))
    }
}

/// Cipher{1,2,3}d::serialize_terms
macro_rules! terms_container {
    ($name:ident, $t:ty, $kind:expr, $map:ident, $diff:ident) => {
        struct $name {
            c: $t,
            terms: Vec<usize>,
        }
        impl Obj for $name {
            type Cx = HeContext;
            fn kind() -> &'static str {
                $kind
            }
            fn ser(&self, cx: &HeContext, w: &mut Vec<u8>) -> io::Result<usize> {
                self.c.serialize_terms(cx, &self.terms, w)
            }
            fn de(cx: &HeContext, r: &mut &[u8], like: &Self) -> io::Result<Self> {
                Ok($name { c: <$t>::deserialize_terms(cx, &like.terms, r)?, terms: like.terms.clone() })
            }
            fn size(&self, cx: &HeContext) -> usize {
                self.c.serialized_terms_size(cx, self.terms.len())
            }
            fn expected(&self, cx: &HeContext) -> Self {
                let terms = self.terms.clone();
                $name { c: $map(&self.c, &|c| terms_expected(c, cx, &terms, &terms_ref(c, cx))), terms: self.terms.clone() }
            }
            fn diff(&self, got: &Self) -> D {
                $diff(&self.c, &got.c).map(|(f, m)| (f, format!("terms={:?}: {m}", self.terms)))
            }
        }
    };
}
terms_container!(Terms1d, Cipher1d, "Cipher1d.terms", c1_map, c1_diff);
terms_container!(Terms2d, Cipher2d, "Cipher2d.terms", c2_map, c2_diff);
terms_container!(Terms3d, Cipher3d, "Cipher3d.terms", c3_map, c3_diff);

/// PolynomialSerializer
#[derive(Clone)]
struct PolyItem {
    data: Vec<u64>,
    id: ParmsID,
}
impl Obj for PolyItem {
    type Cx = HeContext;
    fn kind() -> &'static str {
        "PolynomialSerializer"
    }
    fn ser(&self, cx: &HeContext, w: &mut Vec<u8>) -> io::Result<usize> {
        PolynomialSerializer::serialize_polynomial(cx, w, &self.data, self.id)
    }
    fn de(cx: &HeContext, r: &mut &[u8], like: &Self) -> io::Result<Self> {
        Ok(PolyItem { data: PolynomialSerializer::deserialize_polynomial(cx, r)?, id: like.id })
    }
    fn size(&self, cx: &HeContext) -> usize {
        (PolynomialSerializer {}).serialized_polynomial_size(cx, self.id)
    }
    fn expected(&self, cx: &HeContext) -> Self {
        let mut data = self.data.clone();
        if self.id == PARMS_ID_ZERO {
            // coefficient-form plaintext: padded with zeros to the ring degree
            data.resize(cx.first_context_data().unwrap().parms().poly_modulus_degree(), 0);
        }
        PolyItem { data, id: self.id }
    }
    fn diff(&self, got: &Self) -> D {
        if self.data.len() != got.data.len() {
            return d("len", self.data.len(), got.data.len());
        }
        first_diff(&self.data, &got.data).map(|i| ("data".to_string(), format!("data[{i}]: expected {:#x}, restored {:#x}", self.data[i], got.data[i])))
    }
}

// ---------------------------------------------------------------------------------------------
// builders of the object variants
// ---------------------------------------------------------------------------------------------

fn level_ids(ctx: &HeContext) -> Vec<(String, ParmsID)> {
    // key level first (if distinct), then the data levels first..last
    let mut v = vec![];
    let key = *ctx.key_parms_id();
    let first = *ctx.first_parms_id();
    if key != first {
        v.push(("key".to_string(), key));
    }
    let mut cd = ctx.first_context_data();
    let mut i = 0;
    while let Some(c) = cd {
        v.push((format!("L{i}"), *c.parms_id()));
        cd = c.next_context_data();
        i += 1;
    }
    v
}

fn moduli_of(ctx: &HeContext, id: &ParmsID) -> Vec<u64> {
    ctx.get_context_data(id).unwrap().parms().coeff_modulus().iter().map(|m| m.value()).collect()
}

/// ciphertext with residues chosen by `fill` (extremes q-1 / 0 included in every component)
fn crafted_ct(ctx: &HeContext, id: &ParmsID, size: usize, ntt: bool, seed: u64, tag: u64) -> Ciphertext {
    let qs = moduli_of(ctx, id);
    let n = ctx.get_context_data(id).unwrap().parms().poly_modulus_degree();
    let k = qs.len();
    let mut data = vec![0u64; size * k * n];
    for p in 0..size {
        for (j, &q) in qs.iter().enumerate() {
            for i in 0..n {
                data[(p * k + j) * n + i] = fill(seed, tag.wrapping_mul(1000003).wrapping_add((p * 64 + j) as u64), i + p + 2 * j, q);
            }
        }
    }
    Ciphertext::from_members(size, k, n, data, *id, 1.0, 1, ntt)
}

/// NTT-form plaintext (CKKS plaintext, or a BFV/BGV plaintext after transform_plain_to_ntt) with crafted residues
fn crafted_ntt_plain(ctx: &HeContext, id: &ParmsID, scale: f64, seed: u64, tag: u64) -> Plaintext {
    let qs = moduli_of(ctx, id);
    let n = ctx.get_context_data(id).unwrap().parms().poly_modulus_degree();
    let mut p = Plaintext::new();
    p.resize(n * qs.len());
    for (j, &q) in qs.iter().enumerate() {
        for i in 0..n {
            p.data_mut()[j * n + i] = fill(seed, tag + j as u64, i + j, q);
        }
    }
    p.set_parms_id(*id);
    p.set_scale(scale);
    p
}

fn coeff_plain(t: u64, len: usize, seed: u64, tag: u64) -> Plaintext {
    let mut p = Plaintext::new();
    p.resize(len);
    for i in 0..len {
        p.data_mut()[i] = fill(seed, tag, i, t);
    }
    p
}

/// a plaintext the encryptor accepts (first level)
fn sample_plain(kit: &Kit, seed: u64) -> Plaintext {
    match kit.spec.scheme {
        Scheme::CKKS => crafted_ntt_plain(&kit.ctx, kit.ctx.first_parms_id(), 1024.0, seed, 11),
        _ => coeff_plain(kit.spec.t, kit.spec.n, seed, 11),
    }
}

const SCALES: [f64; 4] = [1.0, 1048576.0, 1234567.890625, 9.5367431640625e-7];

fn seeded_tag(c: &Ciphertext) -> &'static str {
    if c.contains_seed() {
        "seeded"
    } else {
        "expanded"
    }
}

/// every ciphertext variant of a parameter set: (class, label, ciphertext)
fn ct_variants(kit: &Kit, deep: bool, seed: u64, st: &mut Stats) -> Vec<(String, String, Ciphertext)> {
    let mut v: Vec<(String, String, Ciphertext)> = vec![];
    let ctx = &kit.ctx;
    let scheme = kit.spec.scheme;
    let plain = sample_plain(kit, seed);
    let real = |v: &mut Vec<(String, String, Ciphertext)>, st: &mut Stats, class: &str, label: String, f: &dyn Fn() -> Ciphertext| -> Option<Ciphertext> {
        match guard(f) {
            Ok(c) => {
                v.push((format!("{class}-{}", seeded_tag(&c)), label, c.clone()));
                Some(c)
            }
            Err(p) => {
                st.skipped.insert(format!("{class}: refused ({})", panic_class(&p)));
                None
            }
        }
    };
    let fresh = real(&mut v, st, "fresh-pk", "encrypt_new".into(), &|| kit.enc.encrypt_new(&plain));
    real(&mut v, st, "sym", "encrypt_symmetric_new".into(), &|| kit.enc.encrypt_symmetric_new(&plain));
    real(&mut v, st, "sym", "encrypt_symmetric (no seed)".into(), &|| {
        let mut c = Ciphertext::new();
        kit.enc.encrypt_symmetric(&plain, &mut c);
        c
    });
    for (lname, id) in level_ids(ctx) {
        if lname == "key" {
            continue;
        }
        real(&mut v, st, "zero-sym", format!("encrypt_zero_symmetric_new_at({lname})"), &|| kit.enc.encrypt_zero_symmetric_new_at(&id));
        real(&mut v, st, "zero-pk", format!("encrypt_zero_new_at({lname})"), &|| kit.enc.encrypt_zero_new_at(&id));
    }
    if let Some(f) = &fresh {
        let sq = real(&mut v, st, "evaluated", "multiply_new(fresh,fresh) (size 3)".into(), &|| kit.eval.multiply_new(f, f));
        if let Some(sq) = &sq {
            real(&mut v, st, "evaluated", "multiply_new(size3,fresh) (size 4)".into(), &|| kit.eval.multiply_new(sq, f));
        }
        real(&mut v, st, "evaluated", "mod_switch_to_next_new(fresh)".into(), &|| kit.eval.mod_switch_to_next_new(f));
        if scheme == Scheme::BFV {
            real(&mut v, st, "evaluated", "transform_to_ntt_new(fresh)".into(), &|| kit.eval.transform_to_ntt_new(f));
        } else {
            real(&mut v, st, "evaluated", "transform_from_ntt_new(fresh)".into(), &|| kit.eval.transform_from_ntt_new(f));
        }
    }
    // crafted: every level (incl. the key level) x size x representation, metadata cycling
    let sizes: Vec<usize> = if deep { (2..=16).collect() } else { vec![2, 3, 4, 16] };
    let t = kit.spec.t;
    let mut idx = 0usize;
    for (lname, id) in level_ids(ctx) {
        for &size in &sizes {
            for ntt in [false, true] {
                let mut c = crafted_ct(ctx, &id, size, ntt, seed, idx as u64);
                let mut meta = String::new();
                match scheme {
                    Scheme::CKKS => {
                        c.set_scale(SCALES[idx % SCALES.len()]);
                        meta = format!(" scale={:e}", c.scale());
                    }
                    Scheme::BGV => {
                        let cf = [1u64, 2 % t.max(2), t.saturating_sub(1).max(1)][idx % 3].max(1);
                        c.set_correction_factor(cf);
                        meta = format!(" cf={cf}");
                    }
                    Scheme::BFV => {}
                }
                let class = if lname == "key" { "crafted-keylevel" } else { "crafted" };
                if lname != "key" && !c.is_valid_for(ctx) {
                    st.skipped.insert("crafted: not valid for the context".into());
                } else {
                    v.push((class.to_string(), format!("crafted level={lname} size={size} ntt={ntt}{meta}"), c));
                }
                idx += 1;
            }
        }
    }
    v
}

fn pt_variants(kit: &Kit, seed: u64, st: &mut Stats) -> Vec<(String, String, Plaintext)> {
    let mut v: Vec<(String, String, Plaintext)> = vec![];
    let ctx = &kit.ctx;
    let n = kit.spec.n;
    v.push(("empty".into(), "Plaintext::new()".into(), Plaintext::new()));
    if kit.spec.scheme != Scheme::CKKS {
        let t = kit.spec.t;
        let mut lens = vec![1usize, n / 2, n - 1, n];
        lens.dedup();
        for (i, len) in lens.into_iter().enumerate() {
            if len == 0 {
                continue;
            }
            v.push(("coeff".into(), format!("coefficient form, {len} coefficients"), coeff_plain(t, len, seed, 20 + i as u64)));
        }
        let mut z = Plaintext::new();
        z.resize(n);
        v.push(("coeff".into(), "all-zero, N coefficients".into(), z));
        let p = coeff_plain(t, n, seed, 31);
        if let Ok(e) = guard(|| BatchEncoder::new(ctx.clone()).encode_new(&p.data()[..n])) {
            v.push(("coeff".into(), "BatchEncoder::encode_new".into(), e));
        } else {
            st.skipped.insert("BatchEncoder refused".into());
        }
        if let Ok(e) = guard(|| kit.eval.transform_plain_to_ntt_new(&p, ctx.first_parms_id())) {
            v.push(("ntt".into(), "transform_plain_to_ntt_new(first level)".into(), e));
        } else {
            st.skipped.insert("transform_plain_to_ntt refused".into());
        }
    } else {
        let r = guard(|| {
            let enc = CKKSEncoder::new(ctx.clone());
            let vals: Vec<num_complex::Complex<f64>> = (0..n / 2).map(|i| num_complex::Complex::new(i as f64 - 1.0, 0.5)).collect();
            enc.encode_c64_array_new(&vals, None, 4.0)
        });
        match r {
            Ok(e) => v.push(("ntt".into(), "CKKSEncoder::encode_c64_array_new scale=4".into(), e)),
            Err(_) => {
                st.skipped.insert("CKKSEncoder refused".into());
            }
        }
    }
    for (i, (lname, id)) in level_ids(ctx).into_iter().enumerate() {
        if lname == "key" {
            continue;
        }
        let scale = if kit.spec.scheme == Scheme::CKKS { SCALES[i % SCALES.len()] } else { 1.0 };
        v.push(("ntt".into(), format!("crafted NTT form level={lname} scale={scale:e}"), crafted_ntt_plain(ctx, &id, scale, seed, 40 + i as u64)));
    }
    v
}

/// all subsets of 0..n as ascending index lists, by increasing mask
fn subset(mask: u32, n: usize) -> Vec<usize> {
    (0..n).filter(|i| mask >> i & 1 == 1).collect()
}
/// a fixed non-monotone rearrangement (reverse, then rotate by one)
fn shuffled(v: &[usize]) -> Vec<usize> {
    let mut s: Vec<usize> = v.iter().rev().copied().collect();
    if s.len() > 2 {
        s.rotate_left(1);
    }
    s
}

fn wrap<T, U>(v: Vec<(String, String, T)>, f: impl Fn(T) -> U) -> Vec<Item<U>> {
    v.into_iter().map(|(c, l, o)| Item { class: c, label: l, obj: f(o) }).collect()
}

/// rebuild a context from the SERIALIZED parameters and compare the whole chain
fn rebuilt_context(sec: &str, spec: &ParamSpec, a: &Arc<HeContext>) -> R<Arc<HeContext>> {
    let key = format!("{sec}:context-rebuild");
    let p = spec.parms();
    let mut buf = vec![];
    io_call(&key, "serialize", "EncryptionParameters", || Serializable::serialize(&p, &mut buf))?;
    let p2 = io_call(&key, "deserialize", "EncryptionParameters", || <EncryptionParameters as Serializable>::deserialize(&mut &buf[..]))?;
    let b = call(&key, "HeContext::new", "deserialized parameters", || HeContext::new(p2, true, SecurityLevel::None))?;
    if !b.parameters_set() {
        return Err(bad(format!("{key}:not-set"), "parameters_set() in the rebuilt context", "false"));
    }
    let ids = |c: &HeContext| -> Vec<ParmsID> {
        let mut v = vec![*c.key_parms_id(), *c.first_parms_id(), *c.last_parms_id()];
        let mut cd = c.key_context_data();
        while let Some(x) = cd {
            v.push(*x.parms_id());
            cd = x.next_context_data();
        }
        v
    };
    if ids(a) != ids(&b) {
        return Err(bad(format!("{key}:chain-differs"), format!("{:?}", ids(a)), format!("{:?}", ids(&b))));
    }
    Ok(b)
}

// ---------------------------------------------------------------------------------------------
// object kinds
// ---------------------------------------------------------------------------------------------

const KINDS: &[&str] = &["params", "plaintext", "ct", "keys", "relin", "galois", "kswitch", "polyser", "containers", "use"];

#[derive(Serialize, Deserialize, Clone, Debug)]
pub struct Case {
    pub spec: ParamSpec,
    pub kind: String,
    /// thorough-tier bounds (part of the case so that a replay repeats them)
    #[serde(default)]
    pub deep: bool,
}

/// library ExpandSeed of a whole object versus the harness's element-wise expansion
fn expand_impl_check<T: EqvX + ExpandSeed>(sec: &str, label: &str, obj: &T, a: &HeContext, st: &mut Stats) -> R<()> {
    if !obj.contains_seed() {
        return Ok(());
    }
    let key = format!("{sec}:{}:ExpandSeed", T::NAME);
    let lib = call(&key, "expand_seed", label, || obj.clone().expand_seed(a))?;
    st.steps += 1;
    if let Some((f, m)) = obj.expandv(a).diffv(&lib) {
        return Err(bad(format!("{key}:differs:{f}"), format!("{label}: expand_seed expands every seeded element"), m));
    }
    if lib.contains_seed() {
        return Err(bad(format!("{key}:still-seeded"), format!("{label}: contains_seed() false after expand_seed"), "true"));
    }
    Ok(())
}

fn kind_params(sec: &str, kit: &Kit, ctxs: &Ctxs, st: &mut Stats) -> R<()> {
    let a = &ctxs[0].1;
    let mut ps: Vec<Item<NoCtx<EncryptionParameters>>> = vec![];
    ps.push(item("key-level", "parameters of the spec", NoCtx(kit.spec.parms())));
    let mut flipped = kit.spec.clone();
    flipped.special_enc = !flipped.special_enc;
    ps.push(item("special-flag-flipped", format!("use_special_prime_for_encryption={}", flipped.special_enc), NoCtx(flipped.parms())));
    let mut ids = vec![];
    let mut mods: Vec<Item<NoCtx<Vec<Modulus>>>> = vec![];
    for (l, id) in level_ids(a) {
        let cd = a.get_context_data(&id).unwrap();
        ps.push(item("chain-level", format!("parameters of level {l}"), NoCtx(cd.parms().clone())));
        mods.push(item("coeff_modulus", format!("coeff_modulus of level {l}"), NoCtx(cd.parms().coeff_modulus().clone())));
        ids.push(item("level-id", format!("parms_id of level {l}"), NoCtx(id)));
    }
    ids.push(item("zero", "PARMS_ID_ZERO", NoCtx(PARMS_ID_ZERO)));
    mods.push(item("empty", "empty Vec<Modulus>", NoCtx(Vec::<Modulus>::new())));
    stream_check(sec, &ps, ctxs, st)?;
    stream_check(sec, &mods, ctxs, st)?;
    stream_check(sec, &ids, ctxs, st)?;
    let mut ms: Vec<Item<NoCtx<Modulus>>> = kit.spec.q.iter().map(|&q| item("coeff", format!("Modulus({q})"), NoCtx(Modulus::new(q)))).collect();
    ms.push(item("plain", format!("plain modulus {}", kit.spec.t), NoCtx(*a.key_context_data().unwrap().parms().plain_modulus())));
    stream_check(sec, &ms, ctxs, st)
}

fn kind_plaintext(sec: &str, kit: &Kit, ctxs: &Ctxs, seed: u64, st: &mut Stats) -> R<()> {
    let items = wrap(pt_variants(kit, seed, st), NoCtx);
    stream_check(sec, &items, ctxs, st)
}

fn kind_ct(sec: &str, kit: &Kit, ctxs: &Ctxs, deep: bool, seed: u64, st: &mut Stats) -> R<()> {
    let vars = ct_variants(kit, deep, seed, st);
    let a = &ctxs[0].1;
    for (_, label, c) in &vars {
        expand_impl_check(sec, label, c, a, st)?;
    }
    let compact = wrap(vars.clone(), WithCtx);
    stream_check(sec, &compact, ctxs, st)?;
    let all: Vec<Ciphertext> = vars.iter().map(|x| x.2.clone()).collect();
    stream_check(sec, &[item("empty", "empty Vec<Ciphertext>", WithCtx(Vec::<Ciphertext>::new())), item("many", "all ciphertext variants in one Vec", WithCtx(all))], ctxs, st)?;
    let full = wrap(vars, Full);
    stream_check(sec, &full, ctxs, st)
}

fn seeded_class<T: ExpandSeed>(o: &T) -> &'static str {
    if o.contains_seed() {
        "seeded"
    } else {
        "expanded"
    }
}

fn kind_keys(sec: &str, kit: &Kit, ctxs: &Ctxs, st: &mut Stats) -> R<()> {
    let a = &ctxs[0].1;
    let other = KeyGenerator::new(a.clone());
    let sks = vec![
        item("keygen", "secret key of the key generator", NoCtx(kit.sk.clone())),
        item("empty", "SecretKey::default()", NoCtx(SecretKey::default())),
        item("keygen", "secret key of a second generator", NoCtx(other.secret_key().clone())),
    ];
    stream_check(sec, &sks, ctxs, st)?;
    let mut pks = vec![];
    // key creation itself is not judged here: with primes below 2*21 the noise sampler cannot
    // represent its samples and refuses (panics) - such variants are skipped
    for (who, kg) in [("generator", &kit.keygen), ("second generator", &other)] {
        for save in [false, true] {
            match guard(|| kg.create_public_key(save)) {
                Ok(pk) => {
                    expand_impl_check(sec, "public key", &pk, a, st)?;
                    pks.push(item(seeded_class(&pk), format!("{who}: create_public_key({save})"), WithCtx(pk)));
                }
                Err(p) => {
                    st.skipped.insert(format!("public key creation refused ({})", panic_class(&p)));
                }
            }
        }
    }
    stream_check(sec, &pks, ctxs, st)
}

fn kind_relin(sec: &str, kit: &Kit, ctxs: &Ctxs, st: &mut Stats) -> R<()> {
    let a = &ctxs[0].1;
    let mut items = vec![item("empty", "RelinKeys::default()", WithCtx(RelinKeys::default()))];
    for save in [false, true] {
        match guard(|| kit.keygen.create_relin_keys(save)) {
            Ok(k) => {
                expand_impl_check(sec, "relin keys", &k, a, st)?;
                items.push(item(seeded_class(&k), format!("create_relin_keys({save})"), WithCtx(k)));
            }
            Err(p) => {
                st.skipped.insert(format!("relin keys refused ({})", panic_class(&p)));
            }
        }
    }
    stream_check(sec, &items, ctxs, st)
}

fn kind_galois(sec: &str, kit: &Kit, ctxs: &Ctxs, st: &mut Stats) -> R<()> {
    let a = &ctxs[0].1;
    let n = kit.spec.n;
    let mut items = vec![item("empty", "GaloisKeys::default()", WithCtx(GaloisKeys::default()))];
    let add = |items: &mut Vec<Item<WithCtx<GaloisKeys>>>, st: &mut Stats, label: String, f: &dyn Fn() -> GaloisKeys| -> R<()> {
        match guard(f) {
            Ok(k) => {
                expand_impl_check(sec, &label, &k, a, st)?;
                let present = k.as_kswitch_keys().len();
                let total = k.as_kswitch_keys().keys().len();
                let class = format!("{}{}", seeded_class(&k), if present < total { "-missing-entries" } else { "" });
                items.push(item(&class, format!("{label}: {present} of {total} entries present"), WithCtx(k)));
            }
            Err(p) => {
                st.skipped.insert(format!("galois keys refused ({})", panic_class(&p)));
            }
        }
        Ok(())
    };
    for save in [false, true] {
        add(&mut items, st, format!("create_galois_keys({save})"), &|| kit.keygen.create_galois_keys(save))?;
        add(&mut items, st, format!("create_galois_keys_from_elts([3],{save})"), &|| kit.keygen.create_galois_keys_from_elts(&[3], save))?;
        add(&mut items, st, format!("create_galois_keys_from_elts([2N-1],{save})"), &|| kit.keygen.create_galois_keys_from_elts(&[2 * n - 1], save))?;
        add(&mut items, st, format!("create_galois_keys_from_elts([],{save})"), &|| kit.keygen.create_galois_keys_from_elts(&[], save))?;
        let all: Vec<usize> = (0..n).map(|i| 2 * i + 1).collect();
        add(&mut items, st, format!("create_galois_keys_from_elts(all odd,{save})"), &|| kit.keygen.create_galois_keys_from_elts(&all, save))?;
        add(&mut items, st, format!("create_galois_keys_from_steps([1],{save})"), &|| kit.keygen.create_galois_keys_from_steps(&[1], save))?;
    }
    stream_check(sec, &items, ctxs, st)
}

fn kind_kswitch(sec: &str, kit: &Kit, ctxs: &Ctxs, st: &mut Stats) -> R<()> {
    let a = &ctxs[0].1;
    let other = KeyGenerator::new(a.clone());
    let mut items = vec![item("empty", "KSwitchKeys::default()", WithCtx(KSwitchKeys::default()))];
    let mut vecs: Vec<Item<WithCtx<Vec<PublicKey>>>> = vec![item("empty", "empty Vec<PublicKey>", WithCtx(vec![]))];
    for save in [false, true] {
        match guard(|| kit.keygen.create_keyswitching_key(other.secret_key(), save)) {
            Ok(k) => {
                expand_impl_check(sec, "key-switching key", &k, a, st)?;
                vecs.push(item(seeded_class(&k), format!("entry 0 of create_keyswitching_key(_, {save})"), WithCtx(k.keys()[0].clone())));
                items.push(item(seeded_class(&k), format!("create_keyswitching_key(_, {save})"), WithCtx(k)));
            }
            Err(p) => {
                st.skipped.insert(format!("key-switching key refused ({})", panic_class(&p)));
            }
        }
    }
    stream_check(sec, &items, ctxs, st)?;
    stream_check(sec, &vecs, ctxs, st)
}

fn kind_polyser(sec: &str, kit: &Kit, ctxs: &Ctxs, seed: u64, st: &mut Stats) -> R<()> {
    let a = &ctxs[0].1;
    let mut items: Vec<Item<PolyItem>> = vec![];
    for (i, (l, id)) in level_ids(a).into_iter().enumerate() {
        let c = crafted_ct(a, &id, 2, false, seed, 500 + i as u64);
        for p in 0..2 {
            items.push(item("rns", format!("polynomial {p} of a crafted ciphertext at level {l}"), PolyItem { data: c.poly(p).to_vec(), id }));
        }
    }
    if kit.spec.scheme != Scheme::CKKS {
        let n = kit.spec.n;
        let mut lens = vec![0usize, 1, n / 2, n];
        lens.dedup();
        for (i, len) in lens.into_iter().enumerate() {
            let p = coeff_plain(kit.spec.t, len, seed, 600 + i as u64);
            items.push(item("plain", format!("coefficient-form plaintext with {len} coefficients (t={})", kit.spec.t), PolyItem { data: p.data().clone(), id: PARMS_ID_ZERO }));
        }
    }
    stream_check(sec, &items, ctxs, st)
}

fn kind_containers(sec: &str, kit: &Kit, ctxs: &Ctxs, seed: u64, st: &mut Stats) -> R<()> {
    let a = &ctxs[0].1;
    let n = kit.spec.n;
    // plaintext containers
    let pts: Vec<Plaintext> = pt_variants(kit, seed, st).into_iter().map(|x| x.2).collect();
    let p = |i: usize| pts[i % pts.len()].clone();
    let p1 = vec![
        item("empty", "Plain1d[]", NoCtx(Plain1d::new(vec![]))),
        item("one", "Plain1d[p0]", NoCtx(Plain1d::new(vec![p(0)]))),
        item("many", "Plain1d[all plaintext variants]", NoCtx(Plain1d::new(pts.clone()))),
    ];
    stream_check(sec, &p1, ctxs, st)?;
    let p2 = vec![
        item("empty", "Plain2d[]", NoCtx(Plain2d::new(vec![]))),
        item("empty-row", "Plain2d[[]]", NoCtx(Plain2d::new(vec![vec![]]))),
        item("ragged", "Plain2d[[],[p1],[p2,p3,p4]]", NoCtx(Plain2d::new(vec![vec![], vec![p(1)], vec![p(2), p(3), p(4)]]))),
    ];
    stream_check(sec, &p2, ctxs, st)?;
    let p3 = vec![
        item("empty", "Plain3d[]", NoCtx(Plain3d::new_2ds(vec![]))),
        item("empty-nested", "Plain3d[[],[[]]]", NoCtx(Plain3d::new_2ds(vec![Plain2d::new(vec![]), Plain2d::new(vec![vec![]])]))),
        item("ragged", "Plain3d[[[p0],[p1,p2]],[],[[p3]]]", NoCtx(Plain3d::new_2ds(vec![Plain2d::new(vec![vec![p(0)], vec![p(1), p(2)]]), Plain2d::new(vec![]), Plain2d::new(vec![vec![p(3)]])]))),
    ];
    stream_check(sec, &p3, ctxs, st)?;

    // ciphertext containers
    let vars = ct_variants(kit, false, seed, st);
    let pick = |pred: &dyn Fn(&(String, String, Ciphertext)) -> bool| -> Vec<Ciphertext> { vars.iter().filter(|x| pred(x)).map(|x| x.2.clone()).collect() };
    let seeded = pick(&|x| x.2.contains_seed());
    let mut plainish = pick(&|x| !x.2.contains_seed() && x.0.starts_with("fresh"));
    plainish.extend(pick(&|x| x.0 == "crafted" && x.2.size() == 3).into_iter().rev().take(2));
    plainish.extend(pick(&|x| x.0 == "crafted" && x.2.size() == 16).into_iter().take(1));
    if plainish.is_empty() {
        plainish = pick(&|x| !x.2.contains_seed());
    }
    let e = |i: usize| plainish[i % plainish.len()].clone();
    let mut c1: Vec<(String, String, Cipher1d)> = vec![
        ("empty".into(), "Cipher1d[]".into(), Cipher1d::new(vec![])),
        ("expanded".into(), "Cipher1d[e0]".into(), Cipher1d::new(vec![e(0)])),
        ("expanded".into(), "Cipher1d[e0,e1,e2,e3] (levels and sizes differ)".into(), Cipher1d::new(vec![e(0), e(1), e(2), e(3)])),
    ];
    let mut c2: Vec<(String, String, Cipher2d)> = vec![
        ("empty".into(), "Cipher2d[]".into(), Cipher2d::new(vec![])),
        ("empty-row".into(), "Cipher2d[[]]".into(), Cipher2d::new(vec![vec![]])),
        ("ragged".into(), "Cipher2d[[],[e0],[e1,e2]]".into(), Cipher2d::new(vec![vec![], vec![e(0)], vec![e(1), e(2)]])),
    ];
    let mut c3: Vec<(String, String, Cipher3d)> = vec![
        ("empty".into(), "Cipher3d[]".into(), Cipher3d::new_2ds(vec![])),
        ("empty-nested".into(), "Cipher3d[[],[[]]]".into(), Cipher3d::new_2ds(vec![Cipher2d::new(vec![]), Cipher2d::new(vec![vec![]])])),
        ("ragged".into(), "Cipher3d[[[e0],[e1,e2]],[],[[e3]]]".into(), Cipher3d::new_2ds(vec![Cipher2d::new(vec![vec![e(0)], vec![e(1), e(2)]]), Cipher2d::new(vec![]), Cipher2d::new(vec![vec![e(3)]])])),
    ];
    if !seeded.is_empty() {
        let s = |i: usize| seeded[i % seeded.len()].clone();
        let h1 = Cipher1d::new(vec![s(0), s(1), s(2)]);
        let h2 = Cipher2d::new(vec![vec![s(0)], vec![s(1), s(2)]]);
        let h3 = Cipher3d::new_2ds(vec![Cipher2d::new(vec![vec![s(0)], vec![s(1), s(2)]]), Cipher2d::new(vec![vec![s(3)]])]);
        // ExpandSeed of homogeneous containers
        expand_impl_check(sec, "Cipher1d[s0,s1,s2]", &h1, a, st)?;
        expand_impl_check(sec, "Cipher2d[[s0],[s1,s2]]", &h2, a, st)?;
        expand_impl_check(sec, "Cipher3d[[[s0],[s1,s2]],[[s3]]]", &h3, a, st)?;
        c1.push(("seeded".into(), "Cipher1d[s0,s1,s2]".into(), h1));
        c1.push(("mixed".into(), "Cipher1d[s0,e0,s1]".into(), Cipher1d::new(vec![s(0), e(0), s(1)])));
        c2.push(("seeded".into(), "Cipher2d[[s0],[s1,s2]]".into(), h2));
        c2.push(("mixed".into(), "Cipher2d[[s0,e0],[e1],[s1]]".into(), Cipher2d::new(vec![vec![s(0), e(0)], vec![e(1)], vec![s(1)]])));
        c3.push(("seeded".into(), "Cipher3d[[[s0],[s1,s2]],[[s3]]]".into(), h3));
        if std::env::var("C14_TRACE").is_ok() {
            // observation only (not judged): ExpandSeed of a container whose rows mix seeded and expanded ciphertexts
            let mixed = Cipher2d::new(vec![vec![s(0), e(0)], vec![s(1)]]);
            if let Ok(x) = guard(|| mixed.clone().expand_seed(a)) {
                let left = x.data.iter().flat_map(|r| r.data.iter()).filter(|c| c.contains_seed()).count();
                eprintln!("OBSERVE Cipher2d[[s,e],[s]].expand_seed leaves {left} seeded ciphertext(s)");
            }
        }
        c3.push(("mixed".into(), "Cipher3d[[[e0],[s0,e1]],[[s1]]]".into(), Cipher3d::new_2ds(vec![Cipher2d::new(vec![vec![e(0)], vec![s(0), e(1)]]), Cipher2d::new(vec![vec![s(1)]])])));
    } else {
        st.skipped.insert("no seeded ciphertext available (polynomials shorter than 9 words)".into());
    }
    stream_check(sec, &wrap(c1.clone(), WithCtx), ctxs, st)?;
    stream_check(sec, &wrap(c2.clone(), WithCtx), ctxs, st)?;
    stream_check(sec, &wrap(c3.clone(), WithCtx), ctxs, st)?;
    // selected-terms format of the containers
    let all: Vec<usize> = (0..n).collect();
    let term_sets: Vec<Vec<usize>> = vec![vec![], vec![0], vec![n - 1, 0], all.clone(), shuffled(&all)];
    let mut t1 = vec![];
    let mut t2 = vec![];
    let mut t3 = vec![];
    for ts in &term_sets {
        for (c, l, o) in &c1 {
            t1.push(item(c, format!("{l} terms={ts:?}"), Terms1d { c: o.clone(), terms: ts.clone() }));
        }
        for (c, l, o) in &c2 {
            t2.push(item(c, format!("{l} terms={ts:?}"), Terms2d { c: o.clone(), terms: ts.clone() }));
        }
        for (c, l, o) in &c3 {
            t3.push(item(c, format!("{l} terms={ts:?}"), Terms3d { c: o.clone(), terms: ts.clone() }));
        }
    }
    stream_check(sec, &t1, ctxs, st)?;
    stream_check(sec, &t2, ctxs, st)?;
    stream_check(sec, &t3, ctxs, st)
}

/// serialize in A, deserialize in B
fn xfer<T: SerializableWithHeContext>(key: &str, what: &str, o: &T, a: &HeContext, b: &HeContext) -> R<T> {
    let mut buf = vec![];
    io_call(key, "serialize", what, || SerializableWithHeContext::serialize(o, a, &mut buf))?;
    io_call(key, "deserialize", what, || <T as SerializableWithHeContext>::deserialize(b, &mut &buf[..]))
}

/// restored (seed-compressed, shipped to the rebuilt context) objects are interchangeable with the
/// locally expanded originals in the operations that consume them
fn kind_use(sec: &str, kit: &Kit, ctxs: &Ctxs, seed: u64, tag: u64, st: &mut Stats) -> R<()> {
    let (a, b) = (&ctxs[0].1, &ctxs[1].1);
    let key = format!("{sec}:use");
    let plain = sample_plain(kit, seed);
    // secret key
    let mut buf = vec![];
    io_call(&key, "serialize", "secret key", || Serializable::serialize(&kit.sk, &mut buf))?;
    let sk_b = io_call(&key, "deserialize", "secret key", || <SecretKey as Serializable>::deserialize(&mut &buf[..]))?;
    let dec_a = Decryptor::new(a.clone(), kit.sk.clone());
    let dec_b = call(&key, "Decryptor::new", "restored secret key in the rebuilt context", || Decryptor::new(b.clone(), sk_b.clone()))?;
    // 1. seeded symmetric ciphertext decrypts identically on both sides
    let ct = match guard(|| kit.enc.encrypt_symmetric_new(&plain)) {
        Ok(c) => c,
        Err(p) => {
            st.skipped.insert(format!("use: symmetric encryption refused ({})", panic_class(&p)));
            return Ok(());
        }
    };
    let ct_a = expand_ct(&ct, a);
    let ct_b = xfer(&key, "symmetric ciphertext", &ct, a, b)?;
    if let Ok(pa) = guard(|| dec_a.decrypt_new(&ct_a)) {
        let pb = call(&key, "decrypt", "restored ciphertext with the restored secret key", || dec_b.decrypt_new(&ct_b))?;
        st.steps += 1;
        st.classes.insert("use:decrypt".into());
        if let Some((f, m)) = pt_diff(&pa, &pb) {
            return Err(bad(format!("{key}:decrypt-differs:{f}"), "same decryption on both sides", m));
        }
        // decrypts to the message when there is noise head-room (BFV/BGV: q_first >= 2^30 * t)
        if kit.spec.scheme != Scheme::CKKS {
            let qbits: u32 = moduli_of(a, a.first_parms_id()).iter().map(|q| 63 - q.leading_zeros()).sum();
            let tbits = 64 - kit.spec.t.leading_zeros();
            if qbits >= tbits + 30 {
                let mut got = pb.data().clone();
                got.resize(kit.spec.n, 0);
                let mut want = plain.data().clone();
                want.resize(kit.spec.n, 0);
                st.steps += 1;
                st.classes.insert("use:decrypt-message".into());
                if got != want {
                    return Err(bad(format!("{key}:decrypt-message"), format!("{want:?}"), format!("{got:?}")));
                }
            }
        }
    }
    // 2. public key: encryption under identical entropy is bit-identical
    if let Ok(pk) = guard(|| kit.keygen.create_public_key(true)) {
    let pk_a = pk.expandv(a);
    let pk_b = xfer(&key, "public key", &pk, a, b)?;
    he::env_real(seed, tag ^ 0x55);
    if let Ok(ea) = guard(|| Encryptor::new(a.clone()).set_public_key(pk_a.clone()).encrypt_new(&plain)) {
        he::env_real(seed, tag ^ 0x55);
        let eb = call(&key, "encrypt", "restored public key in the rebuilt context", || Encryptor::new(b.clone()).set_public_key(pk_b.clone()).encrypt_new(&plain))?;
        st.steps += 1;
        st.classes.insert("use:encrypt".into());
        if let Some((f, m)) = ct_diff(&ea, &eb) {
            return Err(bad(format!("{key}:encrypt-differs:{f}"), "same ciphertext from the expanded and the restored public key", m));
        }
    }
    }
    let ev_a = Evaluator::new(a.clone());
    let ev_b = Evaluator::new(b.clone());
    // 3. relinearization keys
    if let Ok(rk) = guard(|| kit.keygen.create_relin_keys(true)) {
        let rk_a = rk.expandv(a);
        let rk_b = xfer(&key, "relin keys", &rk, a, b)?;
        if let Ok(c3) = guard(|| ev_a.multiply_new(&ct_a, &ct_a)) {
            if let Ok(ra) = guard(|| ev_a.relinearize_new(&c3, &rk_a)) {
                let rb = call(&key, "relinearize", "restored relin keys", || ev_b.relinearize_new(&c3, &rk_b))?;
                st.steps += 1;
                st.classes.insert("use:relinearize".into());
                if let Some((f, m)) = ct_diff(&ra, &rb) {
                    return Err(bad(format!("{key}:relinearize-differs:{f}"), "same result with expanded and restored keys", m));
                }
            }
        }
    }
    // 4. Galois keys: every element that has a key
    if let Ok(gk) = guard(|| kit.keygen.create_galois_keys(true)) {
        let gk_a = gk.expandv(a);
        let gk_b = xfer(&key, "galois keys", &gk, a, b)?;
        for i in 0..kit.spec.n {
            let elt = 2 * i + 1;
            if gk_a.has_key(elt) != gk_b.has_key(elt) {
                return Err(bad(format!("{key}:has_key"), format!("has_key({elt}) = {}", gk_a.has_key(elt)), format!("{}", gk_b.has_key(elt))));
            }
            if !gk_a.has_key(elt) {
                continue;
            }
            if let Ok(ra) = guard(|| ev_a.apply_galois_new(&ct_a, elt, &gk_a)) {
                let rb = call(&key, "apply_galois", "restored galois keys", || ev_b.apply_galois_new(&ct_b, elt, &gk_b))?;
                st.steps += 1;
                st.classes.insert("use:apply_galois".into());
                if let Some((f, m)) = ct_diff(&ra, &rb) {
                    return Err(bad(format!("{key}:apply_galois-differs:{f}"), format!("element {elt}: same result"), m));
                }
            }
        }
    }
    // 5. key-switching key
    let other = KeyGenerator::new(a.clone());
    if let Ok(kk) = guard(|| kit.keygen.create_keyswitching_key(other.secret_key(), true)) {
        let kk_a = kk.expandv(a);
        let kk_b = xfer(&key, "key-switching key", &kk, a, b)?;
        if let Ok(ra) = guard(|| ev_a.apply_keyswitching_new(&ct_a, &kk_a)) {
            let rb = call(&key, "apply_keyswitching", "restored key-switching key", || ev_b.apply_keyswitching_new(&ct_b, &kk_b))?;
            st.steps += 1;
            st.classes.insert("use:apply_keyswitching".into());
            if let Some((f, m)) = ct_diff(&ra, &rb) {
                return Err(bad(format!("{key}:apply_keyswitching-differs:{f}"), "same result", m));
            }
        }
    }
    Ok(())
}

fn finish_case(tagname: &str, st: Stats, r: R<()>) -> CaseOut {
    match r {
        Err(b) => CaseOut::fail(b.key, b.expected, b.observed),
        Ok(()) => {
            if st.steps == 0 {
                return CaseOut::skip(&format!("nothing to serialize: {:?}", st.skipped));
            }
            if std::env::var("C14_TRACE").is_ok() {
                eprintln!("TRACE {tagname} steps={} bytes={} classes={:?} skipped={:?}", st.steps, st.bytes, st.classes, st.skipped);
            }
            CaseOut::pass(true, h64(&(tagname, &st.classes, &st.skipped)), st.steps)
        }
    }
}

fn setup(sec: &str, spec: &ParamSpec) -> Result<(Kit, Ctxs), CaseOut> {
    let kit = match guard(|| Kit::new(spec)) {
        Ok(Ok(k)) => k,
        Ok(Err(e)) => return Err(CaseOut::skip(&format!("parameter set rejected: {e}"))),
        Err(p) => return Err(CaseOut::skip(&format!("parameter set rejected: {}", panic_class(&p)))),
    };
    let b = match rebuilt_context(sec, spec, &kit.ctx) {
        Ok(b) => b,
        Err(bd) => return Err(CaseOut::fail(bd.key, bd.expected, bd.observed)),
    };
    let ctxs: Ctxs = vec![("same", kit.ctx.clone()), ("rebuilt", b)];
    Ok((kit, ctxs))
}

fn check_objects(c: &Case, seed: u64) -> CaseOut {
    check_objects_in("objects", c, seed)
}

fn check_objects_in(sec: &str, c: &Case, seed: u64) -> CaseOut {
    let tag = h64(&serde_json::to_string(c).unwrap_or_default());
    he::env_real(seed, tag);
    let (kit, ctxs) = match setup(sec, &c.spec) {
        Ok(x) => x,
        Err(o) => return o,
    };
    let mut st = Stats::default();
    let r = match c.kind.as_str() {
        "params" => kind_params(sec, &kit, &ctxs, &mut st),
        "plaintext" => kind_plaintext(sec, &kit, &ctxs, seed, &mut st),
        "ct" => kind_ct(sec, &kit, &ctxs, c.deep, seed, &mut st),
        "keys" => kind_keys(sec, &kit, &ctxs, &mut st),
        "relin" => kind_relin(sec, &kit, &ctxs, &mut st),
        "galois" => kind_galois(sec, &kit, &ctxs, &mut st),
        "kswitch" => kind_kswitch(sec, &kit, &ctxs, &mut st),
        "polyser" => kind_polyser(sec, &kit, &ctxs, seed, &mut st),
        "containers" => kind_containers(sec, &kit, &ctxs, seed, &mut st),
        "use" => kind_use(sec, &kit, &ctxs, seed, tag, &mut st),
        "levelbox" => kind_levelbox(sec, &kit, &ctxs, seed, &mut st),
        k => panic!("unknown kind {k}"),
    };
    finish_case(&format!("{}:{:?}", c.kind, c.spec.scheme), st, r)
}

// ---------------------------------------------------------------------------------------------
// selected terms: all subsets
// ---------------------------------------------------------------------------------------------

#[derive(Serialize, Deserialize, Clone, Debug)]
pub struct TCase {
    pub spec: ParamSpec,
    /// the ciphertext variants with index = part (mod parts) are checked by this case
    #[serde(default)]
    pub part: usize,
    #[serde(default)]
    pub parts: usize,
}

fn check_terms(c: &TCase, seed: u64) -> CaseOut {
    let tag = h64(&serde_json::to_string(c).unwrap_or_default());
    he::env_real(seed, tag);
    let sec = "terms";
    let (kit, ctxs) = match setup(sec, &c.spec) {
        Ok(x) => x,
        Err(o) => return o,
    };
    let n = c.spec.n;
    assert!(n <= 16);
    let mut st = Stats::default();
    // variants: real ones + crafted of size 2..4 (the size-16 ones add nothing for c0)
    let parts = c.parts.max(1);
    let vars: Vec<(String, String, Ciphertext)> =
        ct_variants(&kit, false, seed, &mut st).into_iter().filter(|x| x.2.size() <= 4).enumerate().filter(|(i, _)| i % parts == c.part).map(|x| x.1).collect();
    let a = &ctxs[0].1;
    let r = (|| -> R<()> {
        for (class, label, ct) in vars {
            let tr = Arc::new(terms_ref(&ct, a));
            let ct = Arc::new(ct);
            let mut items: Vec<Item<Terms>> = Vec::with_capacity(2 << n);
            for mask in 0..(1u32 << n) {
                let asc = subset(mask, n);
                let sh = shuffled(&asc);
                if sh != asc {
                    items.push(item(&class, format!("{label}, shuffled order"), Terms { ct: ct.clone(), terms: sh, tr: tr.clone() }));
                }
                items.push(item(&class, format!("{label}, ascending order"), Terms { ct: ct.clone(), terms: asc, tr: tr.clone() }));
            }
            stream_check(sec, &items, &ctxs, &mut st)?;
        }
        Ok(())
    })();
    finish_case(&format!("terms:{:?}", c.spec.scheme), st, r)
}

// ---------------------------------------------------------------------------------------------
// scalars
// ---------------------------------------------------------------------------------------------

#[derive(Serialize, Deserialize, Clone, Debug)]
pub struct SCase {
    pub ty: String,
}

fn check_scalars(c: &SCase) -> CaseOut {
    he::env_real(1, h64(&c.ty));
    let sec = "scalars";
    // any valid context will do: these writers ignore it
    let spec = ParamSpec::new(Scheme::BFV, 8, he::chain(8, &[20, 20]), 17);
    let ctx = spec.context();
    let ctxs: Ctxs = vec![("same", ctx.clone()), ("again", ctx)];
    let mut st = Stats::default();
    let words: Vec<u64> = {
        let mut v = vec![0u64, 1, 0xFF, 0x100, u64::MAX, u64::MAX - 1, 1 << 63, 0x0123_4567_89AB_CDEF, 0xA5A5_A5A5_A5A5_A5A5];
        for k in 0..64 {
            v.push(1 << k);
            v.push((1u64 << k).wrapping_sub(1));
        }
        v
    };
    let r = match c.ty.as_str() {
        "u64" => stream_check(sec, &words.iter().map(|&w| item("boundary", format!("{w:#x}"), NoCtx(w))).collect::<Vec<_>>(), &ctxs, &mut st),
        "usize" => stream_check(sec, &words.iter().map(|&w| item("boundary", format!("{w:#x}"), NoCtx(w as usize))).collect::<Vec<_>>(), &ctxs, &mut st),
        "u8" => stream_check(sec, &(0..=255u8).map(|w| item("all", format!("{w}"), NoCtx(w))).collect::<Vec<_>>(), &ctxs, &mut st),
        "bool" => stream_check(sec, &[item("all", "false", NoCtx(false)), item("all", "true", NoCtx(true)), item("all", "false", NoCtx(false))], &ctxs, &mut st),
        "f64" => {
            let mut v: Vec<f64> = words.iter().map(|&w| f64::from_bits(w)).collect();
            v.extend([0.0, -0.0, 1.0, -1.5, f64::MAX, f64::MIN_POSITIVE, f64::INFINITY, f64::NEG_INFINITY, f64::NAN, 1099511627776.0]);
            stream_check(sec, &v.iter().map(|&w| item("bits", format!("{:#x}", w.to_bits()), NoCtx(w))).collect::<Vec<_>>(), &ctxs, &mut st)
        }
        "vec_u64" => {
            let mut v: Vec<Vec<u64>> = vec![vec![], vec![0], vec![u64::MAX], words.clone()];
            for len in 2..=9 {
                v.push(words.iter().cycle().skip(len).take(len).copied().collect());
            }
            stream_check(sec, &v.into_iter().map(|w| item("lengths", format!("{} words", w.len()), NoCtx(w))).collect::<Vec<_>>(), &ctxs, &mut st)
        }
        "vec_u8" => {
            let v: Vec<Vec<u8>> = vec![vec![], vec![0], vec![255, 0, 1], (0..=255u8).collect()];
            stream_check(sec, &v.into_iter().map(|w| item("lengths", format!("{} bytes", w.len()), NoCtx(w))).collect::<Vec<_>>(), &ctxs, &mut st)
        }
        "scheme" => stream_check(
            sec,
            &[SchemeType::None, SchemeType::BFV, SchemeType::CKKS, SchemeType::BGV].iter().map(|&s| item("all", format!("{s:?}"), NoCtx(s))).collect::<Vec<_>>(),
            &ctxs,
            &mut st,
        ),
        "parms_id" => {
            let v: Vec<ParmsID> = vec![PARMS_ID_ZERO, [u64::MAX; 4], [1, 2, 3, 4], [1 << 63, 0, 0xFF, 0x100]];
            stream_check(sec, &v.into_iter().map(|w| item("patterns", format!("{w:x?}"), NoCtx(w))).collect::<Vec<_>>(), &ctxs, &mut st)
        }
        "modulus" => {
            // 0 (CKKS plain modulus), every bit size 2..61 (2^k - 1 and 2^(k-1)), boundary primes
            let mut v: Vec<u64> = vec![0, 2, 3];
            for k in 2..=61u32 {
                v.push((1u64 << k) - 1);
                v.push(1u64 << (k - 1));
                v.push((1u64 << (k - 1)) + 1);
            }
            for bits in [8usize, 9, 16, 17, 24, 25, 32, 33, 40, 41, 48, 49, 56, 57, 60, 61] {
                v.extend(crate::refmodel::bigu::primes_1_mod(16, bits, 1));
            }
            v.retain(|&x| x != 1);
            let ms: Vec<Modulus> = v.iter().map(|&x| Modulus::new(x)).collect();
            let r = stream_check(sec, &ms.iter().map(|m| item("boundary", format!("{}", m.value()), NoCtx(*m))).collect::<Vec<_>>(), &ctxs, &mut st);
            r.and_then(|_| stream_check(sec, &[item("boundary", "all boundary moduli in one vector", NoCtx(ms.clone())), item("empty", "empty", NoCtx(vec![]))], &ctxs, &mut st))
        }
        t => panic!("unknown scalar type {t}"),
    };
    finish_case(&c.ty, st, r)
}

// ---------------------------------------------------------------------------------------------
// Rnsp* wrappers
// ---------------------------------------------------------------------------------------------

#[derive(Serialize, Deserialize, Clone, Debug)]
pub struct RCase {
    pub scheme: Scheme,
    pub n: usize,
    pub q: Vec<u64>,
    /// plain moduli, one HeContext per entry
    pub ts: Vec<u64>,
    /// production-size variant (section `big-rnsp`): crafted ciphertexts at EVERY level, vectors of 0..20 ciphertexts,
    /// structured term families instead of all subsets
    #[serde(default, skip_serializing_if = "is_false")]
    pub big: bool,
}
fn is_false(b: &bool) -> bool {
    !*b
}

fn rc_diff(a: &RnspCiphertext, b: &RnspCiphertext) -> D {
    if a.components.len() != b.components.len() {
        return d("components", a.components.len(), b.components.len());
    }
    a.components.iter().zip(&b.components).enumerate().find_map(|(i, (x, y))| ct_diff(x, y).map(|(f, m)| (f, format!("component {i}: {m}"))))
}
fn rc_expand(a: &RnspCiphertext, cx: &RnspHeContext) -> RnspCiphertext {
    RnspCiphertext::from_raw_parts(a.components.iter().zip(&cx.components).map(|(c, x)| expand_ct(c, x)).collect())
}

#[derive(Clone)]
struct RC(RnspCiphertext);
impl Obj for RC {
    type Cx = RnspHeContext;
    fn kind() -> &'static str {
        "RnspCiphertext"
    }
    fn ser(&self, cx: &RnspHeContext, w: &mut Vec<u8>) -> io::Result<usize> {
        RnspSerializableWithHeContext::serialize(&self.0, cx, w)
    }
    fn de(cx: &RnspHeContext, r: &mut &[u8], _l: &Self) -> io::Result<Self> {
        Ok(RC(<RnspCiphertext as RnspSerializableWithHeContext>::deserialize(cx, r)?))
    }
    fn size(&self, cx: &RnspHeContext) -> usize {
        RnspSerializableWithHeContext::serialized_size(&self.0, cx)
    }
    fn expected(&self, cx: &RnspHeContext) -> Self {
        RC(rc_expand(&self.0, cx))
    }
    fn diff(&self, got: &Self) -> D {
        rc_diff(&self.0, &got.0)
    }
}
#[derive(Clone)]
struct RCFull(RnspCiphertext);
impl Obj for RCFull {
    type Cx = RnspHeContext;
    fn kind() -> &'static str {
        "RnspCiphertext.full"
    }
    fn ser(&self, cx: &RnspHeContext, w: &mut Vec<u8>) -> io::Result<usize> {
        self.0.serialize_full(cx, w)
    }
    fn de(cx: &RnspHeContext, r: &mut &[u8], _l: &Self) -> io::Result<Self> {
        Ok(RCFull(RnspCiphertext::deserialize_full(cx, r)?))
    }
    fn size(&self, cx: &RnspHeContext) -> usize {
        self.0.serialized_full_size(cx)
    }
    fn expected(&self, cx: &RnspHeContext) -> Self {
        RCFull(rc_expand(&self.0, cx))
    }
    fn diff(&self, got: &Self) -> D {
        rc_diff(&self.0, &got.0)
    }
}
struct RCTerms {
    c: RnspCiphertext,
    terms: Vec<usize>,
}
impl Obj for RCTerms {
    type Cx = RnspHeContext;
    fn kind() -> &'static str {
        "RnspCiphertext.terms"
    }
    fn ser(&self, cx: &RnspHeContext, w: &mut Vec<u8>) -> io::Result<usize> {
        self.c.serialize_terms(cx, &self.terms, w)
    }
    fn de(cx: &RnspHeContext, r: &mut &[u8], l: &Self) -> io::Result<Self> {
        Ok(RCTerms { c: RnspCiphertext::deserialize_terms(cx, &l.terms, r)?, terms: l.terms.clone() })
    }
    fn size(&self, cx: &RnspHeContext) -> usize {
        self.c.serialized_terms_size(cx, self.terms.len())
    }
    fn expected(&self, cx: &RnspHeContext) -> Self {
        let comps = self.c.components.iter().zip(&cx.components).map(|(c, x)| terms_expected(c, x, &self.terms, &terms_ref(c, x))).collect();
        RCTerms { c: RnspCiphertext::from_raw_parts(comps), terms: self.terms.clone() }
    }
    fn diff(&self, got: &Self) -> D {
        rc_diff(&self.c, &got.c).map(|(f, m)| (f, format!("terms={:?}: {m}", self.terms)))
    }
}
#[derive(Clone)]
struct RVec(Vec<RnspCiphertext>);
impl Obj for RVec {
    type Cx = RnspHeContext;
    fn kind() -> &'static str {
        "Vec<RnspCiphertext>"
    }
    fn ser(&self, cx: &RnspHeContext, w: &mut Vec<u8>) -> io::Result<usize> {
        RnspSerializableWithHeContext::serialize(&self.0, cx, w)
    }
    fn de(cx: &RnspHeContext, r: &mut &[u8], _l: &Self) -> io::Result<Self> {
        Ok(RVec(<Vec<RnspCiphertext> as RnspSerializableWithHeContext>::deserialize(cx, r)?))
    }
    fn size(&self, cx: &RnspHeContext) -> usize {
        RnspSerializableWithHeContext::serialized_size(&self.0, cx)
    }
    fn expected(&self, cx: &RnspHeContext) -> Self {
        RVec(self.0.iter().map(|c| rc_expand(c, cx)).collect())
    }
    fn diff(&self, got: &Self) -> D {
        if self.0.len() != got.0.len() {
            return d("len", self.0.len(), got.0.len());
        }
        self.0.iter().zip(&got.0).enumerate().find_map(|(i, (x, y))| rc_diff(x, y).map(|(f, m)| (f, format!("[{i}] {m}"))))
    }
}
macro_rules! rnsp_keys {
    ($name:ident, $t:ty, $inner:ty, $kind:expr) => {
        #[derive(Clone)]
        struct $name($t);
        impl Obj for $name {
            type Cx = RnspHeContext;
            fn kind() -> &'static str {
                $kind
            }
            fn ser(&self, cx: &RnspHeContext, w: &mut Vec<u8>) -> io::Result<usize> {
                RnspSerializableWithHeContext::serialize(&self.0, cx, w)
            }
            fn de(cx: &RnspHeContext, r: &mut &[u8], _l: &Self) -> io::Result<Self> {
                Ok($name(<$t as RnspSerializableWithHeContext>::deserialize(cx, r)?))
            }
            fn size(&self, cx: &RnspHeContext) -> usize {
                RnspSerializableWithHeContext::serialized_size(&self.0, cx)
            }
            fn expected(&self, cx: &RnspHeContext) -> Self {
                $name(<$t>::from_raw_parts(self.0.components.iter().zip(&cx.components).map(|(k, x)| <$inner as EqvX>::expandv(k, x)).collect()))
            }
            fn diff(&self, got: &Self) -> D {
                if self.0.components.len() != got.0.components.len() {
                    return d("components", self.0.components.len(), got.0.components.len());
                }
                self.0.components.iter().zip(&got.0.components).enumerate().find_map(|(i, (x, y))| <$inner as EqvX>::diffv(x, y).map(|(f, m)| (f, format!("component {i}: {m}"))))
            }
        }
    };
}
rnsp_keys!(RPk, RnspPublicKey, PublicKey, "RnspPublicKey");
rnsp_keys!(RRlk, RnspRelinKeys, RelinKeys, "RnspRelinKeys");
rnsp_keys!(RGlk, RnspGaloisKeys, GaloisKeys, "RnspGaloisKeys");

fn check_rnsp(c: &RCase, seed: u64) -> CaseOut {
    check_rnsp_in("rnsp", c, seed)
}

fn check_rnsp_in(sec: &str, c: &RCase, seed: u64) -> CaseOut {
    let tag = h64(&serde_json::to_string(c).unwrap_or_default());
    he::env_real(seed, tag);
    let parms = RnspEncryptionParameters::new(c.scheme.ty())
        .set_poly_modulus_degree(c.n)
        .set_coeff_modulus(c.q.iter().map(|&v| Modulus::new(v)).collect())
        .set_plain_modulus(c.ts.iter().map(|&v| Modulus::new(v)).collect());
    let a = match guard(|| RnspHeContext::new(parms, true, SecurityLevel::None)) {
        Ok(a) if a.parameters_set() => a,
        _ => return CaseOut::skip("parameter set rejected"),
    };
    // rebuilt: every component context from its serialized parameters
    let mut comps = vec![];
    for (i, x) in a.components.iter().enumerate() {
        let spec = ParamSpec::new(c.scheme, c.n, c.q.clone(), c.ts[i]);
        match rebuilt_context(sec, &spec, x) {
            Ok(b) => comps.push(b),
            Err(bd) => return CaseOut::fail(bd.key, bd.expected, bd.observed),
        }
    }
    let b = RnspHeContext { components: comps };
    let ctxs: Vec<(&'static str, Arc<RnspHeContext>)> = vec![("same", Arc::new(a.clone())), ("rebuilt", Arc::new(b))];
    let mut st = Stats::default();
    let r = (|| -> R<()> {
        let key = format!("{sec}:setup");
        let kg = call(&key, "RnspKeyGenerator::new", "", || RnspKeyGenerator::new(&a))?;
        let sk = kg.get_secret_key();
        let (pk, pks) = match guard(|| (kg.create_public_key(false), kg.create_public_key(true))) {
            Ok(x) => x,
            Err(p) => {
                st.skipped.insert(format!("public key creation refused ({})", panic_class(&p)));
                return Ok(());
            }
        };
        let cls = |s: bool| if s { "seeded" } else { "expanded" };
        stream_check(sec, &[item(cls(pk.contains_seed()), "create_public_key(false)", RPk(pk.clone())), item(cls(pks.contains_seed()), "create_public_key(true)", RPk(pks.clone()))], &ctxs, &mut st)?;
        let mut rl = vec![];
        let mut gl = vec![];
        for save in [false, true] {
            match guard(|| kg.create_relin_keys(save)) {
                Ok(k) => rl.push(item(cls(k.contains_seed()), format!("create_relin_keys({save})"), RRlk(k))),
                Err(p) => {
                    st.skipped.insert(format!("relin keys refused ({})", panic_class(&p)));
                }
            }
            match guard(|| kg.create_galois_keys(save)) {
                Ok(k) => gl.push(item(cls(k.contains_seed()), format!("create_galois_keys({save})"), RGlk(k))),
                Err(p) => {
                    st.skipped.insert(format!("galois keys refused ({})", panic_class(&p)));
                }
            }
        }
        stream_check(sec, &rl, &ctxs, &mut st)?;
        stream_check(sec, &gl, &ctxs, &mut st)?;
        // ciphertexts
        let enc = call(&key, "RnspEncryptor", "", || RnspEncryptor::new(&a).set_secret_key(sk.clone()).set_public_key(pk.clone()))?;
        let plain = RnspPlaintext::from_raw_parts(c.ts.iter().enumerate().map(|(i, &t)| coeff_plain(t, c.n, seed, 70 + i as u64)).collect());
        let mut cts: Vec<(String, String, RnspCiphertext)> = vec![];
        match guard(|| enc.encrypt_new(&plain)) {
            Ok(x) => cts.push(("expanded".into(), "encrypt_new".into(), x)),
            Err(p) => {
                st.skipped.insert(format!("encrypt_new refused ({})", panic_class(&p)));
            }
        }
        match guard(|| enc.encrypt_symmetric_new(&plain)) {
            Ok(x) => {
                if x.contains_seed() {
                    let lib = call(&format!("{sec}:RnspCiphertext:ExpandSeed"), "expand_seed", "encrypt_symmetric_new", || x.clone().expand_seed(&a))?;
                    st.steps += 1;
                    if let Some((f, m)) = rc_diff(&rc_expand(&x, &a), &lib) {
                        return Err(bad(format!("{sec}:RnspCiphertext:ExpandSeed:differs:{f}"), "component-wise expansion", m));
                    }
                }
                cts.push((cls(x.contains_seed()).into(), "encrypt_symmetric_new".into(), x))
            }
            Err(p) => {
                st.skipped.insert(format!("encrypt_symmetric_new refused ({})", panic_class(&p)));
            }
        }
        for (i, (size, ntt)) in [(2usize, false), (3, true), (4, false)].into_iter().enumerate() {
            let comps = a
                .components
                .iter()
                .enumerate()
                .map(|(j, x)| {
                    let ids = level_ids(x);
                    let id = ids[(i + 1) % ids.len()].1;
                    let mut ct = crafted_ct(x, &id, size, ntt, seed, 900 + (i * 8 + j) as u64);
                    if c.scheme == Scheme::BGV {
                        ct.set_correction_factor(1 + (i as u64 % (c.ts[j] - 1)));
                    }
                    ct
                })
                .collect();
            cts.push(("crafted".into(), format!("crafted size={size} ntt={ntt}"), RnspCiphertext::from_raw_parts(comps)));
        }
        if c.big {
            // one crafted ciphertext per level (key level included), sizes and representations cycling
            // (a component whose plain modulus exceeds the smallest primes has a shorter chain: the levels all have)
            let nlev = a.components.iter().map(|x| level_ids(x).len()).min().unwrap_or(0);
            for li in 0..nlev {
                let (size, ntt) = ([2usize, 3, 4, 16][li % 4], li % 2 == 1);
                let mut lname = String::new();
                let comps = a
                    .components
                    .iter()
                    .enumerate()
                    .map(|(j, x)| {
                        let (l, id) = level_ids(x)[li].clone();
                        lname = l;
                        let mut ct = crafted_ct(x, &id, size, ntt, seed, 950 + (li * 8 + j) as u64);
                        if c.scheme == Scheme::BGV {
                            ct.set_correction_factor(1 + (li as u64 % (c.ts[j] - 1)));
                        }
                        ct
                    })
                    .collect();
                cts.push(("crafted-level".into(), format!("crafted level={lname} size={size} ntt={ntt}"), RnspCiphertext::from_raw_parts(comps)));
            }
        }
        stream_check(sec, &wrap(cts.clone(), RC), &ctxs, &mut st)?;
        stream_check(sec, &wrap(cts.clone(), RCFull), &ctxs, &mut st)?;
        let all: Vec<RnspCiphertext> = cts.iter().map(|x| x.2.clone()).collect();
        stream_check(sec, &[item("empty", "empty vector", RVec(vec![])), item("many", "all ciphertext variants", RVec(all.clone()))], &ctxs, &mut st)?;
        let n = c.n;
        if c.big {
            // vectors of every length 0..20 (heterogeneous elements), back to back in one stream
            let vecs: Vec<Item<RVec>> = (0..=20usize).map(|len| item("length", format!("vector of {len} ciphertexts"), RVec((0..len).map(|i| all[(i + len) % all.len()].clone()).collect()))).collect();
            stream_check(sec, &vecs, &ctxs, &mut st)?;
            // selected terms: structured families (the complete families on single ciphertexts are section big-terms)
            let allt: Vec<usize> = (0..n).collect();
            let mut sets: Vec<Vec<usize>> = vec![vec![], vec![0], vec![n - 1], vec![n - 1, 0], allt.clone(), shuffled(&allt), (0..n / 2).collect(), (n / 2..n).collect()];
            for s in [2usize, 3, 8, 9] {
                if s < n {
                    sets.push((0..n).step_by(s).collect());
                    sets.push((s - 1..n).step_by(s).collect());
                }
            }
            let mut items = vec![];
            for (class, label, ct) in &cts {
                for ts in &sets {
                    items.push(item(class, format!("{label}, {} terms", ts.len()), RCTerms { c: ct.clone(), terms: ts.clone() }));
                }
            }
            return stream_check(sec, &items, &ctxs, &mut st);
        }
        // selected terms: all subsets for N <= 8
        let masks: Vec<u32> = if n <= 8 { (0..1u32 << n).collect() } else { vec![0, 1, (1 << n) - 1] };
        let mut items = vec![];
        for (class, label, ct) in &cts {
            for &m in &masks {
                let asc = subset(m, n);
                let sh = shuffled(&asc);
                if sh != asc {
                    items.push(item(class, format!("{label}, shuffled"), RCTerms { c: ct.clone(), terms: sh }));
                }
                items.push(item(class, format!("{label}, ascending"), RCTerms { c: ct.clone(), terms: asc }));
            }
        }
        stream_check(sec, &items, &ctxs, &mut st)
    })();
    finish_case(&format!("rnsp:{:?}", c.scheme), st, r)
}

// ---------------------------------------------------------------------------------------------
// parameter sets and sections
// ---------------------------------------------------------------------------------------------

/// prime bit sizes at both ends of every packed byte width 1..8
const WIDTH_BITS: [usize; 15] = [8, 9, 16, 17, 24, 25, 32, 33, 40, 41, 48, 49, 56, 57, 60];

fn bit_chains(n: usize) -> Vec<Vec<usize>> {
    let mut v: Vec<Vec<usize>> = vec![];
    // smallest primes that exist for this degree (3..8 bits)
    v.push(match n {
        2 => vec![3, 4, 5, 6, 7],
        4 => vec![5, 6, 7, 7, 8],
        8 => vec![5, 7, 7, 8, 8],
        16 => vec![7, 8, 9, 9],
        _ => vec![8, 9, 9, 10],
    });
    for &b in &WIDTH_BITS {
        v.push(vec![b]);
    }
    for w in WIDTH_BITS.windows(3) {
        v.push(w.to_vec());
    }
    for (i, w) in WIDTH_BITS.windows(3).enumerate() {
        if i % 2 == 0 {
            v.push(w.iter().rev().copied().collect());
        }
    }
    v.push(vec![8, 16, 24, 32, 40, 48, 56, 60]);
    v.push(vec![57, 49, 41, 33, 25, 17, 9]);
    v
}

/// plain modulus below the first data level: every third chain a batching prime (= 1 mod 2N, not one of the
/// coefficient primes), otherwise 2^e (coprime to every odd prime) whose byte width cycles with `idx`
fn choose_t(n: usize, bits: &[usize], q: &[u64], idx: usize) -> u64 {
    let first_level: usize = if bits.len() == 1 { bits[0] } else { bits[..bits.len() - 1].iter().sum() };
    let avail = first_level.saturating_sub(3).clamp(1, 59);
    if idx % 3 == 1 {
        let big = crate::refmodel::bigu::primes_1_mod(64, 59, 1)[0];
        let mid = crate::refmodel::bigu::primes_1_mod(64, 33, 1)[0];
        for t in [big, mid, 65537, 257, 97, 17, 5] {
            let tb = 64 - t.leading_zeros() as usize;
            if (t - 1) % (2 * n as u64) == 0 && tb <= avail && !q.contains(&t) {
                return t;
            }
        }
    }
    let w = 1 + idx % 8;
    let e = (8 * w - 2).min(avail);
    1u64 << e
}

pub fn specs(deep: bool) -> Vec<ParamSpec> {
    let mut out = vec![];
    let degrees: &[usize] = if deep { &[2, 4, 8, 16, 32] } else { &[2, 4, 8, 16] };
    for &n in degrees {
        for (ci, bits) in bit_chains(n).into_iter().enumerate() {
            let q = he::chain(n, &bits);
            for (si, scheme) in Scheme::all().into_iter().enumerate() {
                let t = choose_t(n, &bits, &q, ci + si);
                let mut s = ParamSpec::new(scheme, n, q.clone(), t);
                out.push(s.clone());
                // the special-prime-for-encryption layout on a few chains
                if bits.len() >= 3 && ci % 5 == 0 {
                    s.special_enc = true;
                    out.push(s);
                }
            }
        }
    }
    out
}

// ---------------------------------------------------------------------------------------------
// production-size sections (big-*): every dimension the serializers loop over, count or index a table with is
// driven across the boundaries 8/9, 16/17, 32/33, 64/65, ... 4096/4097, 8192, 65536 in structured families
// ---------------------------------------------------------------------------------------------

/// bit sizes >= 16 at both ends of every byte width 2..8 (enough distinct primes = 1 mod 2N for long chains)
const W13: [usize; 13] = [16, 17, 24, 25, 32, 33, 40, 41, 48, 49, 56, 57, 60];

/// prime bit sizes of a chain of `len` primes. Pattern 0/1 walk WIDTH_BITS (byte widths 1..8) with step 1/2, pattern 2
/// walks W13: in each pattern the byte widths of positions j, j+8 (pattern 0, 2), j+16 (pattern 1, 2) differ, so a
/// width table that wraps or is cut at 8 or 16 entries changes the byte count
fn many_bits(len: usize, pattern: usize) -> Vec<usize> {
    (0..len)
        .map(|j| match pattern {
            0 => WIDTH_BITS[j % 15],
            1 => WIDTH_BITS[(2 * j) % 15],
            _ => W13[j % 13],
        })
        .collect()
}

fn big_spec(scheme: Scheme, n: usize, bits: &[usize], idx: usize) -> ParamSpec {
    let q = he::chain(n, bits);
    let t = choose_t(n, bits, &q, idx);
    ParamSpec::new(scheme, n, q, t)
}

/// scheme metadata of a crafted ciphertext, cycling with `idx` (as in `ct_variants`)
fn set_meta(c: &mut Ciphertext, scheme: Scheme, t: u64, idx: usize) -> String {
    match scheme {
        Scheme::CKKS => {
            c.set_scale(SCALES[idx % SCALES.len()]);
            format!(" scale={:e}", c.scale())
        }
        Scheme::BGV => {
            let cf = [1u64, 2 % t.max(2), t.saturating_sub(1).max(1)][idx % 3].max(1);
            c.set_correction_factor(cf);
            format!(" cf={cf}")
        }
        Scheme::BFV => String::new(),
    }
}

/// the ciphertexts a parameter set produces by real operations (no crafted ones)
fn real_variants(kit: &Kit, seed: u64, st: &mut Stats) -> Vec<(String, String, Ciphertext)> {
    ct_variants(kit, false, seed, st).into_iter().filter(|x| !x.0.starts_with("crafted")).collect()
}

/// streams of at most `chunk` items (bounds the memory of one stream; objects stay back to back inside a chunk)
fn stream_chunks<T: Obj>(sec: &str, items: &[Item<T>], ctxs: &[(&'static str, Arc<T::Cx>)], chunk: usize, st: &mut Stats) -> R<()> {
    for part in items.chunks(chunk.max(1)) {
        stream_check(sec, part, ctxs, st)?;
    }
    Ok(())
}

/// Cipher1d / Cipher2d / Cipher3d holding one crafted ciphertext per data level (sizes and representations cycling),
/// the seeded encryptions of zero of every level, and a mix; compact and selected-terms formats
fn kind_levelbox(sec: &str, kit: &Kit, ctxs: &Ctxs, seed: u64, st: &mut Stats) -> R<()> {
    let a = &ctxs[0].1;
    let n = kit.spec.n;
    let natural = kit.spec.scheme != Scheme::BFV;
    let mut per_level: Vec<Ciphertext> = vec![];
    let mut seeded: Vec<Ciphertext> = vec![];
    for (i, (lname, id)) in level_ids(a).into_iter().enumerate() {
        if lname == "key" {
            continue;
        }
        let size = [2usize, 3, 4, 16][i % 4];
        let mut c = crafted_ct(a, &id, size, natural ^ (i % 3 == 2), seed, 700 + i as u64);
        set_meta(&mut c, kit.spec.scheme, kit.spec.t, i);
        if c.is_valid_for(a) {
            per_level.push(c);
        } else {
            st.skipped.insert("crafted: not valid for the context".into());
        }
        match guard(|| kit.enc.encrypt_zero_symmetric_new_at(&id)) {
            Ok(z) if z.contains_seed() => seeded.push(z),
            Ok(_) => {}
            Err(p) => {
                st.skipped.insert(format!("zero-sym: refused ({})", panic_class(&p)));
            }
        }
    }
    if per_level.is_empty() {
        return Ok(());
    }
    let rows = |v: &[Ciphertext], w: usize| -> Vec<Vec<Ciphertext>> { v.chunks(w).map(|r| r.to_vec()).collect() };
    let boxes = |v: &[Ciphertext]| -> Cipher3d { Cipher3d::new_2ds(rows(v, 3).chunks(2).map(|b| Cipher2d::new(b.to_vec())).collect()) };
    let nl = per_level.len();
    let mut c1 = vec![("levels".to_string(), format!("Cipher1d[one ciphertext per level, {nl} levels]"), Cipher1d::new(per_level.clone()))];
    let mut c2 = vec![("levels".to_string(), format!("Cipher2d[rows of 3, {nl} levels]"), Cipher2d::new(rows(&per_level, 3)))];
    let mut c3 = vec![("levels".to_string(), format!("Cipher3d[2 x 3 blocks, {nl} levels]"), boxes(&per_level))];
    if !seeded.is_empty() {
        let ns = seeded.len();
        let h1 = Cipher1d::new(seeded.clone());
        let h2 = Cipher2d::new(rows(&seeded, 3));
        let h3 = boxes(&seeded);
        expand_impl_check(sec, "Cipher1d[seeded zero of every level]", &h1, a, st)?;
        expand_impl_check(sec, "Cipher2d[seeded zero of every level]", &h2, a, st)?;
        expand_impl_check(sec, "Cipher3d[seeded zero of every level]", &h3, a, st)?;
        c1.push(("seeded".into(), format!("Cipher1d[seeded zero of {ns} levels]"), h1));
        c2.push(("seeded".into(), format!("Cipher2d[seeded zero of {ns} levels, rows of 3]"), h2));
        c3.push(("seeded".into(), format!("Cipher3d[seeded zero of {ns} levels]"), h3));
        let mut mixed = vec![];
        for i in 0..nl.max(ns) {
            mixed.push(per_level[i % nl].clone());
            mixed.push(seeded[i % ns].clone());
        }
        c1.push(("mixed".into(), "Cipher1d[crafted and seeded alternating over the levels]".into(), Cipher1d::new(mixed.clone())));
        c2.push(("mixed".into(), "Cipher2d[crafted and seeded alternating, rows of 3]".into(), Cipher2d::new(rows(&mixed, 3))));
        c3.push(("mixed".into(), "Cipher3d[crafted and seeded alternating]".into(), boxes(&mixed)));
    } else {
        st.skipped.insert("no seeded ciphertext available (polynomials shorter than 9 words)".into());
    }
    stream_check(sec, &wrap(c1.clone(), WithCtx), ctxs, st)?;
    stream_check(sec, &wrap(c2.clone(), WithCtx), ctxs, st)?;
    stream_check(sec, &wrap(c3.clone(), WithCtx), ctxs, st)?;
    let all: Vec<usize> = (0..n).collect();
    let term_sets: Vec<Vec<usize>> = vec![vec![], vec![0], vec![n - 1, 0], all.clone(), shuffled(&all)];
    let (mut t1, mut t2, mut t3) = (vec![], vec![], vec![]);
    for ts in &term_sets {
        for (c, l, o) in &c1 {
            t1.push(item(c, format!("{l} terms={ts:?}"), Terms1d { c: o.clone(), terms: ts.clone() }));
        }
        for (c, l, o) in &c2 {
            t2.push(item(c, format!("{l} terms={ts:?}"), Terms2d { c: o.clone(), terms: ts.clone() }));
        }
        for (c, l, o) in &c3 {
            t3.push(item(c, format!("{l} terms={ts:?}"), Terms3d { c: o.clone(), terms: ts.clone() }));
        }
    }
    stream_check(sec, &t1, ctxs, st)?;
    stream_check(sec, &t2, ctxs, st)?;
    stream_check(sec, &t3, ctxs, st)
}

// ----- big-words ----------------------------------------------------------------------------------

#[derive(Serialize, Deserialize, Clone, Debug)]
pub struct BCase {
    pub spec: ParamSpec,
    pub kind: String,
    /// sizes of the crafted ciphertexts (kind ct)
    #[serde(default)]
    pub sizes: Vec<usize>,
    /// data lengths in 64-bit words of the coefficient-form plaintexts / word vectors (kind plain)
    #[serde(default)]
    pub lens: Vec<usize>,
    /// kind keys: also the default Galois key set
    #[serde(default)]
    pub deep: bool,
}

/// data-word counts on both sides of the block sizes a bulk path could use
const WORD_LENS: [usize; 47] = [
    0, 1, 2, 7, 8, 9, 15, 16, 17, 31, 32, 33, 63, 64, 65, 127, 128, 129, 255, 256, 257, 511, 512, 513, 1023, 1024, 1025, 2047, 2048, 2049, 4095, 4096, 4097, 8191, 8192,
    8193, 12287, 12289, 16383, 16384, 16385, 32767, 32768, 32769, 65535, 65536, 65537,
];

/// crafted ciphertexts of every level x size x representation in the compact, the full and the selected-terms format and
/// as one Vec per level; the real variants; the containers over them (compact and a few term sets)
fn big_ct(sec: &str, kit: &Kit, ctxs: &Ctxs, sizes: &[usize], seed: u64, st: &mut Stats) -> R<()> {
    let a = &ctxs[0].1;
    let n = kit.spec.n;
    let mut idx = 0usize;
    for (lname, id) in level_ids(a) {
        let mut vars: Vec<(String, String, Ciphertext)> = vec![];
        for &size in sizes {
            for ntt in [false, true] {
                let mut c = crafted_ct(a, &id, size, ntt, seed, 3000 + idx as u64);
                let meta = set_meta(&mut c, kit.spec.scheme, kit.spec.t, idx);
                idx += 1;
                let class = if lname == "key" { "crafted-keylevel" } else { "crafted" };
                if lname != "key" && !c.is_valid_for(a) {
                    st.skipped.insert("crafted: not valid for the context".into());
                    continue;
                }
                let words = c.data().len();
                vars.push((class.to_string(), format!("crafted level={lname} size={size} ntt={ntt} ({words} data words){meta}"), c));
            }
        }
        stream_check(sec, &wrap(vars.clone(), WithCtx), ctxs, st)?;
        stream_check(sec, &wrap(vars.clone(), Full), ctxs, st)?;
        // selected-terms format of every one of them (three term lists; the complete families are section big-terms)
        let tsets: Vec<(&str, Vec<usize>)> = vec![("terms N-1,0", vec![n - 1, 0]), ("first N/2 terms", (0..n / 2).collect()), ("all terms", (0..n).collect())];
        let mut titems: Vec<Item<Terms>> = vec![];
        for (class, label, c) in &vars {
            let tr = Arc::new(terms_ref_with(c, a, n > 16));
            let ca = Arc::new(c.clone());
            for (tl, ts) in &tsets {
                titems.push(item(class, format!("{label}, {tl}"), Terms { ct: ca.clone(), terms: ts.clone(), tr: tr.clone() }));
            }
        }
        stream_check(sec, &titems, ctxs, st)?;
        drop(titems);
        let all: Vec<Ciphertext> = vars.into_iter().map(|x| x.2).collect();
        stream_check(sec, &[item("many", format!("all crafted ciphertexts of level {lname} in one Vec"), WithCtx(all))], ctxs, st)?;
    }
    // real variants (fresh, seeded and unseeded symmetric, zero at every level, evaluated)
    let reals = real_variants(kit, seed, st);
    for (_, label, c) in &reals {
        expand_impl_check(sec, label, c, a, st)?;
    }
    let reals: Vec<(String, String, Ciphertext)> = reals.into_iter().map(|(c, l, o)| (c, format!("{l} ({} data words)", o.data().len()), o)).collect();
    stream_check(sec, &wrap(reals.clone(), WithCtx), ctxs, st)?;
    stream_check(sec, &wrap(reals.clone(), Full), ctxs, st)?;
    if reals.is_empty() {
        return Ok(());
    }
    // containers over the real variants
    let r: Vec<Ciphertext> = reals.iter().map(|x| x.2.clone()).collect();
    let g = |i: usize| r[i % r.len()].clone();
    let seeded: Vec<Ciphertext> = r.iter().filter(|c| c.contains_seed()).cloned().collect();
    let mut c1 = vec![("mixed".to_string(), format!("Cipher1d[all {} real variants]", r.len()), Cipher1d::new(r.clone()))];
    if !seeded.is_empty() {
        let h = Cipher1d::new(seeded.clone());
        expand_impl_check(sec, "Cipher1d[all seeded variants]", &h, a, st)?;
        c1.push(("seeded".into(), format!("Cipher1d[{} seeded variants]", seeded.len()), h));
    }
    let c2 = vec![("ragged".to_string(), "Cipher2d[[],[r0],[r1,r2],[r3,r4,r5]]".to_string(), Cipher2d::new(vec![vec![], vec![g(0)], vec![g(1), g(2)], vec![g(3), g(4), g(5)]]))];
    let c3 = vec![(
        "ragged".to_string(),
        "Cipher3d[[[r0],[r1,r2]],[],[[r3],[],[r4,r5]]]".to_string(),
        Cipher3d::new_2ds(vec![Cipher2d::new(vec![vec![g(0)], vec![g(1), g(2)]]), Cipher2d::new(vec![]), Cipher2d::new(vec![vec![g(3)], vec![], vec![g(4), g(5)]])]),
    )];
    stream_check(sec, &wrap(c1.clone(), WithCtx), ctxs, st)?;
    stream_check(sec, &wrap(c2.clone(), WithCtx), ctxs, st)?;
    stream_check(sec, &wrap(c3.clone(), WithCtx), ctxs, st)?;
    let sets: Vec<(String, Vec<usize>)> = vec![
        ("no terms".into(), vec![]),
        ("term 0".into(), vec![0]),
        ("terms N-1,0".into(), vec![n - 1, 0]),
        ("first N/2 terms".into(), (0..n / 2).collect()),
        ("every 3rd term".into(), (0..n).step_by(3).collect()),
        ("all terms".into(), (0..n).collect()),
    ];
    let (mut t1, mut t2, mut t3) = (vec![], vec![], vec![]);
    for (tl, ts) in &sets {
        for (c, l, o) in &c1 {
            t1.push(item(c, format!("{l}, {tl}"), Terms1d { c: o.clone(), terms: ts.clone() }));
        }
        for (c, l, o) in &c2 {
            t2.push(item(c, format!("{l}, {tl}"), Terms2d { c: o.clone(), terms: ts.clone() }));
        }
        for (c, l, o) in &c3 {
            t3.push(item(c, format!("{l}, {tl}"), Terms3d { c: o.clone(), terms: ts.clone() }));
        }
    }
    stream_check(sec, &t1, ctxs, st)?;
    stream_check(sec, &t2, ctxs, st)?;
    stream_check(sec, &t3, ctxs, st)
}

/// 64-bit words of full range (word vectors have no modulus)
fn word_vec(len: usize, seed: u64, tag: u64) -> Vec<u64> {
    (0..len)
        .map(|i| match i % 5 {
            0 => u64::MAX,
            1 => 0,
            2 => 1u64 << 63,
            _ => crate::refmodel::ser::sm64(seed ^ crate::refmodel::ser::sm64(tag ^ i as u64)),
        })
        .collect()
}

/// plaintexts with exactly `len` data words for every len of the case (context-free writers), NTT-form plaintexts and the
/// secret key (k*N words), the plaintext containers over them, PolynomialSerializer, word vectors of the same lengths
fn big_plain(sec: &str, kit: &Kit, ctxs: &Ctxs, lens: &[usize], seed: u64, st: &mut Stats) -> R<()> {
    let a = &ctxs[0].1;
    let n = kit.spec.n;
    let t = if kit.spec.scheme == Scheme::CKKS { 1u64 << 40 } else { kit.spec.t };
    let mut pts: Vec<(String, String, Plaintext)> = vec![];
    for (i, &len) in lens.iter().enumerate() {
        pts.push(("coeff-words".into(), format!("coefficient form, {len} data words"), coeff_plain(t, len, seed, 2000 + i as u64)));
    }
    for (i, (lname, id)) in level_ids(a).into_iter().enumerate() {
        let scale = if kit.spec.scheme == Scheme::CKKS { SCALES[i % SCALES.len()] } else { 1.0 };
        let p = crafted_ntt_plain(a, &id, scale, seed, 2100 + i as u64);
        pts.push(("ntt-words".into(), format!("NTT form level={lname} ({} data words)", p.data().len()), p));
    }
    stream_check(sec, &wrap(pts.clone(), NoCtx), ctxs, st)?;
    let sks = vec![item("keygen", format!("secret key ({} data words)", kit.sk.as_plaintext().data().len()), NoCtx(kit.sk.clone())), item("empty", "SecretKey::default()", NoCtx(SecretKey::default()))];
    stream_check(sec, &sks, ctxs, st)?;
    // containers: all of them in one row; ragged 2-d / 3-d over the same pool
    let pool: Vec<Plaintext> = pts.iter().map(|x| x.2.clone()).collect();
    let g = |i: usize| pool[i % pool.len()].clone();
    let m = pool.len();
    stream_check(sec, &[item("many", format!("Plain1d[all {m} plaintexts]"), NoCtx(Plain1d::new(pool.clone())))], ctxs, st)?;
    stream_check(
        sec,
        &[item("ragged", format!("Plain2d[[],[last],[all {m}],[first]]"), NoCtx(Plain2d::new(vec![vec![], vec![g(m - 1)], pool.clone(), vec![g(0)]])))],
        ctxs,
        st,
    )?;
    stream_check(
        sec,
        &[item(
            "ragged",
            format!("Plain3d[[[all {m}]],[],[[p1],[],[last,first]]]"),
            NoCtx(Plain3d::new_2ds(vec![Plain2d::new(vec![pool.clone()]), Plain2d::new(vec![]), Plain2d::new(vec![vec![g(1)], vec![], vec![g(m - 1), g(0)]])])),
        )],
        ctxs,
        st,
    )?;
    // PolynomialSerializer
    let mut polys: Vec<Item<PolyItem>> = vec![];
    for (i, (l, id)) in level_ids(a).into_iter().enumerate() {
        let c = crafted_ct(a, &id, 2, i % 2 == 1, seed, 2200 + i as u64);
        for p in 0..2 {
            polys.push(item("rns", format!("polynomial {p} of a crafted ciphertext at level {l} ({} words)", c.poly(p).len()), PolyItem { data: c.poly(p).to_vec(), id }));
        }
    }
    if kit.spec.scheme != Scheme::CKKS {
        for (i, &len) in lens.iter().filter(|&&l| l <= n).enumerate() {
            let p = coeff_plain(kit.spec.t, len, seed, 2300 + i as u64);
            polys.push(item("plain", format!("coefficient-form plaintext with {len} coefficients (t={})", kit.spec.t), PolyItem { data: p.data().clone(), id: PARMS_ID_ZERO }));
        }
    }
    stream_check(sec, &polys, ctxs, st)?;
    // word / byte vectors
    let vs: Vec<Item<NoCtx<Vec<u64>>>> = lens.iter().enumerate().map(|(i, &len)| item("words", format!("{len} words"), NoCtx(word_vec(len, seed, 2400 + i as u64)))).collect();
    stream_check(sec, &vs, ctxs, st)?;
    let bs: Vec<Item<NoCtx<Vec<u8>>>> =
        lens.iter().enumerate().map(|(i, &len)| item("bytes", format!("{len} bytes"), NoCtx(word_vec(len, seed, 2500 + i as u64).into_iter().map(|w| (w >> 13) as u8).collect::<Vec<u8>>()))).collect();
    stream_check(sec, &bs, ctxs, st)
}

/// Galois key sets at production degree: single elements (first / last index of the key vector), the empty set, one step;
/// `deep`: the default set
fn big_galois(sec: &str, kit: &Kit, ctxs: &Ctxs, deep: bool, st: &mut Stats) -> R<()> {
    let a = &ctxs[0].1;
    let n = kit.spec.n;
    let mut items = vec![item("empty", "GaloisKeys::default()", WithCtx(GaloisKeys::default()))];
    let add = |items: &mut Vec<Item<WithCtx<GaloisKeys>>>, st: &mut Stats, label: String, f: &dyn Fn() -> GaloisKeys| -> R<()> {
        match guard(f) {
            Ok(k) => {
                expand_impl_check(sec, &label, &k, a, st)?;
                let present = k.as_kswitch_keys().len();
                let total = k.as_kswitch_keys().keys().len();
                let class = format!("{}{}", seeded_class(&k), if present < total { "-missing-entries" } else { "" });
                items.push(item(&class, format!("{label}: {present} of {total} entries present"), WithCtx(k)));
            }
            Err(p) => {
                st.skipped.insert(format!("galois keys refused ({})", panic_class(&p)));
            }
        }
        Ok(())
    };
    for save in [false, true] {
        add(&mut items, st, format!("create_galois_keys_from_elts([3],{save})"), &|| kit.keygen.create_galois_keys_from_elts(&[3], save))?;
        add(&mut items, st, format!("create_galois_keys_from_elts([2N-1],{save})"), &|| kit.keygen.create_galois_keys_from_elts(&[2 * n - 1], save))?;
        add(&mut items, st, format!("create_galois_keys_from_elts([3,N+1,2N-1],{save})"), &|| kit.keygen.create_galois_keys_from_elts(&[3, n + 1, 2 * n - 1], save))?;
        add(&mut items, st, format!("create_galois_keys_from_elts([],{save})"), &|| kit.keygen.create_galois_keys_from_elts(&[], save))?;
        add(&mut items, st, format!("create_galois_keys_from_steps([1],{save})"), &|| kit.keygen.create_galois_keys_from_steps(&[1], save))?;
        if deep {
            add(&mut items, st, format!("create_galois_keys({save})"), &|| kit.keygen.create_galois_keys(save))?;
        }
    }
    stream_chunks(sec, &items, ctxs, 4, st)
}

fn check_big(sec: &str, c: &BCase, seed: u64) -> CaseOut {
    let tag = h64(&serde_json::to_string(c).unwrap_or_default());
    he::env_real(seed, tag);
    let (kit, ctxs) = match setup(sec, &c.spec) {
        Ok(x) => x,
        Err(o) => return o,
    };
    let mut st = Stats::default();
    let r = match c.kind.as_str() {
        "ct" => big_ct(sec, &kit, &ctxs, &c.sizes, seed, &mut st),
        "plain" => big_plain(sec, &kit, &ctxs, &c.lens, seed, &mut st),
        "keys" => kind_keys(sec, &kit, &ctxs, &mut st)
            .and_then(|_| kind_relin(sec, &kit, &ctxs, &mut st))
            .and_then(|_| kind_kswitch(sec, &kit, &ctxs, &mut st))
            .and_then(|_| big_galois(sec, &kit, &ctxs, c.deep, &mut st)),
        "params" => kind_params(sec, &kit, &ctxs, &mut st),
        "use" => kind_use(sec, &kit, &ctxs, seed, tag, &mut st),
        k => panic!("unknown kind {k}"),
    };
    finish_case(&format!("{}:{:?}:N{}", c.kind, c.spec.scheme, c.spec.n), st, r)
}

// ----- big-terms ----------------------------------------------------------------------------------

#[derive(Serialize, Deserialize, Clone, Debug)]
pub struct TBCase {
    pub spec: ParamSpec,
    /// which ciphertext: natural2 | other3 | sym | fresh | keylevel
    pub variant: String,
    /// single | prefix | suffix | comb | comb-last | prefix-desc | comb-shuffled
    pub family: String,
    /// members with index = part (mod parts) are checked by this case
    #[serde(default)]
    pub part: usize,
    #[serde(default)]
    pub parts: usize,
}

const TERM_FAMILIES: [&str; 7] = ["single", "prefix", "suffix", "comb", "comb-last", "prefix-desc", "comb-shuffled"];
const TERM_VARIANTS: [&str; 5] = ["natural2", "other3", "sym", "fresh", "keylevel"];

/// structured families of term lists over 0..n (O(n) members each) that replace the 2^n subsets at large n
fn term_family(name: &str, n: usize) -> Vec<Vec<usize>> {
    match name {
        // every single term
        "single" => (0..n).map(|t| vec![t]).collect(),
        // every prefix 0..m, m = 0..n (the empty list and the full list included)
        "prefix" => (0..=n).map(|m| (0..m).collect()).collect(),
        // every proper suffix m..n
        "suffix" => (1..n).map(|m| (m..n).collect()).collect(),
        // every comb {0, s, 2s, ..}, s = 2..n
        "comb" => (2..=n).map(|s| (0..n).step_by(s).collect()).collect(),
        // every comb {s-1, 2s-1, ..}: the last term of every block of s
        "comb-last" => (2..=n).map(|s| (s - 1..n).step_by(s).collect()).collect(),
        // every prefix in descending order
        "prefix-desc" => (2..=n).map(|m| (0..m).rev().collect()).collect(),
        // every comb with at least 3 teeth in a fixed non-monotone order
        "comb-shuffled" => (2..=n / 2).map(|s| shuffled(&(0..n).step_by(s).collect::<Vec<_>>())).filter(|v| v.len() > 2).collect(),
        f => panic!("unknown family {f}"),
    }
}

fn check_big_terms(c: &TBCase, seed: u64) -> CaseOut {
    let tag = h64(&serde_json::to_string(c).unwrap_or_default());
    he::env_real(seed, tag);
    let sec = "big-terms";
    let (kit, ctxs) = match setup(sec, &c.spec) {
        Ok(x) => x,
        Err(o) => return o,
    };
    let a = &ctxs[0].1;
    let n = c.spec.n;
    let scheme = c.spec.scheme;
    let natural = scheme != Scheme::BFV;
    let mut st = Stats::default();
    let levels = level_ids(a);
    let first = *a.first_parms_id();
    let last = *a.last_parms_id();
    let plain = sample_plain(&kit, seed);
    let made: Result<(String, String, Ciphertext), String> = match c.variant.as_str() {
        "natural2" => {
            let mut ct = crafted_ct(a, &first, 2, natural, seed, 4000);
            let meta = set_meta(&mut ct, scheme, kit.spec.t, 1);
            Ok(("crafted".into(), format!("crafted first level size=2 ntt={natural}{meta}"), ct))
        }
        "other3" => {
            let mut ct = crafted_ct(a, &last, 3, !natural, seed, 4001);
            let meta = set_meta(&mut ct, scheme, kit.spec.t, 2);
            Ok(("crafted".into(), format!("crafted last level size=3 ntt={}{meta}", !natural), ct))
        }
        "keylevel" => {
            let id = levels[0].1;
            Ok(("crafted-keylevel".into(), format!("crafted level={} size=2 ntt={natural}", levels[0].0), crafted_ct(a, &id, 2, natural, seed, 4002)))
        }
        "sym" => guard(|| kit.enc.encrypt_symmetric_new(&plain)).map(|ct| (format!("sym-{}", seeded_tag(&ct)), "encrypt_symmetric_new".to_string(), ct)),
        "fresh" => guard(|| kit.enc.encrypt_new(&plain)).map(|ct| ("fresh-pk-expanded".to_string(), "encrypt_new".to_string(), ct)),
        v => panic!("unknown variant {v}"),
    };
    let (class, label, ct) = match made {
        Ok(x) => x,
        Err(p) => return CaseOut::skip(&format!("encryption refused: {}", panic_class(&p))),
    };
    if class == "crafted" && !ct.is_valid_for(a) {
        return CaseOut::skip("crafted ciphertext not valid for the context");
    }
    let parts = c.parts.max(1);
    let lists: Vec<Vec<usize>> = term_family(&c.family, n).into_iter().enumerate().filter(|(i, _)| i % parts == c.part).map(|x| x.1).collect();
    let tr = Arc::new(terms_ref(&ct, a));
    let ct = Arc::new(ct);
    let fam = &c.family;
    let r = (|| -> R<()> {
        let items: Vec<Item<Terms>> = lists.into_iter().map(|ts| item(&class, format!("{label}, family {fam}, {} terms", ts.len()), Terms { ct: ct.clone(), terms: ts, tr: tr.clone() })).collect();
        // several objects per stream; the chunk bounds the stream to a few MB at N = 8192
        stream_chunks(sec, &items, &ctxs, if n >= 1024 { 64 } else { 512 }, &mut st)
    })();
    finish_case(&format!("terms:{:?}:{}:{}", scheme, c.variant, c.family), st, r)
}

// ----- big-shapes ---------------------------------------------------------------------------------

#[derive(Serialize, Deserialize, Clone, Debug)]
pub struct SHCase {
    pub spec: ParamSpec,
    /// c1 | c2 | c3 | p1 | p2 | p3 | vec
    pub kind: String,
    /// every box dimension / row count / stair height runs over 0..=max
    pub max: usize,
    /// additional long lengths (one dimension long, the others 0..2)
    #[serde(default)]
    pub long: Vec<usize>,
    /// 2-d / 3-d kinds: the shapes with index = part (mod parts) are checked by this case
    #[serde(default)]
    pub part: usize,
    #[serde(default)]
    pub parts: usize,
}

/// shapes of a 2-d container as row lengths
fn shapes2(max: usize, long: &[usize]) -> Vec<(String, Vec<usize>)> {
    let mut v: Vec<(String, Vec<usize>)> = vec![];
    for r in 0..=max {
        for c in 0..=max {
            v.push(("box".into(), vec![c; r]));
        }
    }
    for r in 2..=max {
        v.push(("stairs".into(), (0..r).collect()));
        v.push(("stairs-down".into(), (0..r).rev().collect()));
        v.push(("alternating".into(), (0..r).map(|i| if i % 2 == 0 { 0 } else { r }).collect()));
        v.push(("irregular".into(), (0..r).map(|i| (i * 7 + r) % 5).collect()));
    }
    for &l in long {
        v.push(("long".into(), vec![1; l]));
        v.push(("long".into(), vec![0; l]));
        v.push(("long".into(), vec![l]));
        v.push(("long".into(), vec![l, 0, 2]));
    }
    v
}

/// shapes of a 3-d container as row lengths of every matrix
fn shapes3(max: usize, long: &[usize]) -> Vec<(String, Vec<Vec<usize>>)> {
    let mut v: Vec<(String, Vec<Vec<usize>>)> = vec![];
    let m3 = max.min(6);
    for a in 0..=m3 {
        for b in 0..=m3 {
            for c in 0..=m3 {
                v.push(("box".into(), vec![vec![c; b]; a]));
            }
        }
    }
    // one dimension 0..=max, the other two small
    for l in 0..=max {
        for (x, y) in [(1usize, 1usize), (2, 3), (3, 2), (0, 2), (2, 0)] {
            v.push(("slab".into(), vec![vec![y; x]; l]));
            v.push(("slab".into(), vec![vec![y; l]; x]));
            v.push(("slab".into(), vec![vec![l; y]; x]));
        }
    }
    for r in 2..=max.min(10) {
        v.push(("stairs".into(), (0..r).map(|i| (0..i).map(|j| i + j).collect()).collect()));
        v.push(("irregular".into(), (0..r).map(|i| (0..(i * 3 + r) % 4).map(|j| (i + 2 * j + r) % 3).collect()).collect()));
    }
    for &l in long {
        v.push(("long".into(), vec![vec![1]; l]));
        v.push(("long".into(), vec![vec![]; l]));
        v.push(("long".into(), vec![vec![1; l]]));
        v.push(("long".into(), vec![vec![0; l], vec![2]]));
        v.push(("long".into(), vec![vec![l], vec![], vec![1, 2]]));
    }
    v
}

fn check_big_shapes(c: &SHCase, seed: u64) -> CaseOut {
    let tag = h64(&serde_json::to_string(c).unwrap_or_default());
    he::env_real(seed, tag);
    let sec = "big-shapes";
    let (kit, ctxs) = match setup(sec, &c.spec) {
        Ok(x) => x,
        Err(o) => return o,
    };
    let a = &ctxs[0].1;
    let n = c.spec.n;
    let mut st = Stats::default();
    // pool of 7 heterogeneous ciphertexts (7 is coprime to every box dimension but 7 and 14): levels, sizes,
    // representations differ, seeded ones in between
    let vars = ct_variants(&kit, false, seed, &mut st);
    let seeded: Vec<Ciphertext> = vars.iter().filter(|x| x.2.contains_seed()).map(|x| x.2.clone()).collect();
    let mut ex: Vec<Ciphertext> = vars.iter().filter(|x| x.0.starts_with("fresh") || x.0.starts_with("evaluated")).map(|x| x.2.clone()).collect();
    ex.extend(vars.iter().filter(|x| x.0 == "crafted" && x.2.size() == 3).map(|x| x.2.clone()).rev().take(2));
    ex.extend(vars.iter().filter(|x| x.0 == "crafted" && x.2.size() == 16).map(|x| x.2.clone()).take(1));
    ex.extend(vars.iter().filter(|x| x.0 == "crafted" && x.2.size() == 2).map(|x| x.2.clone()).take(2));
    if ex.is_empty() {
        return CaseOut::skip("no ciphertext available");
    }
    let mut pool: Vec<Ciphertext> = vec![];
    for i in 0..7 {
        if i % 3 == 1 && !seeded.is_empty() {
            pool.push(seeded[(i / 3) % seeded.len()].clone());
        } else {
            pool.push(ex[i % ex.len()].clone());
        }
    }
    if seeded.is_empty() {
        st.skipped.insert("no seeded ciphertext available".into());
    }
    let pts: Vec<Plaintext> = pt_variants(&kit, seed, &mut st).into_iter().map(|x| x.2).collect();
    // selected-terms format: terms N-1,0 for every shape; no terms / all terms for the shapes of at most 16 elements
    let term_sets: Vec<(Vec<usize>, usize)> = vec![(vec![n - 1, 0], usize::MAX), (vec![], 16), ((0..n).collect(), 16)];
    let parts = c.parts.max(1);
    let part = c.part;
    let mine = move |i: usize| i % parts == part;
    let r = (|| -> R<()> {
        let mut ctr = 0usize;
        let mut nextc = |k: usize| -> Vec<Ciphertext> {
            let v = (0..k).map(|i| pool[(ctr + i) % pool.len()].clone()).collect();
            ctr += k + 1;
            v
        };
        let mut pctr = 0usize;
        let mut nextp = |k: usize| -> Vec<Plaintext> {
            let v = (0..k).map(|i| pts[(pctr + i) % pts.len()].clone()).collect();
            pctr += k + 1;
            v
        };
        let lens: Vec<usize> = (0..=c.max).chain(c.long.iter().copied()).collect();
        match c.kind.as_str() {
            "c1" => {
                let cs: Vec<(String, String, Cipher1d)> = lens.iter().map(|&l| ("length".to_string(), format!("Cipher1d of {l} ciphertexts"), Cipher1d::new(nextc(l)))).collect();
                stream_check(sec, &wrap(cs.clone(), WithCtx), &ctxs, &mut st)?;
                let mut ts = vec![];
                for (t, cap) in &term_sets {
                    for (cl, l, o) in cs.iter().filter(|x| x.2.data.len() <= (*cap).min(2 * c.max + 2).max(c.max)) {
                        ts.push(item(cl, format!("{l}, {} terms", t.len()), Terms1d { c: o.clone(), terms: t.clone() }));
                    }
                }
                stream_check(sec, &ts, &ctxs, &mut st)?;
                if !seeded.is_empty() {
                    for l in 1..=c.max {
                        let h = Cipher1d::new((0..l).map(|i| seeded[i % seeded.len()].clone()).collect());
                        expand_impl_check(sec, &format!("Cipher1d of {l} seeded ciphertexts"), &h, a, &mut st)?;
                    }
                }
                Ok(())
            }
            "c2" => {
                let cs: Vec<(String, String, Cipher2d)> = shapes2(c.max, &c.long)
                    .into_iter()
                    .enumerate()
                    .filter(|(i, _)| mine(*i))
                    .map(|(_, (cl, rows))| (cl, format!("Cipher2d with row lengths {}", show_rows(&rows)), Cipher2d::new(rows.iter().map(|&k| nextc(k)).collect())))
                    .collect();
                stream_chunks(sec, &wrap(cs.clone(), WithCtx), &ctxs, 64, &mut st)?;
                let mut ts = vec![];
                for (t, cap) in &term_sets {
                    for (cl, l, o) in cs.iter().filter(|x| x.0 != "long" && x.2.data.iter().map(|r| r.data.len()).sum::<usize>() <= *cap) {
                        ts.push(item(cl, format!("{l}, {} terms", t.len()), Terms2d { c: o.clone(), terms: t.clone() }));
                    }
                }
                stream_chunks(sec, &ts, &ctxs, 64, &mut st)
            }
            "c3" => {
                let cs: Vec<(String, String, Cipher3d)> = shapes3(c.max, &c.long)
                    .into_iter()
                    .enumerate()
                    .filter(|(i, _)| mine(*i))
                    .map(|(_, (cl, mats))| {
                        let label = format!("Cipher3d with row lengths [{}]", mats.iter().map(|m| show_rows(m)).collect::<Vec<_>>().join(","));
                        (cl, label, Cipher3d::new_2ds(mats.iter().map(|rows| Cipher2d::new(rows.iter().map(|&k| nextc(k)).collect())).collect()))
                    })
                    .collect();
                stream_chunks(sec, &wrap(cs.clone(), WithCtx), &ctxs, 64, &mut st)?;
                let mut ts = vec![];
                for (t, cap) in &term_sets {
                    for (cl, l, o) in cs.iter().filter(|x| x.0 != "long" && x.2.data.iter().flat_map(|m| m.data.iter()).map(|r| r.data.len()).sum::<usize>() <= *cap) {
                        ts.push(item(cl, format!("{l}, {} terms", t.len()), Terms3d { c: o.clone(), terms: t.clone() }));
                    }
                }
                stream_chunks(sec, &ts, &ctxs, 64, &mut st)
            }
            "p1" => {
                let ps: Vec<Item<NoCtx<Plain1d>>> = lens.iter().map(|&l| item("length", format!("Plain1d of {l} plaintexts"), NoCtx(Plain1d::new(nextp(l))))).collect();
                stream_check(sec, &ps, &ctxs, &mut st)
            }
            "p2" => {
                let ps: Vec<Item<NoCtx<Plain2d>>> = shapes2(c.max, &c.long)
                    .into_iter()
                    .enumerate()
                    .filter(|(i, _)| mine(*i))
                    .map(|(_, (cl, rows))| item(&cl, format!("Plain2d with row lengths {}", show_rows(&rows)), NoCtx(Plain2d::new(rows.iter().map(|&k| nextp(k)).collect()))))
                    .collect();
                stream_chunks(sec, &ps, &ctxs, 64, &mut st)
            }
            "p3" => {
                let ps: Vec<Item<NoCtx<Plain3d>>> = shapes3(c.max, &c.long)
                    .into_iter()
                    .enumerate()
                    .filter(|(i, _)| mine(*i))
                    .map(|(_, (cl, mats))| {
                        let label = format!("Plain3d with row lengths [{}]", mats.iter().map(|m| show_rows(m)).collect::<Vec<_>>().join(","));
                        item(&cl, label, NoCtx(Plain3d::new_2ds(mats.iter().map(|rows| Plain2d::new(rows.iter().map(|&k| nextp(k)).collect())).collect())))
                    })
                    .collect();
                stream_chunks(sec, &ps, &ctxs, 64, &mut st)
            }
            "vec" => {
                let vs: Vec<Item<WithCtx<Vec<Ciphertext>>>> = lens.iter().map(|&l| item("length", format!("Vec of {l} ciphertexts"), WithCtx(nextc(l)))).collect();
                stream_check(sec, &vs, &ctxs, &mut st)?;
                // public keys, seeded and expanded alternating
                let mut pks: Vec<PublicKey> = vec![];
                for save in [false, true, true, false, true] {
                    match guard(|| kit.keygen.create_public_key(save)) {
                        Ok(pk) => pks.push(pk),
                        Err(p) => {
                            st.skipped.insert(format!("public key creation refused ({})", panic_class(&p)));
                        }
                    }
                }
                if !pks.is_empty() {
                    let vs: Vec<Item<WithCtx<Vec<PublicKey>>>> =
                        lens.iter().map(|&l| item("length", format!("Vec of {l} public keys"), WithCtx((0..l).map(|i| pks[(i + l) % pks.len()].clone()).collect::<Vec<_>>()))).collect();
                    stream_check(sec, &vs, &ctxs, &mut st)?;
                }
                let ws: Vec<Item<NoCtx<Vec<Modulus>>>> = lens
                    .iter()
                    .map(|&l| item("length", format!("Vec of {l} moduli"), NoCtx((0..l).map(|i| Modulus::new(c.spec.q[i % c.spec.q.len()] - 2 * (i / c.spec.q.len()) as u64)).collect::<Vec<_>>())))
                    .collect();
                stream_check(sec, &ws, &ctxs, &mut st)
            }
            k => panic!("unknown kind {k}"),
        }
    })();
    finish_case(&format!("shapes:{}:{:?}", c.kind, c.spec.scheme), st, r)
}

/// row lengths, long runs abbreviated ("1 x4097")
fn show_rows(rows: &[usize]) -> String {
    if rows.len() > 24 && rows.iter().all(|&x| x == rows[0]) {
        return format!("[{} x{}]", rows[0], rows.len());
    }
    format!("{rows:?}")
}

/// Order of a section's cases: the 24 cheapest first (the engine executes the first 24 cases twice, sequentially, as its
/// determinism self-test), then the others from the most expensive down (a long case must not be the last one started).
fn order_cases<C>(mut cases: Vec<C>, cost: impl Fn(&C) -> u64) -> Vec<C> {
    cases.sort_by_key(|c| cost(c));
    let tail = cases.split_off(cases.len().min(24));
    cases.extend(tail.into_iter().rev());
    cases
}

/// cases of the production-size sections
fn big_sections(cfg: &RunCfg) -> Vec<Box<dyn AnySection>> {
    let seed = cfg.seed;
    let deep = cfg.thorough();
    let mut v: Vec<Box<dyn AnySection>> = vec![];

    // ---- big-primes: 1..19 (thorough: ..24, 31..33, 63, 64) primes in the chain at N = 4 / 8, every object kind
    let mut pcases: Vec<Case> = vec![];
    let mut plens: Vec<usize> = (1..=19).collect();
    if deep {
        plens.extend([20, 21, 22, 23, 24, 31, 32, 33, 63, 64]);
    } else {
        plens.extend([33, 64]);
    }
    let mut kinds: Vec<&str> = KINDS.to_vec();
    kinds.push("levelbox");
    let mut nspecs = 0usize;
    let mut seen: BTreeSet<String> = BTreeSet::new();
    for &len in &plens {
        let mut combos: Vec<(usize, usize)> = vec![]; // (N, pattern)
        if len <= 19 {
            combos.push((4, 0));
            // (N = 8 with 1..7 primes is in the quick tier of section `objects`)
            if deep || len >= 8 {
                combos.push((8, 1));
            }
            if deep {
                combos.extend([(4, 1), (8, 0), (4, 2), (8, 2)]);
            }
        } else {
            combos.push((4, 2));
            if deep {
                combos.push((8, 2));
            }
        }
        for (ci, (n, pat)) in combos.into_iter().enumerate() {
            let bits = many_bits(len, pat);
            for (si, scheme) in Scheme::all().into_iter().enumerate() {
                // long chains: one scheme per chain in the quick tier
                if !deep && len > 19 && si != len % 3 {
                    continue;
                }
                let mut s = big_spec(scheme, n, &bits, len + ci + si);
                // (the patterns coincide on the shortest chains)
                if !seen.insert(serde_json::to_string(&s).unwrap_or_default()) {
                    continue;
                }
                nspecs += 1;
                for k in &kinds {
                    pcases.push(Case { spec: s.clone(), kind: k.to_string(), deep: false });
                }
                // the special prime used for encryption: the first data level has ALL primes
                if [9usize, 17].contains(&len) && (deep || ci == 0) {
                    s.special_enc = true;
                    nspecs += 1;
                    for k in &kinds {
                        pcases.push(Case { spec: s.clone(), kind: k.to_string(), deep: false });
                    }
                }
            }
        }
    }
    v.push(
        E1::new(
            "big-primes",
            &format!(
                "{nspecs} parameter sets: chains of L primes for every L in {} (byte widths 1..8 cycling so that positions j, j+8, j+16 differ) x N in {{4,8}} (quick: N = 8 from 8 primes on) x BFV/BGV/CKKS x {} object kinds (the 10 of `objects` + levelbox = Cipher1d/2d/3d over all levels): keys carry L primes, ciphertexts / plaintexts / polynomials every level 1..L; sizes {{2,3,4,16}}; both representations; seeded and expanded; announced = returned = written = consumed, restored == original",
                if deep { "1..24, 31..33, 63, 64" } else { "1..19, 33, 64" },
                kinds.len()
            ),
            order_cases(pcases, |c| (c.spec.q.len() * c.spec.q.len() * c.spec.n) as u64).into_iter(),
            move |c: &Case| check_objects_in("big-primes", c, seed),
        )
        .deadline(std::time::Duration::from_secs(120))
        .batch(4),
    );

    // ---- big-words: total data words on both sides of 1024 / 4096 / 8192 / 65536
    // (N, chain bits, sizes): every level of the chain x every size x both representations
    let all_sizes: Vec<usize> = (2..=16).collect();
    let mut grid: Vec<(usize, Vec<usize>, Vec<usize>)> = vec![
        (2, many_bits(19, 2), all_sizes.clone()),
        (4, many_bits(19, 0), all_sizes.clone()),
        (8, many_bits(19, 1), all_sizes.clone()),
        (16, many_bits(19, 2), all_sizes.clone()), // 4080 = 16*17*15, 4096 = 16*16*16, 4352 = 16*17*16
        (256, vec![20, 30, 40, 50, 60], vec![2, 3, 4, 5, 8, 16]), // 1024 = 256*1*4 = 256*2*2, 4096 = 256*1*16 = 256*4*4
        (1024, vec![30, 40, 50], vec![2, 3, 4, 5]),              // 4096 = 1024*1*4 = 1024*2*2, 5120, 6144, 8192 = 1024*2*4
        (4096, vec![40, 41], vec![2, 3]),                        // 8192, 12288, 16384, 24576
    ];
    if deep {
        grid.extend([
            (8, many_bits(64, 2), all_sizes.clone()),   // 4104 = 8*57*9, 63 / 64 primes
            (32, many_bits(19, 2), all_sizes.clone()),  // 4160 = 32*13*10
            (64, many_bits(19, 2), all_sizes.clone()),  // 4032 = 64*9*7, 4160 = 64*13*5
            (128, many_bits(19, 2), all_sizes.clone()),
            (256, many_bits(21, 2), all_sizes.clone()), // 65280 = 256*17*15, 65536 = 256*16*16, 66560 = 256*20*13
            (512, many_bits(9, 2), all_sizes.clone()),
            (1024, many_bits(9, 2), all_sizes.clone()), // 64512 = 1024*7*9, 65536 = 1024*8*8, 66560 = 1024*5*13
            (2048, vec![30, 40, 50, 60], vec![2, 3, 4, 5, 8, 11, 16]), // 65536 = 2048*2*16, 67584 = 2048*3*11
            (4096, vec![36, 37, 50, 60], vec![2, 3, 4, 5, 6, 8, 9, 15, 16]), // 61440, 65536 = 4096*1*16 = 4096*2*8, 73728
            (8192, vec![40, 50, 60], vec![2, 3, 4, 7, 8, 9]), // 57344, 65536 = 8192*1*8 = 8192*2*4, 73728
            (16384, vec![50, 60], vec![2, 3, 4]),             // 65536 = 16384*1*4 = 16384*2*2
            (32768, vec![55], vec![2, 3]),                    // 65536 = 32768*1*2
        ]);
    }
    let mut bcases: Vec<BCase> = vec![];
    let mut wsum: BTreeSet<usize> = BTreeSet::new();
    for (gi, (n, bits, sizes)) in grid.iter().enumerate() {
        for k in 1..=bits.len() {
            for s in sizes {
                wsum.insert(n * k * s);
            }
        }
        for (si, scheme) in Scheme::all().into_iter().enumerate() {
            let spec = big_spec(scheme, *n, bits, gi + si);
            bcases.push(BCase { spec: spec.clone(), kind: "ct".into(), sizes: sizes.clone(), lens: vec![], deep });
            if *n >= 256 || bits.len() == 64 {
                let lens: Vec<usize> = WORD_LENS.iter().copied().filter(|&l| deep || *n == 1024 || l <= 4 * n).collect();
                bcases.push(BCase { spec: spec.clone(), kind: "plain".into(), sizes: vec![], lens, deep });
                bcases.push(BCase { spec: spec.clone(), kind: "keys".into(), sizes: vec![], lens: vec![], deep: deep && *n <= 4096 });
                bcases.push(BCase { spec: spec.clone(), kind: "params".into(), sizes: vec![], lens: vec![], deep });
                if *n <= 1024 || (deep && *n <= 4096) {
                    bcases.push(BCase { spec: spec.clone(), kind: "use".into(), sizes: vec![], lens: vec![], deep });
                }
            }
        }
    }
    let bcases = order_cases(bcases, |c| {
        let (n, k) = (c.spec.n as u64, c.spec.q.len() as u64);
        match c.kind.as_str() {
            "params" => k,
            "plain" => n * k + c.lens.iter().sum::<usize>() as u64 / 4,
            "keys" => n * k * k * 4,
            "use" => n * k * k * 8,
            _ => n * k * k * c.sizes.iter().sum::<usize>() as u64,
        }
    });
    let near = |b: usize| -> String {
        let lo = wsum.range(..b).next_back().copied().unwrap_or(0);
        let hi = wsum.range(b + 1..).next().copied().unwrap_or(0);
        format!("{lo} < {}{b} < {hi}", if wsum.contains(&b) { "" } else { "(not hit) " })
    };
    v.push(
        E1::new(
            "big-words",
            &format!(
                "{} cases = (N, chain, scheme) x kind; N in {:?}; ct: crafted ciphertexts of EVERY level x sizes x both representations in the compact, the full and the selected-terms format (3 term lists) and as one Vec per level ({} distinct totals size*primes*N of data words, nearest totals around the block sizes: {}, {}, {}, {}), real seeded / expanded variants (full format of a seeded one: primes*N + 9 words), containers + 6 term sets; plain: coefficient-form plaintexts, word and byte vectors of exactly L words for L in 0..2, 2^k-1, 2^k, 2^k+1 (k = 3..16), 12287, 12289; NTT-form plaintexts of every level, secret key, Plain1d/2d/3d, PolynomialSerializer; keys: public / relin / key-switching / Galois keys seeded and expanded; params; use",
                bcases.len(),
                grid.iter().map(|g| g.0).collect::<BTreeSet<_>>(),
                wsum.len(),
                near(1024),
                near(4096),
                near(8192),
                near(65536)
            ),
            bcases.into_iter(),
            move |c: &BCase| check_big("big-words", c, seed),
        )
        .deadline(std::time::Duration::from_secs(300))
        .batch(1),
    );

    // ---- big-terms: structured term families at N = 32 .. 8192
    let mut tcases: Vec<TBCase> = vec![];
    // (N, chain bits, families, variants, schemes)
    let fams_all: Vec<&str> = TERM_FAMILIES.to_vec();
    let vars_all: Vec<&str> = TERM_VARIANTS.to_vec();
    let mut tgrid: Vec<(usize, Vec<usize>, Vec<&str>, Vec<&str>, Vec<Scheme>)> = vec![
        (32, vec![17, 25, 33], fams_all.clone(), vars_all.clone(), Scheme::all().to_vec()),
        (64, vec![20, 41], fams_all.clone(), vars_all.clone(), Scheme::all().to_vec()),
        (256, vec![30, 57, 40], fams_all.clone(), vars_all.clone(), Scheme::all().to_vec()),
        (1024, vec![36, 49], fams_all.clone(), vec!["natural2", "other3", "sym"], vec![Scheme::BFV, Scheme::CKKS]),
    ];
    if deep {
        tgrid.extend([
            (128, vec![24, 33, 48], fams_all.clone(), vars_all.clone(), Scheme::all().to_vec()),
            (512, vec![25, 41, 56], fams_all.clone(), vars_all.clone(), Scheme::all().to_vec()),
            (1024, vec![36, 49], fams_all.clone(), vars_all.clone(), vec![Scheme::BGV]),
            (1024, vec![36, 49], fams_all.clone(), vec!["fresh", "keylevel"], vec![Scheme::BFV, Scheme::CKKS]),
            (2048, vec![40, 57], fams_all.clone(), vars_all.clone(), Scheme::all().to_vec()),
            (4096, vec![44, 60], fams_all.clone(), vec!["natural2", "other3", "sym"], Scheme::all().to_vec()),
            (8192, vec![50, 60], vec!["single", "prefix", "suffix", "comb", "comb-last"], vec!["natural2", "other3"], vec![Scheme::BFV, Scheme::CKKS]),
        ]);
    }
    let mut tn: BTreeSet<usize> = BTreeSet::new();
    for (gi, (n, bits, fams, vars, schemes)) in tgrid.iter().enumerate() {
        tn.insert(*n);
        for (si, scheme) in schemes.iter().enumerate() {
            let spec = big_spec(*scheme, *n, bits, gi + si + 1);
            for var in vars {
                for fam in fams {
                    // ~ 256 members per case at large N (a member costs O(N log N) in the reference)
                    let parts = (*n / 256).max(1);
                    for part in 0..parts {
                        tcases.push(TBCase { spec: spec.clone(), variant: var.to_string(), family: fam.to_string(), part, parts });
                    }
                }
            }
        }
    }
    let tcases = order_cases(tcases, |c| (c.spec.n * c.spec.n / c.parts.max(1)) as u64 * if c.family == "single" { 1 } else { 2 });
    v.push(
        E1::new(
            "big-terms",
            &format!(
                "{} cases = (parameter set, ciphertext variant, family, share): N in {:?}; variants {:?} (natural / other representation, sizes 2 / 3, first / last / key level, seeded symmetric, fresh); families over the term indices 0..N-1: every single term, every prefix 0..m (m = 0..N), every suffix, every comb {{0,s,2s,..}} and {{s-1,2s-1,..}} (s = 2..N), every prefix in descending order, every comb in a shuffled order - instead of the 2^N subsets; reference: coefficient-domain selection through refmodel::ntt::fast_intt / fast_ntt with the root of the context's table",
                tcases.len(),
                tn,
                TERM_VARIANTS
            ),
            tcases.into_iter(),
            move |c: &TBCase| check_big_terms(c, seed),
        )
        .deadline(std::time::Duration::from_secs(300))
        .batch(1),
    );

    // ---- big-shapes: container lengths 0..20, boxes, ragged shapes, long containers
    let mut shcases: Vec<SHCase> = vec![];
    let long: Vec<usize> = if deep { vec![31, 32, 33, 63, 64, 65, 127, 128, 129, 255, 256, 257, 511, 512, 513, 1023, 1024, 1025, 4095, 4096, 4097] } else { vec![31, 32, 33, 63, 64, 65, 127, 128, 129, 255, 256, 257, 1023, 1024, 1025] };
    for (si, scheme) in Scheme::all().into_iter().enumerate() {
        let spec = big_spec(scheme, 8, &[25, 30, 35], si);
        for kind in ["c1", "c2", "c3", "p1", "p2", "p3", "vec"] {
            let dim3 = kind.ends_with('3');
            let dim2 = kind.ends_with('2');
            let parts = if kind.starts_with('c') && (dim2 || dim3) { 8 } else if dim2 || dim3 { 2 } else { 1 };
            for part in 0..parts {
                shcases.push(SHCase {
                    spec: spec.clone(),
                    kind: kind.to_string(),
                    max: if dim3 && !deep { 12 } else { 20 },
                    long: if dim3 || dim2 { long.iter().copied().filter(|&l| deep || l <= 257).collect() } else { long.clone() },
                    part,
                    parts,
                });
            }
        }
    }
    v.push(
        E1::new(
            "big-shapes",
            &format!(
                "BFV/BGV/CKKS at N = 8 (3 primes) x Cipher1d / Plain1d / Vec<Ciphertext> / Vec<PublicKey> / Vec<Modulus> of every length 0..20 and {long:?}; Cipher2d / Plain2d: every box r x c (r, c = 0..20), stairs, alternating and irregular rows, long rows / many rows; Cipher3d / Plain3d: every box up to 6^3, slabs with one dimension 0..{}, stairs, long; elements cycle through 7 heterogeneous ciphertexts (levels, sizes 2/3/16, representations, seeded and expanded); compact format; selected-terms format with terms N-1,0 for every shape (no / all terms for shapes of <= 16 elements); the containers of a case back to back in streams of 64",
                if deep { 20 } else { 12 }
            ),
            order_cases(shcases, |c| match c.kind.as_str() {
                "p1" | "vec" => 1,
                "c1" => 2,
                "p2" | "p3" => 3,
                _ => 10,
            })
            .into_iter(),
            move |c: &SHCase| check_big_shapes(c, seed),
        )
        .deadline(std::time::Duration::from_secs(300))
        .batch(1),
    );

    // ---- big-rnsp: the Rnsp* wrappers with many primes and at production degree
    let mut rcases: Vec<RCase> = vec![];
    let mut rl: Vec<(usize, Vec<usize>)> = (1..=19).map(|l| (4usize, many_bits(l, 2))).collect();
    rl.extend([8usize, 9, 10, 16, 17, 18, 19].into_iter().map(|l| (8usize, many_bits(l, 1))));
    rl.extend([(256, vec![30, 40, 50]), (1024, vec![40, 50])]);
    if deep {
        rl.extend((1..=7).map(|l| (8usize, many_bits(l, 1))));
        rl.extend((11..=15).map(|l| (8usize, many_bits(l, 1))));
        rl.extend([(4, many_bits(33, 2)), (8, many_bits(33, 2)), (4, many_bits(64, 2)), (64, many_bits(9, 2)), (4096, vec![40, 50, 60])]);
    }
    for (i, (n, bits)) in rl.iter().enumerate() {
        let q = he::chain(*n, bits);
        for (si, scheme) in [Scheme::BFV, Scheme::BGV].into_iter().enumerate() {
            if !deep && bits.len() < 8 && *n == 4 && (i + si) % 2 == 1 {
                continue;
            }
            // (a single 8-bit prime admits no plain modulus above it)
            let ts = if q.len() == 1 && q[0] < 300 { vec![17u64, 97] } else if (i + si) % 2 == 0 { vec![17u64, 97, 257] } else { vec![1 << 6, 257] };
            rcases.push(RCase { scheme, n: *n, q: q.clone(), ts, big: true });
        }
    }
    // number of plain moduli (components of every Rnsp object) 1..17
    let many_ts: [u64; 17] = [17, 97, 257, 193, 113, 241, 337, 353, 401, 433, 449, 577, 593, 641, 673, 769, 929];
    let tlens: Vec<usize> = if deep { (1..=17).collect() } else { vec![4, 8, 9, 16, 17] };
    for (i, &m) in tlens.iter().enumerate() {
        let q = he::chain(4, &[30, 40, 50]);
        for (si, scheme) in [Scheme::BFV, Scheme::BGV].into_iter().enumerate() {
            if deep || (i + si) % 2 == 0 {
                rcases.push(RCase { scheme, n: 4, q: q.clone(), ts: many_ts[..m].to_vec(), big: true });
            }
        }
    }
    v.push(
        E1::new(
            "big-rnsp",
            &format!(
                "{} cases: BFV/BGV x (N = 4: chains of 1..19{} primes; N = 8: {} primes; N = 256, 1024{} with 2..3 primes) x 2..3 plain moduli, and N = 4 with 3 primes x {} plain moduli: Rnsp public / relin / Galois keys seeded and expanded, Rnsp ciphertexts real + crafted at EVERY level (compact, 'full', 14..16 structured term sets), vectors of every length 0..20",
                rcases.len(),
                if deep { ", 33, 64" } else { "" },
                if deep { "1..19, 33" } else { "8..10, 16..19" },
                if deep { ", 4096; N = 64 with 9 primes" } else { "" },
                if deep { "1..17" } else { "4, 8, 9, 16, 17" }
            ),
            order_cases(rcases, |c| (c.n * c.q.len() * c.q.len() * c.ts.len()) as u64).into_iter(),
            move |c: &RCase| check_rnsp_in("big-rnsp", c, seed),
        )
        .deadline(std::time::Duration::from_secs(300))
        .batch(1),
    );
    v
}

pub fn sections(cfg: &RunCfg) -> Vec<Box<dyn AnySection>> {
    let seed = cfg.seed;
    let deep = cfg.thorough();
    let mut v: Vec<Box<dyn AnySection>> = vec![];

    let scalars: Vec<SCase> = ["u8", "bool", "u64", "usize", "f64", "vec_u64", "vec_u8", "scheme", "parms_id", "modulus"].iter().map(|s| SCase { ty: s.to_string() }).collect();
    v.push(E1::new("scalars", "u8: all 256 values; u64/usize/f64: 2^k, 2^k-1, patterns; vectors of 0..137 words; every SchemeType; Modulus: 0 and every bit size 2..61", scalars.into_iter(), check_scalars));

    let sp = specs(deep);
    let nspecs = sp.len();
    let cases: Vec<Case> = sp.iter().flat_map(|s| KINDS.iter().map(move |k| Case { spec: s.clone(), kind: k.to_string(), deep })).collect();
    v.push(
        E1::new(
            "objects",
            &format!(
                "{nspecs} parameter sets (BFV/BGV/CKKS x N in {} x prime chains covering every residue byte width 1..8 at every chain position, 1..8 primes, plain moduli of 1..8 bytes) x {} object kinds; ciphertext sizes {}; all levels; both representations",
                if deep { "{2,4,8,16,32}" } else { "{2,4,8,16}" },
                KINDS.len(),
                if deep { "2..16" } else { "{2,3,4,16}" }
            ),
            cases.into_iter(),
            move |c: &Case| check_objects(c, seed),
        )
        .deadline(std::time::Duration::from_secs(120)),
    );

    // selected terms: all subsets; N <= 8 (thorough: 16 on a few chains)
    let mut tcases: Vec<TCase> = sp.iter().filter(|s| s.n <= 8 && (deep || !s.special_enc)).map(|s| TCase { spec: s.clone(), part: 0, parts: 1 }).collect();
    if deep {
        // N = 16: 2^16 subsets per variant; nine parameter sets, variants spread over 12 cases each. The engine hands out
        // batches of 16 consecutive cases to a worker, so the heavy cases are spread evenly among the light ones.
        let mut heavy = vec![];
        for s in sp.iter().filter(|s| s.n == 16 && s.q.len() == 3 && !s.special_enc).step_by(7).take(9) {
            for part in 0..12 {
                heavy.push(TCase { spec: s.clone(), part, parts: 12 });
            }
        }
        let gap = (tcases.len() / heavy.len().max(1)).max(1);
        let light = std::mem::take(&mut tcases);
        let mut h = heavy.into_iter();
        for (i, c) in light.into_iter().enumerate() {
            if i % gap == gap - 1 {
                tcases.extend(h.next());
            }
            tcases.push(c);
        }
        tcases.extend(h);
    }
    let nt = tcases.len();
    v.push(
        E1::new(
            "terms",
            &format!("{nt} cases (parameter set; for N=16 also a 1/12 share of the variants) x every ciphertext variant of size <= 4 x ALL 2^N term subsets (ascending and one shuffled order), N <= {}", if deep { 16 } else { 8 }),
            tcases.into_iter(),
            move |c: &TCase| check_terms(c, seed),
        )
        .deadline(std::time::Duration::from_secs(300)),
    );

    let mut rcases = vec![];
    for scheme in [Scheme::BFV, Scheme::BGV] {
        for n in [4usize, 8] {
            for bits in [vec![20usize, 25, 30], vec![8, 9, 16, 17], vec![57, 33, 60], vec![40, 40]] {
                let q = he::chain(n, &bits);
                for ts in [vec![17u64], vec![17, 97], vec![1 << 6, 257, 65537]] {
                    rcases.push(RCase { scheme, n, q: q.clone(), ts, big: false });
                }
            }
        }
    }
    v.push(E1::new("rnsp", "BFV/BGV x N in {4,8} x 4 chains x 1..3 plain moduli: Rnsp ciphertexts (compact, 'full', all term subsets), public/relin/Galois keys, vectors", rcases.into_iter(), move |c: &RCase| check_rnsp(c, seed)));
       v.extend(big_sections(cfg));
    v
}
