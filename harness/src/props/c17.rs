//! C17 — shared decryptor, key generator, evaluator linearizable under all interleavings (engine E3).
use crate::engine::*;
use crate::he::*;
use crate::sched::*;
use heathcliff::*;
use serde::{Deserialize, Serialize};
use serde_json::{json, Value};
use std::sync::Arc;
use std::time::{Duration, Instant};

pub fn describe(rep: &Report) {
    rep.set_rule(
        "E3 stateless model checking on the real code: 2-4 real threads share one Decryptor / KeyGenerator / context; a cooperative scheduler \
         takes a decision before EVERY RwLock acquisition of the three caches (reported by the lock wrapper of the hooked build itself, so any \
         lock phase added or moved by a change becomes a scheduling point automatically), at thread start and end; the enabled set is computed \
         from the tracked lock state. All schedules are enumerated depth-first by iterated preemption bound (0,1,2,… or unbounded), each run \
         to completion. Per schedule: every thread's result must be byte-identical to the sequential result of the same call (same scripted \
         entropy), no panic, no deadlock (no enabled thread), no hang, cache length observed at every decision point non-decreasing and a \
         multiple of the key polynomial size. states = decision points visited, transitions = scheduling decisions taken; \
         traces_validated_against_impl = complete executions compared with the sequential reference. non-trivial = executions with >= 1 preemption \
         or >= 2 threads touching the same lock.",
    );
    rep.assume("scheduling points at lock-operation granularity; code between two lock operations of one thread is treated as atomic (all shared mutable state of these objects is behind the RwLocks; Rust's type system excludes unsynchronised sharing elsewhere)");
    rep.assume("weak memory effects are not modelled (the crate has no atomics; RwLock provides the happens-before edges)");
    rep.assume("both facts above are re-established on the tree under examination by section sync_inventory: a Mutex / atomic / OnceLock / thread_local / static mut / UnsafeCell that the inventory does not list turns the run into 'not exhaustive' (never into a violation)");
    rep.assume("a free-running (uncontrolled) repetition of the same bodies is reported under observations as a sampling complement, not part of the verdict");
}

#[derive(Serialize, Deserialize, Clone, Debug, PartialEq, Eq, Hash)]
pub enum Body {
    /// decrypt a ciphertext of the given size (needs secret key power size-1)
    Decrypt(usize),
    /// relinearization keys for `count` powers (needs power count+1)
    Relin(usize),
    /// Galois keys for one element
    GaloisKey(usize),
    /// apply_galois on an NTT-form ciphertext with the given element
    Rotate(usize),
    /// two operations in sequence
    Seq(Box<Body>, Box<Body>),
}

#[derive(Serialize, Deserialize, Clone, Debug)]
pub struct Scenario {
    pub name: String,
    pub scheme: Scheme,
    pub threads: Vec<Body>,
    /// preemption bound (None = all schedules)
    pub bound: Option<usize>,
}

struct Fixture {
    spec: ParamSpec,
    sk: SecretKey,
    cts: Vec<Ciphertext>, // index = size
    rot_ct: Ciphertext,
    gk: GaloisKeys,
    poly_words: usize,
}

fn fixture(scheme: Scheme, seed: u64) -> Result<Fixture, String> {
    let n = 4;
    let spec = ParamSpec::new(scheme, n, chain(n, &[40, 40, 40]), 17);
    env_real(seed, h64(&("c17-fixture", &spec)));
    let kit = Kit::new(&spec)?;
    let mk_plain = || {
        if scheme == Scheme::CKKS {
            let enc = CKKSEncoder::new(kit.ctx.clone());
            enc.encode_c64_array_new(&[num_complex::Complex::new(1.5, -2.0), num_complex::Complex::new(0.25, 3.0)], None, (1u64 << 12) as f64)
        } else {
            kit.plain(&[1, 2, 3, 4])
        }
    };
    let a = kit.enc.encrypt_new(&mk_plain());
    let mut cts = vec![Ciphertext::new(), Ciphertext::new(), a.clone()];
    let mut cur = a.clone();
    for _ in 3..=5 {
        cur = kit.eval.multiply_new(&cur, &a);
        cts.push(cur.clone());
    }
    let rot_ct = if scheme == Scheme::BFV { kit.eval.transform_to_ntt_new(&a) } else { a.clone() };
    let gk = kit.keygen.create_galois_keys_from_elts(&[3, 5, 7], false);
    let poly_words = n * spec.q.len();
    Ok(Fixture { spec, sk: kit.sk.clone(), cts, rot_ct, gk, poly_words })
}

struct Shared {
    ctx: Arc<HeContext>,
    dec: Decryptor,
    keygen: KeyGenerator,
    eval: Evaluator,
}

fn fp_keys(k: &KSwitchKeys) -> u64 {
    let mut h = 0u64;
    for (i, v) in k.data().iter().enumerate() {
        for pk in v {
            h = h64(&(h, i, pk.data().as_slice()));
        }
    }
    h
}

fn run_body(b: &Body, sh: &Shared, fx: &Fixture, seed: u64, tag: u64) -> u64 {
    match b {
        Body::Decrypt(size) => pt_fingerprint(&sh.dec.decrypt_new(&fx.cts[*size])),
        Body::Relin(count) => {
            env_real(seed, tag);
            fp_keys(sh.keygen.verif_create_relin_keys(*count, false).as_kswitch_keys())
        }
        Body::GaloisKey(elt) => {
            env_real(seed, tag);
            fp_keys(sh.keygen.create_galois_keys_from_elts(&[*elt], false).as_kswitch_keys())
        }
        Body::Rotate(elt) => {
            let r = if fx.spec.scheme == Scheme::BFV {
                // BFV ciphertexts rotate in coefficient form through apply_p (no cache); the NTT path is reached through an NTT-form plaintext
                let ct = &fx.rot_ct;
                let mut p = Plaintext::new();
                p.resize(ct.poly(0).len());
                p.data_mut().copy_from_slice(ct.poly(0));
                p.set_parms_id(*ct.parms_id());
                return pt_fingerprint(&sh.eval.apply_galois_plain_new(&p, *elt));
            } else {
                sh.eval.apply_galois_new(&fx.rot_ct, *elt, &fx.gk)
            };
            ct_fingerprint(&r)
        }
        Body::Seq(a, b) => {
            let x = run_body(a, sh, fx, seed, tag);
            let y = run_body(b, sh, fx, seed, tag ^ 0x9e37);
            h64(&(x, y))
        }
    }
}

fn shared(fx: &Fixture) -> Shared {
    let ctx = fx.spec.context();
    Shared { dec: Decryptor::new(ctx.clone(), fx.sk.clone()), keygen: KeyGenerator::from_sk(ctx.clone(), fx.sk.clone()), eval: Evaluator::new(ctx.clone()), ctx }
}

pub struct E3Section {
    pub sc: Scenario,
    pub seed: u64,
    pub budget_share: f64,
}

struct Outcome {
    fail: Option<Fail>,
    class: u64,
}

fn judge(sc: &Scenario, fx: &Fixture, expected: &[u64], ex: &Execution<u64>) -> Outcome {
    let shape = format!("{}:{:?}", sc.name, sc.scheme);
    if let Some(d) = &ex.diverged {
        return Outcome { fail: Some(Fail { key: format!("{shape}:replay-diverged"), expected: "the recorded schedule is replayable".into(), observed: d.clone() }), class: 1 };
    }
    if ex.deadlock {
        return Outcome { fail: Some(Fail { key: format!("{shape}:deadlock"), expected: "some thread is always enabled until all have finished".into(), observed: format!("no enabled thread after schedule {}", ex.schedule()) }), class: 2 };
    }
    if ex.hang {
        return Outcome { fail: Some(Fail { key: format!("{shape}:hang"), expected: "every thread reaches a scheduling point or finishes within the horizon".into(), observed: format!("schedule {}", ex.schedule()) }), class: 3 };
    }
    for (t, r) in ex.results.iter().enumerate() {
        match r {
            Err(e) => {
                return Outcome {
                    fail: Some(Fail { key: format!("{shape}:thread-panic:{}", panic_class(e)), expected: "no panic".into(), observed: format!("thread {t} ({:?}): {e}; schedule {}", sc.threads[t], ex.schedule()) }),
                    class: 4,
                }
            }
            Ok(v) => {
                if *v != expected[t] {
                    return Outcome {
                        fail: Some(Fail {
                            key: format!("{shape}:result-differs-from-sequential"),
                            expected: format!("thread {t} ({:?}) returns the bytes of the sequential call", sc.threads[t]),
                            observed: format!("different bytes under schedule {}", ex.schedule()),
                        }),
                        class: 5,
                    };
                }
            }
        }
    }
    // cache observations: non-decreasing, multiples of the polynomial size
    let mut last = 0u64;
    for &o in &ex.observations {
        if o % fx.poly_words as u64 != 0 || o < last {
            return Outcome {
                fail: Some(Fail {
                    key: format!("{shape}:cache-not-monotone"),
                    expected: "cache length is a multiple of the key polynomial size and never shrinks".into(),
                    observed: format!("lengths {:?} under schedule {}", ex.observations, ex.schedule()),
                }),
                class: 6,
            };
        }
        last = o;
    }
    Outcome { fail: None, class: h64(&(ex.observations.last(), ex.preemptions().min(3))) }
}

impl E3Section {
    fn expected(&self, fx: &Fixture) -> Vec<u64> {
        // sequential reference: each body alone on fresh shared objects
        self.sc
            .threads
            .iter()
            .enumerate()
            .map(|(t, b)| {
                let sh = shared(fx);
                run_body(b, &sh, fx, self.seed, 7000 + t as u64)
            })
            .collect()
    }

    fn make<'a>(&'a self, fx: &Arc<Fixture>) -> (Vec<Box<dyn FnOnce() -> u64 + Send>>, Option<Box<dyn Fn() -> u64 + Send>>) {
        let sh = Arc::new(shared(fx));
        let mut bodies: Vec<Box<dyn FnOnce() -> u64 + Send>> = vec![];
        for (t, b) in self.sc.threads.iter().enumerate() {
            let (sh, fx, b, seed) = (sh.clone(), fx.clone(), b.clone(), self.seed);
            bodies.push(Box::new(move || run_body(&b, &sh, &fx, seed, 7000 + t as u64)));
        }
        let uses_dec = self.sc.threads.iter().any(|b| format!("{:?}", b).contains("Decrypt"));
        let sh2 = sh.clone();
        let obs: Box<dyn Fn() -> u64 + Send> = if uses_dec {
            Box::new(move || sh2.dec.verif_secret_key_array_len() as u64)
        } else {
            Box::new(move || sh2.keygen.verif_secret_key_array_len() as u64)
        };
        let _ = &sh.ctx;
        (bodies, Some(obs))
    }
}

impl AnySection for E3Section {
    fn name(&self) -> String {
        self.sc.name.clone()
    }

    fn replay(&self, case: &Value) -> Result<CaseOut, String> {
        let sc: Scenario = serde_json::from_value(case["scenario"].clone()).map_err(|e| e.to_string())?;
        let choices: Vec<usize> = serde_json::from_value(case["choices"].clone()).map_err(|e| e.to_string())?;
        let sec = E3Section { sc: sc.clone(), seed: self.seed, budget_share: 1.0 };
        let fx = Arc::new(fixture(sc.scheme, self.seed)?);
        let expected = sec.expected(&fx);
        // replay twice: identical observations are required before the verdict is trusted
        let mut verdicts = vec![];
        for _ in 0..2 {
            let (bodies, obs) = sec.make(&fx);
            let ex = run_schedule(bodies, choices.clone(), obs, Duration::from_secs(300));
            let o = judge(&sc, &fx, &expected, &ex);
            verdicts.push((o.fail.as_ref().map(|f| f.key.clone()), ex.schedule()));
            if verdicts.len() == 2 {
                if verdicts[0] != verdicts[1] {
                    return Err(format!("replay not deterministic: {:?}", verdicts));
                }
                return Ok(match o.fail {
                    Some(f) => CaseOut::fail(f.key, f.expected, f.observed),
                    None => CaseOut::pass(true, o.class, 1),
                });
            }
        }
        unreachable!()
    }

    fn run(self: Box<Self>, rep: &Arc<Report>) {
        let t0 = Instant::now();
        let fx = match fixture(self.sc.scheme, self.seed) {
            Ok(f) => Arc::new(f),
            Err(e) => {
                rep.machinery_error(format!("{}: fixture: {e}", self.sc.name));
                return;
            }
        };
        let expected = self.expected(&fx);
        let deadline = Instant::now() + rep.cfg.remaining().mul_f64(self.budget_share.clamp(0.01, 1.0));
        let mut decisions = 0u64;
        let mut executions = 0u64;
        let mut nontrivial = 0u64;
        let mut classes: std::collections::HashSet<u64> = Default::default();
        let mut final_lens: std::collections::BTreeSet<u64> = Default::default();
        let mut first_schedule = None;
        let mut last_schedule = String::new();
        let mut lock_ops_max = 0u64;
        // determinism self-test: the default schedule twice
        {
            let mut v = vec![];
            for _ in 0..2 {
                let (b, o) = self.make(&fx);
                let ex = run_schedule(b, vec![], o, Duration::from_secs(300));
                v.push((ex.schedule(), ex.results.iter().map(|r| r.clone().ok()).collect::<Vec<_>>(), ex.observations.clone()));
            }
            if v[0] != v[1] {
                rep.machinery_error(format!("{}: determinism self-test failed (default schedule run twice differs)", self.sc.name));
            }
        }
        let sc = self.sc.clone();
        let fxc = fx.clone();
        let repc = rep.clone();
        let name = self.sc.name.clone();
        let mut explored_violation = false;
        let mut check = |ex: &Execution<u64>| -> bool {
            executions += 1;
            decisions += ex.decisions.len() as u64;
            lock_ops_max = lock_ops_max.max(ex.lock_ops);
            if ex.preemptions() > 0 {
                nontrivial += 1;
                repc.mark_nontrivial(h64(&(name.as_str(), ex.schedule())));
            }
            if first_schedule.is_none() {
                first_schedule = Some(ex.schedule());
            }
            last_schedule = ex.schedule();
            if let Some(l) = ex.observations.last() {
                final_lens.insert(*l);
            }
            let o = judge(&sc, &fxc, &expected, ex);
            classes.insert(o.class);
            repc.mark_outcome(o.class);
            if let Some(f) = o.fail {
                explored_violation = true;
                repc.add_violation(&name, json!({"scenario": sc, "choices": ex.choices(), "schedule": ex.schedule()}), f);
            }
            true
        };
        let stats = explore(&|| self.make(&fx), self.sc.bound, 2_000_000, deadline, &mut check);
        // free-running complement (SAMPLING, labelled as such, never a verdict): the same bodies on real threads without
        // the scheduler, released together; a self-test that the explorer owns the nondeterminism of the scenario.
        let free_runs = if rep.cfg.thorough() { 200 } else { 25 };
        let mut free_bad = 0u64;
        for _ in 0..free_runs {
            let (bodies, _) = self.make(&fx);
            let barrier = Arc::new(std::sync::Barrier::new(bodies.len()));
            let hs: Vec<_> = bodies
                .into_iter()
                .map(|b| {
                    let bar = barrier.clone();
                    std::thread::spawn(move || {
                        bar.wait();
                        guard(b)
                    })
                })
                .collect();
            for (t, h) in hs.into_iter().enumerate() {
                match h.join() {
                    Ok(Ok(v)) if v == expected[t] => {}
                    other => {
                        // Not a verdict: an uncontrolled run cannot be replayed, and a verdict of this check is a schedule that
                        // fails every time. A mismatch here means the explorer does not own all the nondeterminism of the
                        // scenario (something is shared outside the RwLock operations it interleaves): the check cannot decide
                        // and says so (exit 2).
                        free_bad += 1;
                        // (when the exploration already reported a violation for this scenario the uncontrolled runs
                        // misbehave for that reason: nothing to add)
                        if free_bad == 1 && !explored_violation {
                            rep.machinery_error(format!(
                                "{}:{:?}: an UNCONTROLLED run of the scenario bodies gave thread {t} a result no explored schedule gives ({:?}): the scheduler does not own all nondeterminism of this scenario",
                                self.sc.name,
                                self.sc.scheme,
                                other.map(|r| r.map(|_| "different bytes"))
                            ));
                        }
                    }
                }
            }
        }
        rep.observe(format!("free-running complement (sampling, not exhaustive): {} uncontrolled runs per scenario, a thread result that differs from the sequential one is a machinery error (uncontrolled nondeterminism), never a verdict", free_runs));
        let _ = free_bad;
        rep.evaluations.fetch_add(executions, std::sync::atomic::Ordering::Relaxed);
        rep.steps.fetch_add(executions, std::sync::atomic::Ordering::Relaxed);
        rep.states.fetch_add(decisions, std::sync::atomic::Ordering::Relaxed);
        rep.transitions.fetch_add(decisions, std::sync::atomic::Ordering::Relaxed);
        rep.sample(json!({"section": self.sc.name, "threads": self.sc.threads, "first_schedule": first_schedule, "last_schedule": last_schedule}));
        let exhaustive = !stats.capped;
        rep.push_section(SectionStat {
            name: self.sc.name.clone(),
            engine: "E3".into(),
            cases: executions,
            nontrivial,
            skipped: 0,
            outcomes: classes.len() as u64,
            steps: executions,
            states: decisions,
            transitions: decisions,
            exhaustive,
            bound: format!(
                "{:?} threads {:?}: {} schedules, {} (max {} decisions, max {} preemptions per schedule, <= {} lock operations); final cache lengths {:?}",
                self.sc.scheme,
                self.sc.threads,
                executions,
                match (self.sc.bound, stats.capped) {
                    (_, true) => "CAPPED before the bound was completed".to_string(),
                    (None, false) => "ALL schedules (unbounded)".to_string(),
                    (Some(b), false) => format!("all schedules with <= {b} preemptions"),
                },
                stats.max_decisions,
                stats.max_preemptions,
                lock_ops_max,
                final_lens
            ),
            wall_s: t0.elapsed().as_secs_f64(),
            extra: json!({"preemption_bound": self.sc.bound, "distinct_outcome_classes": classes.len()}),
        });
    }
}

fn multisets<T: Clone>(items: &[T], k: usize) -> Vec<Vec<T>> {
    fn rec<T: Clone>(items: &[T], k: usize, start: usize, cur: &mut Vec<T>, out: &mut Vec<Vec<T>>) {
        if cur.len() == k {
            out.push(cur.clone());
            return;
        }
        for i in start..items.len() {
            cur.push(items[i].clone());
            rec(items, k, i, cur, out);
            cur.pop();
        }
    }
    let mut out = vec![];
    rec(items, k, 0, &mut vec![], &mut out);
    out
}

pub fn scenarios(cfg: &RunCfg) -> Vec<Scenario> {
    let th = cfg.thorough();
    let mut v = vec![];
    let name = |p: &str, t: &[Body]| format!("{p}_{}", t.iter().map(|b| format!("{:?}", b).replace(['(', ')', ' ', ','], "")).collect::<Vec<_>>().join("+"));
    // S1: decryptor, ciphertext sizes 2..4 (powers 1..3)
    let dec: Vec<Body> = [2usize, 3, 4].iter().map(|s| Body::Decrypt(*s)).collect();
    for scheme in [Scheme::BFV, Scheme::BGV] {
        for ms in multisets(&dec, 2) {
            // quick tier: BGV only for the pairs that make both threads grow the cache
            if !th && scheme == Scheme::BGV && ms[0] == Body::Decrypt(2) && ms[1] != Body::Decrypt(3) {
                continue;
            }
            v.push(Scenario { name: name(&format!("s1_{:?}", scheme).to_lowercase(), &ms), scheme, threads: ms, bound: None });
        }
    }
    for ms in multisets(&dec, 3) {
        // quick tier: the multisets in which at least two threads need to grow the cache
        if !th && ms.iter().filter(|b| **b != Body::Decrypt(2)).count() < 2 {
            continue;
        }
        v.push(Scenario { name: name("s1_bfv3", &ms), scheme: Scheme::BFV, threads: ms, bound: if th { None } else { Some(2) } });
    }
    // S2: key generator: relin keys needing power 2 / 3, Galois keys
    let kg = vec![Body::Relin(1), Body::Relin(2), Body::GaloisKey(3)];
    for ms in multisets(&kg, 2) {
        // Galois key generation touches the table cache 2-3 times per RNS component: bound it in the quick tier
        let heavy = ms.iter().filter(|b| matches!(b, Body::GaloisKey(_))).count() == 2;
        v.push(Scenario { name: name("s2_bfv", &ms), scheme: Scheme::BFV, threads: ms, bound: if heavy && !th { Some(2) } else { None } });
    }
    for ms in multisets(&kg, 3) {
        if !th && (ms[0] == ms[2] || ms[0] == Body::Relin(2)) {
            continue;
        }
        v.push(Scenario { name: name("s2_bfv3", &ms), scheme: Scheme::BFV, threads: ms, bound: Some(if th { 3 } else { 1 }) });
    }
    // S3: rotations through the shared Galois table cache (NTT path)
    let rot = vec![Body::Rotate(3), Body::Rotate(5)];
    for scheme in [Scheme::BGV, Scheme::CKKS, Scheme::BFV] {
        for ms in multisets(&rot, 2) {
            if !th && scheme != Scheme::BGV && ms[0] == ms[1] {
                continue;
            }
            v.push(Scenario { name: name(&format!("s3_{:?}", scheme).to_lowercase(), &ms), scheme, threads: ms, bound: Some(if th { 4 } else { 2 }) });
        }
    }
    // S4: mixed objects sharing one context, and two operations per thread
    v.push(Scenario { name: "s4_mixed_dec_rot".into(), scheme: Scheme::BGV, threads: vec![Body::Decrypt(3), Body::Rotate(3)], bound: Some(if th { 4 } else { 2 }) });
    v.push(Scenario { name: "s4_mixed_keygen_rot".into(), scheme: Scheme::BGV, threads: vec![Body::GaloisKey(3), Body::Rotate(3)], bound: Some(if th { 3 } else { 2 }) });
    v.push(Scenario {
        name: "s5_two_ops_each".into(),
        scheme: Scheme::BFV,
        threads: vec![Body::Seq(Box::new(Body::Decrypt(2)), Box::new(Body::Decrypt(4))), Body::Seq(Box::new(Body::Decrypt(3)), Box::new(Body::Decrypt(2)))],
        bound: if th { None } else { Some(3) },
    });
    if th {
        let four = vec![Body::Decrypt(2), Body::Decrypt(3), Body::Decrypt(4), Body::Decrypt(5)];
        v.push(Scenario { name: "s6_four_threads".into(), scheme: Scheme::BFV, threads: four, bound: Some(2) });
    }
    v
}

pub fn sections(cfg: &RunCfg) -> Vec<Box<dyn AnySection>> {
    let sc = scenarios(cfg);
    let n = sc.len() as f64;
    let mut v: Vec<Box<dyn AnySection>> = vec![E1::new(
        "sync_inventory",
        "every line of the subject's src/**/*.rs (verif_hooks.rs excluded) scanned for shared-state primitives; compared with the inventory of the tree the scheduler was built for",
        vec!["src".to_string()].into_iter(),
        check_inventory,
    )];
    v.extend(sc.into_iter().enumerate().map(|(i, s)| Box::new(E3Section { sc: s, seed: cfg.seed, budget_share: (3.0 / (n - i as f64)).min(1.0) }) as Box<dyn AnySection>));
    v
}

// ---------------------------------------------------------------------------------------------
// The scheduler owns exactly the synchronisation it can see: the three RwLock caches, routed through the lock wrapper of the
// hooked build. Its two assumptions ("all shared mutable state is behind those locks", "the crate has no atomics") are facts
// about the source tree, so they are re-established on the tree under examination: a primitive that appears where the
// inventory has none (a std Mutex, an atomic flag, a OnceLock, a thread_local, a static mut ...) makes interleavings around it
// invisible to the exploration. That is not a violation — the new primitive may be used correctly — so the run stays silent,
// but it is reported as NOT exhaustive, with the site, instead of claiming coverage it does not have (seeded change C16-I).
// ---------------------------------------------------------------------------------------------

const SYNC_TOKENS: [&str; 17] = [
    "Mutex", "std::sync::RwLock", "Atomic", "OnceLock", "OnceCell", "LazyLock", "LazyCell", "lazy_static", "thread_local", "static mut", "UnsafeCell", "Condvar",
    "mpsc", "Barrier", "unsafe impl", "RefCell", "parking_lot",
];
/// (file, token, lines) of the tree the hooks were written for
const SYNC_BASELINE: [(&str, &str, usize); 3] = [("util/galois.rs", "std::sync::RwLock", 1), ("util/rlwe.rs", "RefCell", 1), ("multiparty/participant.rs", "RefCell", 3)];

fn scan_sync(dir: &std::path::Path, root: &std::path::Path, out: &mut Vec<(String, String, usize, String)>) -> Result<(), String> {
    let mut entries: Vec<_> = std::fs::read_dir(dir).map_err(|e| format!("{}: {e}", dir.display()))?.filter_map(|e| e.ok()).map(|e| e.path()).collect();
    entries.sort();
    for p in entries {
        if p.is_dir() {
            scan_sync(&p, root, out)?;
        } else if p.extension().map(|e| e == "rs").unwrap_or(false) {
            let rel = p.strip_prefix(root).unwrap_or(&p).to_string_lossy().to_string();
            if rel == "verif_hooks.rs" {
                continue;
            }
            let text = std::fs::read_to_string(&p).map_err(|e| format!("{}: {e}", p.display()))?;
            for (ln, line) in text.lines().enumerate() {
                let t = line.trim_start();
                if t.starts_with("//") {
                    continue;
                }
                for tok in SYNC_TOKENS {
                    if t.contains(tok) {
                        out.push((rel.clone(), tok.to_string(), ln + 1, t.chars().take(100).collect()));
                    }
                }
            }
        }
    }
    Ok(())
}

fn check_inventory(sub: &String) -> CaseOut {
    let subject = std::env::var("VERIF_SUBJECT").unwrap_or_else(|_| "/repo".to_string());
    let root = std::path::Path::new(&subject).join(sub);
    let mut found = vec![];
    if let Err(e) = scan_sync(&root, &root, &mut found) {
        return CaseOut::undecided(&format!("sync_inventory: cannot read the subject's sources ({e})"));
    }
    let mut extra: Vec<String> = vec![];
    let mut counts: std::collections::BTreeMap<(String, String), Vec<(usize, String)>> = Default::default();
    for (f, t, ln, text) in found {
        counts.entry((f, t)).or_default().push((ln, text));
    }
    for ((f, t), sites) in &counts {
        let allowed = SYNC_BASELINE.iter().find(|(bf, bt, _)| bf == f && bt == t).map(|b| b.2).unwrap_or(0);
        if sites.len() > allowed {
            let (ln, text) = &sites[sites.len() - 1];
            extra.push(format!("src/{f}: {} line(s) with `{t}` (inventory: {allowed}), e.g. line {ln}: {text}", sites.len()));
        }
    }
    if extra.is_empty() {
        CaseOut::pass(true, h64(&counts.len()), counts.values().map(|v| v.len() as u64).sum::<u64>().max(1))
    } else {
        CaseOut::undecided(&format!(
            "sync_inventory: the subject has shared-state primitives the controlled scheduler does not intercept; interleavings around them are NOT explored \
             (the exploration below covers the RwLock caches only): {}",
            extra.join(" | ")
        ))
    }
}
