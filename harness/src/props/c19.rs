//! C19 — LWE extraction, field trace and packing place coefficients as documented.
//!
//! E1 sections (all deciding steps are exhaustive loops on the real code, oracle = the
//! coefficient view of the decrypted result):
//!  * `shift`    `negacyclic_shift`, `_p`, `_ps` directly: every N = 1..64 x every shift 0..2N-1 x
//!               every unit vector with coefficient {1, q-1, generic} + dense, vs refmodel::poly::pshift
//!  * `extract`  constant coefficient of assemble(extract(ct, i)) = m_i for EVERY i, both input
//!               representations (coefficient / NTT form), every unit monomial +-X^p and a dense message
//!  * `trace`    field_trace_inplace with EVERY l = 0..log2 N: coefficient index multiple of N/2^l is
//!               multiplied by N/2^l, the rest is zero (also after divide_by_poly_modulus_degree_inplace)
//!  * `pack`     pack_lwe_ciphertexts for EVERY k = 1..N: value j at index j*N/2^ceil(log2 k), scale 1,
//!               zeros elsewhere; index j from the j-th ciphertext and every fixed index
//!
//! A-priori noise bound (absolute value of the phase error, B = 21 the sampler's clipping bound):
//!   fresh      v0  = B(2N+1) + N + 2                       (+ t in BFV: rounding of Delta*m)
//!   one key switch Eks = k N B 2^max(0, maxbits(q_i) - bits(P) + 1) * 4 + 2(N+1)
//!   trace l    V   = (N/2^l) c v0 + (N/2^l) Eks            (c = optional multiplier)
//!   pack k     V   = v0 + N 2^l Eks,  l = ceil(log2 k)      (every injected key-switching error is
//!                                                          amplified by at most N on its way out)
//! A case is judged only when V leaves >= 3 bits of head-room below q/(2t) (BFV), q/2 (BGV: t V + t,
//! CKKS: V + scale * max|expected|); CKKS values are compared with tolerance V/scale.

use crate::engine::*;
use crate::he::*;
use crate::refmodel::poly::pshift;
use heathcliff::app::lwe::LWECiphertext;
use heathcliff::verif_hooks::polysmallmod as psm;
use heathcliff::*;
use serde::{Deserialize, Serialize};
use std::time::Duration;

pub fn describe(rep: &Report) {
    rep.set_rule(
        "shift: case = (N, moduli, variant), loops every shift 0..2N-1 x every unit vector (3 coefficient values) + dense. \
         extract: case = (parameter set, level, input representation, message), loops EVERY index i. \
         trace: case = (parameter set, level, l, pre-scaling, message), one trace, all N coefficients compared. \
         pack: case = (parameter set, level, k, index rule, message family); the unit family loops over every position j0 of \
         the single non-zero LWE. messages: every unit monomial +-X^p and one dense generic polynomial. \
         non-trivial = the expected result has a non-zero coefficient (or, for units, the zeroing of a non-zero input is checked).",
    );
    rep.assume("decryption + BatchEncoder/CKKSEncoder::decode_polynomial_new are the observation (coefficient view); they are the subject of other properties");
    rep.assume("a-priori noise bound of the module header decides when a result is judged (never exceeded with 3 primes of 54/54/55 bits; with 30/30/30 bits only the CKKS second level is skipped: scale 2^40 does not fit a 30-bit modulus)");
    rep.assume("t is an odd prime (257 and 17), so N/2^l is invertible modulo t");
    rep.assume("CKKS results are compared with tolerance V/scale (scale 2^40), V the a-priori bound");
}

// ------------------------------------------------------------------------------------------------
// direct: negacyclic_shift
// ------------------------------------------------------------------------------------------------

#[derive(Serialize, Deserialize, Clone, Debug)]
pub struct SCase {
    pub n: usize,
    pub q: Vec<u64>,
    /// "single" | "p" | "ps"
    pub variant: String,
}

fn shift_vectors(n: usize, q: u64, seed: u64) -> Vec<Vec<u64>> {
    let mut v = vec![vec![0u64; n]];
    for i in 0..n {
        for c in [1u64 % q, q - 1, h64(&(seed, "shift", i, q)) % q] {
            let mut e = vec![0u64; n];
            e[i] = c;
            v.push(e);
        }
    }
    v.push((0..n).map(|i| h64(&(seed, "dense", i, q)) % q).collect());
    v
}

fn run_shift(c: &SCase, seed: u64) -> CaseOut {
    let n = c.n;
    let mods: Vec<Modulus> = match guard(|| c.q.iter().map(|&q| Modulus::new(q)).collect()) {
        Ok(m) => m,
        Err(p) => return CaseOut::fail(format!("shift:{}:modulus_new:panic:{}", c.variant, panic_class(&p)), "Modulus::new accepts the value", p),
    };
    let pcount = if c.variant == "ps" { 2 } else { 1 };
    let per_mod: Vec<Vec<Vec<u64>>> = c.q.iter().map(|&q| shift_vectors(n, q, seed)).collect();
    let nvec = per_mod[0].len();
    let mut steps = 0u64;
    for s in 0..2 * n {
        for vi in 0..nvec {
            // input laid out as pcount polys x moduli x n (the second poly uses the reversed vector list)
            let mut input: Vec<u64> = vec![];
            let mut expect: Vec<u64> = vec![];
            for p in 0..pcount {
                for (mi, &q) in c.q.iter().enumerate() {
                    let v = &per_mod[mi][if p == 0 { vi } else { nvec - 1 - vi }];
                    input.extend_from_slice(v);
                    expect.extend(pshift(v, s, q));
                }
            }
            let mut out = vec![0xDEAD_BEEFu64; input.len()];
            let r = guard(|| match c.variant.as_str() {
                "single" => psm::negacyclic_shift(&input, s, &mods[0], &mut out),
                "p" => psm::negacyclic_shift_p(&input, s, n, &mods, &mut out),
                _ => psm::negacyclic_shift_ps(&input, s, pcount, n, &mods, &mut out),
            });
            steps += 1;
            match r {
                Err(p) => {
                    return CaseOut::fail(
                        format!("shift:{}:panic:{}", c.variant, panic_class(&p)),
                        format!("no panic for N={n} shift={s} input={input:?}"),
                        p,
                    )
                }
                Ok(()) => {
                    if out != expect {
                        return CaseOut::fail(
                            format!("shift:{}:wrong", c.variant),
                            format!("N={n} q={:?} shift={s} input={input:?} -> {expect:?}", c.q),
                            format!("{out:?}"),
                        );
                    }
                }
            }
        }
    }
    CaseOut::pass(n > 1, h64(&(c.variant.as_str(), n, c.q.len())), steps)
}

// ------------------------------------------------------------------------------------------------
// scheme-level helpers
// ------------------------------------------------------------------------------------------------

#[derive(Serialize, Deserialize, Clone, Debug, PartialEq, Eq, Hash)]
pub enum Msg {
    /// +-X^pos  (neg: coefficient t-1 resp. -1.0)
    Unit { pos: usize, neg: bool },
    /// dense generic polynomial (distinct pseudo-random residues from the seed)
    Dense,
}

#[derive(Serialize, Deserialize, Clone, Copy, Debug, PartialEq, Eq, Hash)]
pub enum Repr {
    /// the scheme's own representation (BFV coefficient form, BGV/CKKS NTT form)
    Natural,
    /// the other one (BFV transformed to NTT form, BGV/CKKS transformed from it)
    Other,
}

const CKKS_SCALE: f64 = (1u64 << 40) as f64;
const B_ERR: f64 = 21.0;

struct Sys {
    kit: Kit,
    level: usize,
    bat: Option<BatchEncoder>,
    ck: Option<CKKSEncoder>,
    keys: Option<GaloisKeys>,
    qbits: f64,
    eks: f64,
    v0: f64,
}

enum Dec {
    Int(Vec<u64>),
    Real(Vec<f64>),
}

impl Sys {
    /// keys are a function of (seed, spec, noise) only; the caller re-seeds for its own encryptions
    fn new(spec: &ParamSpec, level: usize, noise: Noise, seed: u64, with_keys: bool) -> Result<Sys, String> {
        // a ternary key is all-zero with probability 3^-N (1/81 at N = 4): such a key would make every
        // placement check vacuous (phase = c0), so the derivation is repeated with the next tag
        let mut attempt = 0u64;
        let kit = loop {
            env(seed, h64(&("c19-kit", spec, noise, attempt)), noise.mode(), noise.mode());
            let kit = guard(|| Kit::new(spec))??;
            if kit.sk.data().iter().any(|&x| x != 0) || attempt >= 16 {
                break kit;
            }
            attempt += 1;
        };
        let levels = kit.levels();
        if level >= levels.len() {
            return Err("level does not exist".into());
        }
        let keys = if with_keys { Some(guard(|| kit.keygen.create_automorphism_keys(false))?) } else { None };
        let (bat, ck) = if spec.scheme == Scheme::CKKS {
            (None, Some(guard(|| CKKSEncoder::new(kit.ctx.clone()))?))
        } else {
            (Some(guard(|| BatchEncoder::new(kit.ctx.clone()))?), None)
        };
        let mods = kit.moduli_at(&levels[level]);
        let qbits: f64 = mods.iter().map(|&q| (q as f64).log2()).sum();
        let key_mods = kit.moduli_at(kit.ctx.key_parms_id());
        let spbits = (*key_mods.last().unwrap() as f64).log2().floor() + 1.0;
        let maxbits = mods.iter().map(|&q| (q as f64).log2().floor() + 1.0).fold(0.0, f64::max);
        let n = spec.n as f64;
        let eks = mods.len() as f64 * n * B_ERR * (2f64).powf((maxbits - spbits + 1.0).max(0.0)) * 4.0 + 2.0 * (n + 1.0);
        let mut v0 = B_ERR * (2.0 * n + 1.0) + n + 2.0;
        if spec.scheme == Scheme::BFV {
            v0 += spec.t as f64;
        }
        Ok(Sys { kit, level, bat, ck, keys, qbits, eks, v0 })
    }
    fn n(&self) -> usize {
        self.kit.spec.n
    }
    fn t(&self) -> u64 {
        self.kit.spec.t
    }
    fn scheme(&self) -> Scheme {
        self.kit.spec.scheme
    }
    fn natural_ntt(&self) -> bool {
        self.scheme() != Scheme::BFV
    }
    fn keys(&self) -> &GaloisKeys {
        self.keys.as_ref().unwrap()
    }

    /// Is a result with phase error at most `v` and expected values at most `maxabs` judged? CKKS tolerance.
    fn judged(&self, v: f64, maxabs: f64) -> Option<f64> {
        let t = self.t() as f64;
        let need = match self.scheme() {
            Scheme::BFV => v.log2() + t.log2() + 1.0,
            Scheme::BGV => (t * v + t).log2() + 1.0,
            Scheme::CKKS => (v + CKKS_SCALE * (maxabs + 1.0)).log2() + 1.0,
        };
        if need + 3.0 >= self.qbits {
            return None;
        }
        let tol = if self.scheme() == Scheme::CKKS { v / CKKS_SCALE + 1e-9 } else { 0.0 };
        if tol >= 0.2 {
            return None;
        }
        Some(tol)
    }

    fn dense(&self, seed: u64, j: usize) -> Vec<i64> {
        let n = self.n();
        (0..n)
            .map(|i| {
                let g = h64(&(seed, "c19-dense", j, i));
                if self.scheme() == Scheme::CKKS {
                    (g % 33) as i64 - 16
                } else {
                    let t = self.t();
                    let r = g % t;
                    // never 0, so that a lost coefficient is visible
                    let r = if r == 0 { 1 } else { r };
                    if r > t / 2 {
                        r as i64 - t as i64
                    } else {
                        r as i64
                    }
                }
            })
            .collect()
    }
    fn message(&self, m: &Msg, seed: u64, j: usize) -> Vec<i64> {
        match m {
            Msg::Unit { pos, neg } => {
                let mut v = vec![0i64; self.n()];
                v[*pos] = if *neg { -1 } else { 1 };
                v
            }
            Msg::Dense => self.dense(seed, j),
        }
    }

    fn encrypt(&self, m: &[i64]) -> Result<Ciphertext, String> {
        guard(|| {
            let pt = match self.scheme() {
                Scheme::CKKS => {
                    let v: Vec<f64> = m.iter().map(|&x| x as f64).collect();
                    self.ck.as_ref().unwrap().encode_f64_polynomial_new(&v, None, CKKS_SCALE)
                }
                _ => {
                    let t = self.t() as i64;
                    let v: Vec<u64> = m.iter().map(|&x| x.rem_euclid(t) as u64).collect();
                    self.bat.as_ref().unwrap().encode_polynomial_new(&v)
                }
            };
            let mut ct = self.kit.enc.encrypt_new(&pt);
            for _ in 0..self.level {
                self.kit.eval.mod_switch_to_next_inplace(&mut ct);
            }
            ct
        })
    }

    /// coefficient view of the decryption (ciphertext brought to the form the decryptor asks for)
    fn decode(&self, ct: &Ciphertext) -> Result<Dec, String> {
        guard(|| {
            let mut c = ct.clone();
            if self.natural_ntt() && !c.is_ntt_form() {
                self.kit.eval.transform_to_ntt_inplace(&mut c);
            } else if !self.natural_ntt() && c.is_ntt_form() {
                self.kit.eval.transform_from_ntt_inplace(&mut c);
            }
            let pt = self.kit.dec.decrypt_new(&c);
            match self.scheme() {
                Scheme::CKKS => Dec::Real(self.ck.as_ref().unwrap().decode_polynomial_new(&pt)),
                _ => {
                    let mut v = self.bat.as_ref().unwrap().decode_polynomial_new(&pt);
                    v.truncate(pt.coeff_count().max(1));
                    v.resize(self.n(), 0);
                    Dec::Int(v)
                }
            }
        })
    }

    /// first index in `idx` where the decoded value differs from the expected signed integer
    fn mismatch(&self, d: &Dec, exp: &[i64], idx: impl Iterator<Item = usize>, tol: f64) -> Option<(usize, String, String)> {
        let t = self.t() as i64;
        for i in idx {
            match d {
                Dec::Int(v) => {
                    let e = exp[i].rem_euclid(t) as u64;
                    if v.len() != exp.len() || v[i] != e {
                        return Some((i, format!("{e}"), format!("{:?}", v.get(i))));
                    }
                }
                Dec::Real(v) => {
                    if v.len() != exp.len() || !((v[i] - exp[i] as f64).abs() <= tol) {
                        return Some((i, format!("{} (+-{tol:.3e})", exp[i]), format!("{:?}", v.get(i))));
                    }
                }
            }
        }
        None
    }
    fn show(&self, d: &Dec) -> String {
        match d {
            Dec::Int(v) => format!("{v:?}"),
            Dec::Real(v) => format!("{:?}", v.iter().map(|x| (x * 1e4).round() / 1e4).collect::<Vec<_>>()),
        }
    }
    fn show_exp(&self, exp: &[i64]) -> String {
        if self.scheme() == Scheme::CKKS {
            format!("{exp:?}")
        } else {
            let t = self.t() as i64;
            format!("{:?}", exp.iter().map(|x| x.rem_euclid(t)).collect::<Vec<_>>())
        }
    }
}

fn log2_exact(n: usize) -> usize {
    n.trailing_zeros() as usize
}

// ------------------------------------------------------------------------------------------------
// extract / assemble
// ------------------------------------------------------------------------------------------------

#[derive(Serialize, Deserialize, Clone, Debug)]
pub struct XCase {
    pub spec: ParamSpec,
    pub level: usize,
    pub noise: Noise,
    pub repr: Repr,
    pub msg: Msg,
}

fn lwe_shape_ok(l: &LWECiphertext, ct: &Ciphertext) -> bool {
    l.poly_modulus_degree() == ct.poly_modulus_degree()
        && l.coeff_modulus_size() == ct.coeff_modulus_size()
        && l.c0().len() == ct.coeff_modulus_size()
        && l.c1().len() == ct.coeff_modulus_size() * ct.poly_modulus_degree()
        && l.parms_id() == ct.parms_id()
        && l.scale() == ct.scale()
        && l.correction_factor() == ct.correction_factor()
}

fn run_extract(c: &XCase, seed: u64) -> CaseOut {
    let sys = match Sys::new(&c.spec, c.level, c.noise, seed, false) {
        Ok(s) => s,
        Err(e) => return CaseOut::skip(&format!("parameter set not usable: {}", panic_class(&e))),
    };
    let sc = format!("{:?}", c.spec.scheme);
    let key = |what: &str| format!("extract:{sc}:{:?}:{what}", c.repr);
    env(seed, h64(&("c19-extract", serde_json::to_string(c).unwrap())), c.noise.mode(), c.noise.mode());
    let m = sys.message(&c.msg, seed, 0);
    let Some(tol) = sys.judged(sys.v0, 16.0) else { return CaseOut::skip("a-priori noise bound exceeds the head-room") };
    let ct = match sys.encrypt(&m) {
        Ok(ct) => ct,
        Err(p) => return CaseOut::fail(key(&format!("encrypt:panic:{}", panic_class(&p))), "encryption of a valid message", p),
    };
    // the representation handed to extract_lwe
    let input = match guard(|| match (c.repr, ct.is_ntt_form()) {
        (Repr::Natural, _) => ct.clone(),
        (Repr::Other, true) => sys.kit.eval.transform_from_ntt_new(&ct),
        (Repr::Other, false) => sys.kit.eval.transform_to_ntt_new(&ct),
    }) {
        Ok(x) => x,
        Err(p) => return CaseOut::fail(key(&format!("transform:panic:{}", panic_class(&p))), "NTT transform of a fresh ciphertext", p),
    };
    if input.is_ntt_form() != (sys.natural_ntt() == (c.repr == Repr::Natural)) {
        return CaseOut::fail(key("repr"), "fresh ciphertext in the scheme's natural representation", format!("is_ntt_form={}", ct.is_ntt_form()));
    }
    let n = sys.n();
    let mut steps = 0u64;
    for i in 0..n {
        let lwe = match guard(|| sys.kit.eval.extract_lwe(&input, i)) {
            Ok(l) => l,
            Err(p) => return CaseOut::fail(key(&format!("extract:panic:{}", panic_class(&p))), format!("extract_lwe(term={i}) of a valid 2-component ciphertext"), p),
        };
        if !lwe_shape_ok(&lwe, &input) {
            return CaseOut::fail(key("lwe-meta"), format!("LWE metadata of the source ciphertext ({})", ct_meta(&input)), format!("{lwe:?}").chars().take(300).collect::<String>());
        }
        let (a, b) = match guard(|| (sys.kit.eval.assemble_lwe(&lwe), lwe.assemble_lwe())) {
            Ok(x) => x,
            Err(p) => return CaseOut::fail(key(&format!("assemble:panic:{}", panic_class(&p))), format!("assemble_lwe after extract_lwe(term={i})"), p),
        };
        if ct_fingerprint(&a) != ct_fingerprint(&b) {
            return CaseOut::fail(key("assemble-forms-differ"), "Evaluator::assemble_lwe == LWECiphertext::assemble_lwe", format!("{} vs {}", ct_meta(&a), ct_meta(&b)));
        }
        if a.is_ntt_form() || a.size() != 2 || a.parms_id() != input.parms_id() || !a.is_valid_for(&sys.kit.ctx) {
            return CaseOut::fail(key("assemble-meta"), "valid 2-component ciphertext in coefficient form at the source level", ct_meta(&a));
        }
        let d = match sys.decode(&a) {
            Ok(d) => d,
            Err(p) => return CaseOut::fail(key(&format!("decrypt:panic:{}", panic_class(&p))), format!("assembled ciphertext (term={i}) decrypts"), p),
        };
        steps += 1;
        // only the constant coefficient is specified
        let mut exp = vec![0i64; n];
        exp[0] = m[i];
        if let Some((_, e, o)) = sys.mismatch(&d, &exp, 0..1, tol) {
            return CaseOut::fail(
                key("wrong"),
                format!("message {} (level {}), term {i}: constant coefficient {e}", sys.show_exp(&m), c.level),
                format!("{o}; decoded {}", sys.show(&d)),
            );
        }
    }
    CaseOut::pass(true, h64(&(sc.as_str(), c.repr, matches!(c.msg, Msg::Dense), c.level)), steps)
}

// ------------------------------------------------------------------------------------------------
// field trace
// ------------------------------------------------------------------------------------------------

#[derive(Serialize, Deserialize, Clone, Copy, Debug, PartialEq, Eq, Hash)]
pub enum Pre {
    /// trace only
    None,
    /// divide_by_poly_modulus_degree_inplace(ct, None) first (only with l = 0: N * 1/N = 1)
    DivN,
    /// divide_by_poly_modulus_degree_inplace(ct, Some(c * 2^l)) first: overall factor c
    DivMul(u64),
}

#[derive(Serialize, Deserialize, Clone, Debug)]
pub struct TCase {
    pub spec: ParamSpec,
    pub level: usize,
    pub noise: Noise,
    pub l: usize,
    pub pre: Pre,
    pub msg: Msg,
}

fn run_trace(c: &TCase, seed: u64) -> CaseOut {
    let sys = match Sys::new(&c.spec, c.level, c.noise, seed, true) {
        Ok(s) => s,
        Err(e) => return CaseOut::skip(&format!("parameter set not usable: {}", panic_class(&e))),
    };
    let sc = format!("{:?}", c.spec.scheme);
    let pre = match c.pre {
        Pre::None => "plain",
        Pre::DivN => "divN",
        Pre::DivMul(_) => "divNmul",
    };
    let key = |what: &str| format!("trace:{sc}:{pre}:{what}");
    let n = sys.n();
    let logn = log2_exact(n);
    if c.l > logn || (c.pre == Pre::DivN && c.l != 0) {
        return CaseOut::skip("outside the enumerated domain");
    }
    env(seed, h64(&("c19-trace", serde_json::to_string(c).unwrap())), c.noise.mode(), c.noise.mode());
    let m = sys.message(&c.msg, seed, 0);
    let stride = n >> c.l;
    // overall integer factor on the kept coefficients
    let factor: i64 = match c.pre {
        Pre::None => stride as i64,
        Pre::DivN => 1,
        Pre::DivMul(x) => x as i64,
    };
    let exp: Vec<i64> = (0..n).map(|i| if i % stride == 0 { factor * m[i] } else { 0 }).collect();
    let mult = match c.pre {
        Pre::DivMul(x) => x as f64,
        _ => 1.0,
    };
    let v = stride as f64 * mult * sys.v0 + stride as f64 * sys.eks;
    let maxabs = exp.iter().map(|x| x.abs()).max().unwrap() as f64;
    let Some(tol) = sys.judged(v, maxabs) else { return CaseOut::skip("a-priori noise bound exceeds the head-room") };
    let mut ct = match sys.encrypt(&m) {
        Ok(ct) => ct,
        Err(p) => return CaseOut::fail(key(&format!("encrypt:panic:{}", panic_class(&p))), "encryption of a valid message", p),
    };
    let before = (*ct.parms_id(), ct.is_ntt_form(), ct.scale().to_bits(), ct.correction_factor(), ct.size());
    if let Err(p) = guard(|| match c.pre {
        Pre::None => {}
        Pre::DivN => sys.kit.eval.divide_by_poly_modulus_degree_inplace(&mut ct, None),
        Pre::DivMul(x) => sys.kit.eval.divide_by_poly_modulus_degree_inplace(&mut ct, Some(x << c.l)),
    }) {
        return CaseOut::fail(key(&format!("divide:panic:{}", panic_class(&p))), "divide_by_poly_modulus_degree_inplace on a fresh ciphertext", p);
    }
    if let Err(p) = guard(|| sys.kit.eval.field_trace_inplace(&mut ct, sys.keys(), c.l)) {
        return CaseOut::fail(key(&format!("panic:{}", panic_class(&p))), format!("field_trace_inplace(l={}) with create_automorphism_keys on a fresh ciphertext", c.l), p);
    }
    let after = (*ct.parms_id(), ct.is_ntt_form(), ct.scale().to_bits(), ct.correction_factor(), ct.size());
    if before != after {
        return CaseOut::fail(key("meta"), format!("level, representation, scale, correction factor, size unchanged: {before:?}"), format!("{after:?}"));
    }
    let d = match sys.decode(&ct) {
        Ok(d) => d,
        Err(p) => return CaseOut::fail(key(&format!("decrypt:panic:{}", panic_class(&p))), "traced ciphertext decrypts", p),
    };
    if let Some((i, e, o)) = sys.mismatch(&d, &exp, 0..n, tol) {
        let class = if i % stride == 0 { "wrong-kept" } else { "wrong-zeroed" };
        return CaseOut::fail(
            key(class),
            format!("N={n} l={} level={} message {} -> {} (index {i}: {e})", c.l, c.level, sys.show_exp(&m), sys.show_exp(&exp)),
            format!("index {i}: {o}; decoded {}", sys.show(&d)),
        );
    }
    let nonzero = exp.iter().any(|&x| x != 0);
    CaseOut::pass(true, h64(&(sc.as_str(), pre, c.l, nonzero, c.level)), 1)
}

// ------------------------------------------------------------------------------------------------
// pack
// ------------------------------------------------------------------------------------------------

#[derive(Serialize, Deserialize, Clone, Copy, Debug, PartialEq, Eq, Hash)]
pub enum Idx {
    /// index j from the j-th ciphertext
    Diag,
    /// the same index from all
    Fixed(usize),
}

#[derive(Serialize, Deserialize, Clone, Copy, Debug, PartialEq, Eq, Hash)]
pub enum PMsg {
    /// ciphertext j encrypts its own dense generic polynomial
    Dense,
    /// for every j0 < k: ciphertext j0 encrypts +-X^idx(j0), all others encrypt 0  (k packings)
    UnitEach { neg: bool },
}

#[derive(Serialize, Deserialize, Clone, Debug)]
pub struct PCase {
    pub spec: ParamSpec,
    pub level: usize,
    pub noise: Noise,
    pub k: usize,
    pub idx: Idx,
    pub msg: PMsg,
}

fn run_pack(c: &PCase, seed: u64) -> CaseOut {
    let sys = match Sys::new(&c.spec, c.level, c.noise, seed, true) {
        Ok(s) => s,
        Err(e) => return CaseOut::skip(&format!("parameter set not usable: {}", panic_class(&e))),
    };
    let sc = format!("{:?}", c.spec.scheme);
    let n = sys.n();
    let k = c.k;
    if k == 0 || k > n || matches!(c.idx, Idx::Fixed(i) if i >= n) {
        return CaseOut::skip("outside the enumerated domain");
    }
    let kclass = if k == 1 {
        "k=1"
    } else if k.is_power_of_two() {
        "k=pow2"
    } else {
        "k=other"
    };
    let idxs = match c.idx {
        Idx::Diag => "diag",
        Idx::Fixed(_) => "fixed",
    };
    let key = |what: &str| format!("pack:{sc}:{idxs}:{kclass}:{what}");
    let mut l = 0usize;
    while (1usize << l) < k {
        l += 1;
    }
    let stride = n >> l;
    let index_of = |j: usize| match c.idx {
        Idx::Diag => j,
        Idx::Fixed(i) => i,
    };
    env(seed, h64(&("c19-pack", serde_json::to_string(c).unwrap())), c.noise.mode(), c.noise.mode());
    let v = sys.v0 + n as f64 * (1u64 << l) as f64 * sys.eks;
    let Some(tol) = sys.judged(v, 16.0) else { return CaseOut::skip("a-priori noise bound exceeds the head-room") };

    let extract = |m: &[i64], i: usize| -> Result<LWECiphertext, CaseOut> {
        let ct = sys.encrypt(m).map_err(|p| CaseOut::fail(key(&format!("encrypt:panic:{}", panic_class(&p))), "encryption of a valid message", p))?;
        guard(|| sys.kit.eval.extract_lwe(&ct, i))
            .map_err(|p| CaseOut::fail(key(&format!("extract:panic:{}", panic_class(&p))), format!("extract_lwe(term={i}) of a fresh ciphertext"), p))
    };
    // one packing, all N coefficients compared
    let pack_and_check = |lwes: &[LWECiphertext], exp: &[i64], what: &dyn Fn() -> String| -> Option<CaseOut> {
        let ct = match guard(|| sys.kit.eval.pack_lwe_ciphertexts(lwes, sys.keys())) {
            Ok(ct) => ct,
            Err(p) => return Some(CaseOut::fail(key(&format!("panic:{}", panic_class(&p))), format!("pack_lwe_ciphertexts of {k} <= N = {n} LWEs of one level: {}", what()), p)),
        };
        let lw = &lwes[0];
        if ct.is_ntt_form() != sys.natural_ntt() || ct.size() != 2 || ct.parms_id() != lw.parms_id() || ct.scale() != lw.scale() || ct.correction_factor() != lw.correction_factor() || !ct.is_valid_for(&sys.kit.ctx) {
            return Some(CaseOut::fail(key("meta"), "valid 2-component ciphertext in the scheme's representation, level/scale/correction factor of the inputs", ct_meta(&ct)));
        }
        let d = match sys.decode(&ct) {
            Ok(d) => d,
            Err(p) => return Some(CaseOut::fail(key(&format!("decrypt:panic:{}", panic_class(&p))), "packed ciphertext decrypts", p)),
        };
        if let Some((i, e, o)) = sys.mismatch(&d, exp, 0..n, tol) {
            let class = if exp[i] != 0 {
                "wrong-value"
            } else if i % stride == 0 && i / stride < k {
                "wrong-slot"
            } else {
                "wrong-zero"
            };
            return Some(CaseOut::fail(
                key(class),
                format!("N={n} k={k} stride={stride} level={} {}: {} (index {i}: {e})", c.level, what(), sys.show_exp(exp)),
                format!("index {i}: {o}; decoded {}", sys.show(&d)),
            ));
        }
        None
    };

    let mut steps = 0u64;
    match c.msg {
        PMsg::Dense => {
            let mut lwes = vec![];
            let mut exp = vec![0i64; n];
            let mut vals = vec![];
            for j in 0..k {
                let m = sys.message(&Msg::Dense, seed, j);
                exp[j * stride] = m[index_of(j)];
                vals.push(m[index_of(j)]);
                match extract(&m, index_of(j)) {
                    Ok(l) => lwes.push(l),
                    Err(f) => return f,
                }
            }
            steps += 1;
            if let Some(f) = pack_and_check(&lwes, &exp, &|| format!("dense messages, extracted values {vals:?} (indices {idxs})")) {
                return f;
            }
        }
        PMsg::UnitEach { neg } => {
            let zero = vec![0i64; n];
            let mut zeros = vec![];
            let mut units = vec![];
            for j in 0..k {
                match extract(&zero, index_of(j)) {
                    Ok(l) => zeros.push(l),
                    Err(f) => return f,
                }
                let m = sys.message(&Msg::Unit { pos: index_of(j), neg }, seed, j);
                match extract(&m, index_of(j)) {
                    Ok(l) => units.push(l),
                    Err(f) => return f,
                }
            }
            for j0 in 0..k {
                let lwes: Vec<LWECiphertext> = (0..k).map(|j| if j == j0 { units[j].clone() } else { zeros[j].clone() }).collect();
                let mut exp = vec![0i64; n];
                exp[j0 * stride] = if neg { -1 } else { 1 };
                steps += 1;
                if let Some(f) = pack_and_check(&lwes, &exp, &|| format!("LWE {j0} holds {}1 (from X^{}), all others 0", if neg { "-" } else { "+" }, index_of(j0))) {
                    return f;
                }
            }
        }
    }
    CaseOut::pass(true, h64(&(sc.as_str(), idxs, kclass, l, matches!(c.msg, PMsg::Dense), c.level)), steps)
}

// ------------------------------------------------------------------------------------------------
// enumeration
// ------------------------------------------------------------------------------------------------

fn specs(cfg: &RunCfg) -> Vec<(ParamSpec, Vec<usize>, Vec<Noise>)> {
    let ns: &[usize] = if cfg.thorough() { &[4, 8, 16, 32, 64] } else { &[4, 8, 16] };
    let mut v = vec![];
    for &n in ns {
        // main family: 3 primes of 54/54/55 bits (the last one is the special prime), t in {257, 17}
        let q = chain(n, &[54, 54, 55]);
        for s in Scheme::all() {
            let ts: &[u64] = if s == Scheme::CKKS { &[0] } else { &[257, 17] };
            for &t in ts {
                // worst-case sampler scripts (all +max / alternating) on the small degrees
                let noises = if n <= 16 && t != 17 { vec![Noise::Real, Noise::AllMax, Noise::Alt] } else { vec![Noise::Real] };
                v.push((ParamSpec::new(s, n, q.clone(), t), vec![0, 1], noises));
            }
        }
        // the shape of the repository's unit tests: three 30-bit primes, t = 17 (CKKS: the second level
        // cannot hold scale 2^40 and is skipped by the noise/size bound)
        if n == 16 || (cfg.thorough() && n == 32) {
            let q = chain(n, &[30, 30, 30]);
            for s in Scheme::all() {
                v.push((ParamSpec::new(s, n, q.clone(), 17), vec![0, 1], vec![Noise::Real]));
            }
        }
    }
    v
}

fn unit_msgs(n: usize) -> Vec<Msg> {
    let mut v = vec![];
    for neg in [false, true] {
        for pos in 0..n {
            v.push(Msg::Unit { pos, neg });
        }
    }
    v.push(Msg::Dense);
    v
}

pub fn sections(cfg: &RunCfg) -> Vec<Box<dyn AnySection>> {
    let seed = cfg.seed;
    let mut out: Vec<Box<dyn AnySection>> = vec![];

    // (i) negacyclic_shift directly
    let mut sc: Vec<SCase> = vec![];
    let big = ntt_primes(64, 60, 2);
    for logn in 0..=6 {
        let n = 1usize << logn;
        for q in [2u64, 3, 97, big[0], (1u64 << 61) - 1] {
            sc.push(SCase { n, q: vec![q], variant: "single".into() });
        }
        for qs in [vec![97u64, 2], vec![big[0], big[1]], vec![3, big[1], 97]] {
            sc.push(SCase { n, q: qs.clone(), variant: "p".into() });
            sc.push(SCase { n, q: qs, variant: "ps".into() });
        }
    }
    out.push(E1::new(
        "shift",
        "negacyclic_shift/_p/_ps: N = 1,2,..,64 x every shift 0..2N-1 x every unit vector (coefficients 1, q-1, generic) + zero + dense; moduli 2, 3, 97, 60-bit prime, 2^61-1",
        sc.into_iter(),
        move |c: &SCase| run_shift(c, seed),
    ));

    let sp = specs(cfg);

    // (ii) extract / assemble
    let mut xc: Vec<XCase> = vec![];
    for (spec, levels, noises) in &sp {
        for &level in levels {
            for &noise in noises {
                for repr in [Repr::Natural, Repr::Other] {
                    for msg in unit_msgs(spec.n) {
                        xc.push(XCase { spec: spec.clone(), level, noise, repr, msg });
                    }
                }
            }
        }
    }
    out.push(
        E1::new(
            "extract",
            "N in {4,8,16} (thorough +32,64) x {BFV,BGV,CKKS} x q in {54/54/55-bit primes with t in {257,17}; 30/30/30-bit with t=17 at N=16 (thorough +32)} x sampler script {real; all-max, alternating at N<=16,t=257} x level {first, after one mod switch} x both input representations x every +-X^p and a dense message x EVERY extraction index i",
            xc.into_iter(),
            move |c: &XCase| run_extract(c, seed),
        )
        .deadline(Duration::from_secs(30)),
    );

    // (iii) field trace
    let mut tc: Vec<TCase> = vec![];
    for (spec, levels, noises) in &sp {
        let logn = log2_exact(spec.n);
        for &level in levels {
            for &noise in noises {
                for l in 0..=logn {
                    for msg in unit_msgs(spec.n) {
                        tc.push(TCase { spec: spec.clone(), level, noise, l, pre: Pre::None, msg });
                    }
                    let mut pres = vec![Pre::DivMul(1), Pre::DivMul(3)];
                    if l == 0 {
                        pres.push(Pre::DivN);
                    }
                    for pre in pres {
                        tc.push(TCase { spec: spec.clone(), level, noise, l, pre, msg: Msg::Dense });
                        tc.push(TCase { spec: spec.clone(), level, noise, l, pre, msg: Msg::Unit { pos: spec.n - (spec.n >> l), neg: true } });
                    }
                }
            }
        }
    }
    out.push(
        E1::new(
            "trace",
            "same parameter sets x EVERY l = 0..log2 N x every +-X^p and a dense message; plus divide_by_poly_modulus_degree_inplace(None | c*2^l, c in {1,3}) before the trace",
            tc.into_iter(),
            move |c: &TCase| run_trace(c, seed),
        )
        .deadline(Duration::from_secs(30)),
    );

    // (iv) pack
    let mut pc: Vec<PCase> = vec![];
    for (spec, levels, noises) in &sp {
        let n = spec.n;
        for &level in levels {
            for &noise in noises {
                for k in 1..=n {
                    pc.push(PCase { spec: spec.clone(), level, noise, k, idx: Idx::Diag, msg: PMsg::Dense });
                    for i0 in 0..n {
                        pc.push(PCase { spec: spec.clone(), level, noise, k, idx: Idx::Fixed(i0), msg: PMsg::Dense });
                    }
                    for neg in [false, true] {
                        pc.push(PCase { spec: spec.clone(), level, noise, k, idx: Idx::Diag, msg: PMsg::UnitEach { neg } });
                        pc.push(PCase { spec: spec.clone(), level, noise, k, idx: Idx::Fixed(n - 1), msg: PMsg::UnitEach { neg } });
                    }
                }
            }
        }
    }
    // simplest first: small N, small k
    pc.sort_by_key(|c| (c.spec.n, c.k));
    out.push(
        E1::new(
            "pack",
            "same parameter sets x EVERY k = 1..N x {index j from ciphertext j, EVERY fixed index} with dense messages; unit family (one LWE +-1, the others 0, every position) for index j and fixed index N-1",
            pc.into_iter(),
            move |c: &PCase| run_pack(c, seed),
        )
        .deadline(Duration::from_secs(60)),
    );
    out
}
