//! C19 — LWE extraction, field trace and packing place coefficients as documented.
//!
//! E1 sections (all deciding steps are exhaustive loops on the real code, oracle = the
//! coefficient view of the decrypted result):
//!  * `shift`    `negacyclic_shift`, `_p`, `_ps` directly: every N = 1..64 x every shift 0..2N-1 x
//!               every unit vector with coefficient {1, q-1, generic} + dense, vs refmodel::poly::pshift
//!  * `extract`  constant coefficient of assemble(extract(ct, i)) = m_i for EVERY i, both input
//!               representations (coefficient / NTT form), every unit monomial +-X^p and a dense message
//!  * `trace`    field_trace_inplace with EVERY l = 0..log2 N: coefficient index multiple of N/2^l is
//!               multiplied by N/2^l, the rest is zero (also after divide_by_poly_modulus_degree_inplace)
//!  * `pack`     pack_lwe_ciphertexts for EVERY k = 1..N: value j at index j*N/2^ceil(log2 k), scale 1,
//!               zeros elsewhere; index j from the j-th ciphertext and every fixed index
//!
//! Size-extension sections (same checks and oracles, keys prefixed `big:` / `chain:`): every dimension the code
//! loops over, blocks or masks is driven across 64 / 128 / 256 / .. / 4096 by STRUCTURED exhaustive families:
//!  * `big:shift`     negacyclic_shift/_p/_ps at N = 128 .. 8192: every shift x 9 structured vectors (dense, sparse,
//!                    runs of 64 / 63, ..) and every shift x every unit vector; poly counts 1..4 x component counts 1..18
//!  * `big:extract`   N = 128 .. 4096, EVERY index, both representations, dense message (+ two monomials)
//!  * `big:trace`     N = 128 .. 4096, EVERY l, dense message + monomials at the boundary positions
//!  * `big:pack`      EVERY k = 1..N at N = 128, 256; the boundary counts (63,64,65,..,N/2+-1,N-1,N) up to N = 4096
//!  * `chain:extract|trace|pack`  2..19 coefficient primes (1..18 at the first level) at N = 8 (16): every index / l / k
//! (parameter sets: three 60-bit primes, t = 257, CKKS scale 2^50 for N >= 128; 50-bit primes + a 51-bit special prime
//! for the chains.) Quick tier: N = 128, 256 (shift: up to 1024); thorough: up to 4096 (shift: 8192).
//!
//! A-priori noise bound (absolute value of the phase error, B = 21 the sampler's clipping bound):
//!   fresh      v0  = B(2N+1) + N + 2                       (+ t in BFV: rounding of Delta*m)
//!   one key switch Eks = k N B 2^max(0, maxbits(q_i) - bits(P) + 1) * 4 + 2(N+1)
//!   trace l    V   = (N/2^l) c v0 + (N/2^l) Eks            (c = optional multiplier)
//!   pack k     V   = v0 + N 2^l Eks,  l = ceil(log2 k)      (every injected key-switching error is
//!                                                          amplified by at most N on its way out)
//! A case is judged only when V leaves >= 3 bits of head-room below q/(2t) (BFV), q/2 (BGV: t V + t,
//! CKKS: V + scale * max|expected|); CKKS values are compared with tolerance V/scale.

use crate::engine::*;
use crate::he::*;
use crate::refmodel::poly::pshift;
use heathcliff::app::lwe::LWECiphertext;
use heathcliff::verif_hooks::polysmallmod as psm;
use heathcliff::*;
use serde::{Deserialize, Serialize};
use std::time::Duration;

pub fn describe(rep: &Report) {
    rep.set_rule(
        "shift: case = (N, moduli, variant), loops every shift 0..2N-1 x every unit vector (3 coefficient values) + dense. \
         extract: case = (parameter set, level, input representation, message), loops EVERY index i. \
         trace: case = (parameter set, level, l, pre-scaling, message), one trace, all N coefficients compared. \
         pack: case = (parameter set, level, k, index rule, message family); the unit family loops over every position j0 of \
         the single non-zero LWE. messages: every unit monomial +-X^p and one dense generic polynomial. \
         non-trivial = the expected result has a non-zero coefficient (or, for units, the zeroing of a non-zero input is checked). \
         big:* / chain:* sections: the same case types and checks on structured families at N = 128..4096 (shift ..8192) and with 2..19 \
         primes at N = 8, 16: big:shift case = (N, moduli, polys, variant, family), family vec = every shift x 9 structured vectors, \
         family unit = every shift x every unit vector of a range of flat positions; big:extract loops EVERY index on a dense message; \
         big:trace every l; big:pack every k = 1..N at N <= 256 and the counts around the powers of two beyond.",
    );
    rep.assume("decryption + BatchEncoder/CKKSEncoder::decode_polynomial_new are the observation (coefficient view); they are the subject of other properties");
    rep.assume("a-priori noise bound of the module header decides when a result is judged (never exceeded with 3 primes of 54/54/55 bits; with 30/30/30 bits only the CKKS second level is skipped: scale 2^40 does not fit a 30-bit modulus)");
    rep.assume("t is an odd prime (257 and 17), so N/2^l is invertible modulo t");
    rep.assume("CKKS results are compared with tolerance V/scale (scale 2^40; 2^50 in the sections at N >= 128), V the a-priori bound");
    rep.assume("big:* sections: three 60-bit primes (every level holds t*V resp. scale*17 with >= 3 bits to spare; the skipped cases are CKKS traces at the single-prime level whose expected values (N/2^l * 16 * 2^50) do not fit 60 bits); chain:* sections: 50-bit primes and a 51-bit special prime, CKKS scale 2^40 (same kind of skip at the last level)");
}

// ------------------------------------------------------------------------------------------------
// direct: negacyclic_shift
// ------------------------------------------------------------------------------------------------

#[derive(Serialize, Deserialize, Clone, Debug)]
pub struct SCase {
    pub n: usize,
    pub q: Vec<u64>,
    /// "single" | "p" | "ps"
    pub variant: String,
}

fn shift_vectors(n: usize, q: u64, seed: u64) -> Vec<Vec<u64>> {
    let mut v = vec![vec![0u64; n]];
    for i in 0..n {
        for c in [1u64 % q, q - 1, h64(&(seed, "shift", i, q)) % q] {
            let mut e = vec![0u64; n];
            e[i] = c;
            v.push(e);
        }
    }
    v.push((0..n).map(|i| h64(&(seed, "dense", i, q)) % q).collect());
    v
}

fn run_shift(c: &SCase, seed: u64) -> CaseOut {
    let n = c.n;
    let mods: Vec<Modulus> = match guard(|| c.q.iter().map(|&q| Modulus::new(q)).collect()) {
        Ok(m) => m,
        Err(p) => return CaseOut::fail(format!("shift:{}:modulus_new:panic:{}", c.variant, panic_class(&p)), "Modulus::new accepts the value", p),
    };
    let pcount = if c.variant == "ps" { 2 } else { 1 };
    let per_mod: Vec<Vec<Vec<u64>>> = c.q.iter().map(|&q| shift_vectors(n, q, seed)).collect();
    let nvec = per_mod[0].len();
    let mut steps = 0u64;
    for s in 0..2 * n {
        for vi in 0..nvec {
            // input laid out as pcount polys x moduli x n (the second poly uses the reversed vector list)
            let mut input: Vec<u64> = vec![];
            let mut expect: Vec<u64> = vec![];
            for p in 0..pcount {
                for (mi, &q) in c.q.iter().enumerate() {
                    let v = &per_mod[mi][if p == 0 { vi } else { nvec - 1 - vi }];
                    input.extend_from_slice(v);
                    expect.extend(pshift(v, s, q));
                }
            }
            let mut out = vec![0xDEAD_BEEFu64; input.len()];
            let r = guard(|| match c.variant.as_str() {
                "single" => psm::negacyclic_shift(&input, s, &mods[0], &mut out),
                "p" => psm::negacyclic_shift_p(&input, s, n, &mods, &mut out),
                _ => psm::negacyclic_shift_ps(&input, s, pcount, n, &mods, &mut out),
            });
            steps += 1;
            match r {
                Err(p) => {
                    return CaseOut::fail(
                        format!("shift:{}:panic:{}", c.variant, panic_class(&p)),
                        format!("no panic for N={n} shift={s} input={input:?}"),
                        p,
                    )
                }
                Ok(()) => {
                    if out != expect {
                        return CaseOut::fail(
                            format!("shift:{}:wrong", c.variant),
                            format!("N={n} q={:?} shift={s} input={input:?} -> {expect:?}", c.q),
                            format!("{out:?}"),
                        );
                    }
                }
            }
        }
    }
    CaseOut::pass(n > 1, h64(&(c.variant.as_str(), n, c.q.len())), steps)
}

// ------------------------------------------------------------------------------------------------
// direct: negacyclic_shift at production sizes (structured families)
// ------------------------------------------------------------------------------------------------

#[derive(Serialize, Deserialize, Clone, Debug)]
pub struct BSCase {
    pub n: usize,
    /// one modulus per component
    pub q: Vec<u64>,
    /// number of polynomials (1 for "single" and "p")
    pub pcount: usize,
    /// "single" | "p" | "ps"
    pub variant: String,
    /// "vec": every shift x the structured vectors of `big_vectors`;
    /// "unit": every shift x every unit vector of the flattened pcount x components x N array with its
    ///         non-zero entry at a flat position in lo..hi, coefficient values: the first `ncoef` of (generic, q-1, 1)
    pub family: String,
    pub lo: usize,
    pub hi: usize,
    pub ncoef: usize,
}

const BIG_KINDS: [&str; 9] = ["zero", "dense", "sparse", "ones", "minus-ones", "low-half", "high-half", "blocks64", "blocks63"];

/// one component of the structured vector `kind` (salt separates the components)
fn big_vector(kind: &str, n: usize, q: u64, seed: u64, salt: usize) -> Vec<u64> {
    let gen = |i: usize| {
        let g = h64(&(seed, "big-shift", salt, i, q)) % q;
        if g == 0 {
            1 % q
        } else {
            g
        }
    };
    (0..n)
        .map(|i| match kind {
            "zero" => 0,
            "dense" => gen(i),
            "sparse" => {
                if h64(&(seed, "big-sparse", salt, i)) % 3 == 0 {
                    0
                } else {
                    gen(i)
                }
            }
            "ones" => 1 % q,
            "minus-ones" => q - 1,
            "low-half" => {
                if i < n / 2 {
                    gen(i)
                } else {
                    0
                }
            }
            "high-half" => {
                if i >= n / 2 {
                    gen(i)
                } else {
                    0
                }
            }
            // runs of 64 (63) non-zero coefficients separated by runs of zeros of the same length
            "blocks64" => {
                if (i / 64) % 2 == 0 {
                    gen(i)
                } else {
                    0
                }
            }
            _ => {
                if (i / 63) % 2 == 1 {
                    gen(i)
                } else {
                    0
                }
            }
        })
        .collect()
}

/// X^s * a(X) mod (X^N + 1, q) by definition for reduced coefficients and 0 <= s < 2N (refmodel::poly::pshift without
/// the divisions, which dominate at N = 4096 x 8192 shifts; agreement of the two is part of every `vec` case)
fn shift_ref(a: &[u64], s: usize, q: u64, r: &mut [u64]) {
    let n = a.len();
    for (i, &x) in a.iter().enumerate() {
        let mut e = i + s;
        if e >= 2 * n {
            e -= 2 * n;
        }
        if e < n {
            r[e] = x;
        } else {
            r[e - n] = if x == 0 { 0 } else { q - x };
        }
    }
}

fn run_bshift(c: &BSCase, seed: u64) -> CaseOut {
    let n = c.n;
    let k = c.q.len();
    let well_formed = n >= 1
        && k >= 1
        && c.pcount >= 1
        && match c.variant.as_str() {
            "single" => k == 1 && c.pcount == 1,
            "p" => c.pcount == 1,
            "ps" => true,
            _ => false,
        }
        && c.q.iter().all(|&q| q >= 2)
        && c.lo <= c.hi
        && c.hi <= c.pcount * k * n
        && c.ncoef <= 3;
    if !well_formed {
        return CaseOut::skip("outside the enumerated domain");
    }
    let key = |what: &str| format!("big:shift:{}:{}:{what}", c.variant, c.family);
    let mods: Vec<Modulus> = match guard(|| c.q.iter().map(|&q| Modulus::new(q)).collect()) {
        Ok(m) => m,
        Err(p) => return CaseOut::fail(key(&format!("modulus_new:panic:{}", panic_class(&p))), "Modulus::new accepts the value", p),
    };
    let total = c.pcount * k * n;
    let shape = format!("N={n} polys={} moduli={:?}", c.pcount, c.q);
    let call = |input: &[u64], s: usize, out: &mut [u64]| {
        guard(|| match c.variant.as_str() {
            "single" => psm::negacyclic_shift(input, s, &mods[0], out),
            "p" => psm::negacyclic_shift_p(input, s, n, &mods, out),
            _ => psm::negacyclic_shift_ps(input, s, c.pcount, n, &mods, out),
        })
    };
    const SENTINEL: u64 = 0xDEAD_BEEF_DEAD_BEEF;
    let mut out = vec![SENTINEL; total];
    let mut expect = vec![0u64; n];
    let mut steps = 0u64;
    match c.family.as_str() {
        "vec" => {
            for kind in BIG_KINDS {
                let comps: Vec<Vec<u64>> = (0..c.pcount * k).map(|pc| big_vector(kind, n, c.q[pc % k], seed, pc)).collect();
                let input: Vec<u64> = comps.iter().flatten().copied().collect();
                // the lean reference against the refmodel one on the boundary shifts
                for s in [0, 1, 63, 64, 65, n - 1, n, n + 1, n + 64, 2 * n - 1] {
                    shift_ref(&comps[0], s, c.q[0], &mut expect);
                    if expect != pshift(&comps[0], s, c.q[0]) {
                        return CaseOut::undecided("the two reference shifts disagree");
                    }
                }
                for s in 0..2 * n {
                    out.fill(SENTINEL);
                    let r = call(&input, s, &mut out);
                    steps += 1;
                    if let Err(p) = r {
                        return CaseOut::fail(key(&format!("panic:{}", panic_class(&p))), format!("no panic: {shape} shift={s} vector '{kind}'"), p);
                    }
                    for (pc, comp) in comps.iter().enumerate() {
                        shift_ref(comp, s, c.q[pc % k], &mut expect);
                        let got = &out[pc * n..(pc + 1) * n];
                        if got != &expect[..] {
                            let i = (0..n).find(|&i| got[i] != expect[i]).unwrap();
                            let src = (i + 2 * n - s) % n;
                            return CaseOut::fail(
                                key("wrong"),
                                format!("{shape} shift={s} vector '{kind}', component {pc}: coefficient {i} = {} (from input coefficient {src} = {})", expect[i], comp[src]),
                                format!("{}", got[i]),
                            );
                        }
                    }
                }
            }
        }
        "unit" => {
            let mut input = vec![0u64; total];
            for g in c.lo..c.hi {
                let q = c.q[(g / n) % k];
                let (base, i) = (g - g % n, g % n);
                let generic = {
                    let x = h64(&(seed, "big-unit", g, q)) % q;
                    if x == 0 {
                        1 % q
                    } else {
                        x
                    }
                };
                for &v in [generic, q - 1, 1 % q].iter().take(c.ncoef) {
                    input[g] = v;
                    for s in 0..2 * n {
                        out.fill(SENTINEL);
                        let r = call(&input, s, &mut out);
                        steps += 1;
                        if let Err(p) = r {
                            return CaseOut::fail(key(&format!("panic:{}", panic_class(&p))), format!("no panic: {shape} shift={s} unit vector {v} at flat position {g}"), p);
                        }
                        // X^s * v X^i = +-v X^((i+s) mod N), negative iff (i+s) mod 2N >= N
                        let e = (i + s) % (2 * n);
                        let (pos, val) = if e < n { (e, v) } else { (e - n, (q - v) % q) };
                        let got = out[base + pos];
                        out[base + pos] = 0;
                        if got != val || out.iter().any(|&x| x != 0) {
                            out[base + pos] = got;
                            let bad: Vec<(usize, u64)> = out.iter().copied().enumerate().filter(|&(j, x)| x != if j == base + pos { val } else { 0 }).take(4).collect();
                            return CaseOut::fail(
                                key("wrong"),
                                format!("{shape} shift={s} unit vector {v} at flat position {g} (modulus {q}): {val} at flat position {}, zeros elsewhere", base + pos),
                                format!("first differing (flat position, value): {bad:?}"),
                            );
                        }
                    }
                }
                input[g] = 0;
            }
        }
        _ => return CaseOut::skip("outside the enumerated domain"),
    }
    CaseOut::pass(true, h64(&(c.variant.as_str(), c.family.as_str(), n, k, c.pcount)), steps)
}

// ------------------------------------------------------------------------------------------------
// scheme-level helpers
// ------------------------------------------------------------------------------------------------

#[derive(Serialize, Deserialize, Clone, Debug, PartialEq, Eq, Hash)]
pub enum Msg {
    /// +-X^pos  (neg: coefficient t-1 resp. -1.0)
    Unit { pos: usize, neg: bool },
    /// dense generic polynomial (distinct pseudo-random residues from the seed)
    Dense,
}

#[derive(Serialize, Deserialize, Clone, Copy, Debug, PartialEq, Eq, Hash)]
pub enum Repr {
    /// the scheme's own representation (BFV coefficient form, BGV/CKKS NTT form)
    Natural,
    /// the other one (BFV transformed to NTT form, BGV/CKKS transformed from it)
    Other,
}

const CKKS_SCALE: f64 = (1u64 << 40) as f64;
/// From N = 128 on the a-priori bound of a full pack (N 2^l Eks, up to 2^45 at N = 4096) would make the tolerance
/// V / 2^40 useless, so the large-degree sections encode at 2^50 (their primes have 60 bits, so that a single-prime
/// level still holds scale * 17). A function of the parameter set alone: cases stay self-contained.
fn ckks_scale(spec: &ParamSpec) -> f64 {
    if spec.n >= 128 {
        (1u64 << 50) as f64
    } else {
        CKKS_SCALE
    }
}
const B_ERR: f64 = 21.0;

struct Sys {
    kit: Kit,
    level: usize,
    bat: Option<BatchEncoder>,
    ck: Option<CKKSEncoder>,
    keys: Option<GaloisKeys>,
    qbits: f64,
    eks: f64,
    v0: f64,
    /// CKKS scale of this parameter set (see `ckks_scale`)
    scale: f64,
}

enum Dec {
    Int(Vec<u64>),
    Real(Vec<f64>),
}

impl Sys {
    /// keys are a function of (seed, spec, noise) only; the caller re-seeds for its own encryptions
    fn new(spec: &ParamSpec, level: usize, noise: Noise, seed: u64, with_keys: bool) -> Result<Sys, String> {
        // a ternary key is all-zero with probability 3^-N (1/81 at N = 4): such a key would make every
        // placement check vacuous (phase = c0), so the derivation is repeated with the next tag
        let mut attempt = 0u64;
        let kit = loop {
            env(seed, h64(&("c19-kit", spec, noise, attempt)), noise.mode(), noise.mode());
            let kit = guard(|| Kit::new(spec))??;
            if kit.sk.data().iter().any(|&x| x != 0) || attempt >= 16 {
                break kit;
            }
            attempt += 1;
        };
        let levels = kit.levels();
        if level >= levels.len() {
            return Err("level does not exist".into());
        }
        let keys = if with_keys { Some(guard(|| kit.keygen.create_automorphism_keys(false))?) } else { None };
        let (bat, ck) = if spec.scheme == Scheme::CKKS {
            (None, Some(guard(|| CKKSEncoder::new(kit.ctx.clone()))?))
        } else {
            (Some(guard(|| BatchEncoder::new(kit.ctx.clone()))?), None)
        };
        let mods = kit.moduli_at(&levels[level]);
        let qbits: f64 = mods.iter().map(|&q| (q as f64).log2()).sum();
        let key_mods = kit.moduli_at(kit.ctx.key_parms_id());
        let spbits = (*key_mods.last().unwrap() as f64).log2().floor() + 1.0;
        let maxbits = mods.iter().map(|&q| (q as f64).log2().floor() + 1.0).fold(0.0, f64::max);
        let n = spec.n as f64;
        let eks = mods.len() as f64 * n * B_ERR * (2f64).powf((maxbits - spbits + 1.0).max(0.0)) * 4.0 + 2.0 * (n + 1.0);
        let mut v0 = B_ERR * (2.0 * n + 1.0) + n + 2.0;
        if spec.scheme == Scheme::BFV {
            v0 += spec.t as f64;
        }
        let scale = ckks_scale(spec);
        Ok(Sys { kit, level, bat, ck, keys, qbits, eks, v0, scale })
    }
    fn n(&self) -> usize {
        self.kit.spec.n
    }
    fn t(&self) -> u64 {
        self.kit.spec.t
    }
    fn scheme(&self) -> Scheme {
        self.kit.spec.scheme
    }
    fn natural_ntt(&self) -> bool {
        self.scheme() != Scheme::BFV
    }
    fn keys(&self) -> &GaloisKeys {
        self.keys.as_ref().unwrap()
    }

    /// Is a result with phase error at most `v` and expected values at most `maxabs` judged? CKKS tolerance.
    fn judged(&self, v: f64, maxabs: f64) -> Option<f64> {
        let t = self.t() as f64;
        let need = match self.scheme() {
            Scheme::BFV => v.log2() + t.log2() + 1.0,
            Scheme::BGV => (t * v + t).log2() + 1.0,
            Scheme::CKKS => (v + self.scale * (maxabs + 1.0)).log2() + 1.0,
        };
        if need + 3.0 >= self.qbits {
            return None;
        }
        let tol = if self.scheme() == Scheme::CKKS { v / self.scale + 1e-9 } else { 0.0 };
        if tol >= 0.2 {
            return None;
        }
        Some(tol)
    }

    fn dense(&self, seed: u64, j: usize) -> Vec<i64> {
        let n = self.n();
        (0..n)
            .map(|i| {
                let g = h64(&(seed, "c19-dense", j, i));
                if self.scheme() == Scheme::CKKS {
                    (g % 33) as i64 - 16
                } else {
                    let t = self.t();
                    let r = g % t;
                    // never 0, so that a lost coefficient is visible
                    let r = if r == 0 { 1 } else { r };
                    if r > t / 2 {
                        r as i64 - t as i64
                    } else {
                        r as i64
                    }
                }
            })
            .collect()
    }
    fn message(&self, m: &Msg, seed: u64, j: usize) -> Vec<i64> {
        match m {
            Msg::Unit { pos, neg } => {
                let mut v = vec![0i64; self.n()];
                v[*pos] = if *neg { -1 } else { 1 };
                v
            }
            Msg::Dense => self.dense(seed, j),
        }
    }

    fn encrypt(&self, m: &[i64]) -> Result<Ciphertext, String> {
        guard(|| {
            let pt = match self.scheme() {
                Scheme::CKKS => {
                    let v: Vec<f64> = m.iter().map(|&x| x as f64).collect();
                    self.ck.as_ref().unwrap().encode_f64_polynomial_new(&v, None, self.scale)
                }
                _ => {
                    let t = self.t() as i64;
                    let v: Vec<u64> = m.iter().map(|&x| x.rem_euclid(t) as u64).collect();
                    self.bat.as_ref().unwrap().encode_polynomial_new(&v)
                }
            };
            let mut ct = self.kit.enc.encrypt_new(&pt);
            for _ in 0..self.level {
                self.kit.eval.mod_switch_to_next_inplace(&mut ct);
            }
            ct
        })
    }

    /// coefficient view of the decryption (ciphertext brought to the form the decryptor asks for)
    fn decode(&self, ct: &Ciphertext) -> Result<Dec, String> {
        guard(|| {
            let mut c = ct.clone();
            if self.natural_ntt() && !c.is_ntt_form() {
                self.kit.eval.transform_to_ntt_inplace(&mut c);
            } else if !self.natural_ntt() && c.is_ntt_form() {
                self.kit.eval.transform_from_ntt_inplace(&mut c);
            }
            let pt = self.kit.dec.decrypt_new(&c);
            match self.scheme() {
                Scheme::CKKS => Dec::Real(self.ck.as_ref().unwrap().decode_polynomial_new(&pt)),
                _ => {
                    let mut v = self.bat.as_ref().unwrap().decode_polynomial_new(&pt);
                    v.truncate(pt.coeff_count().max(1));
                    v.resize(self.n(), 0);
                    Dec::Int(v)
                }
            }
        })
    }

    /// first index in `idx` where the decoded value differs from the expected signed integer
    fn mismatch(&self, d: &Dec, exp: &[i64], idx: impl Iterator<Item = usize>, tol: f64) -> Option<(usize, String, String)> {
        let t = self.t() as i64;
        for i in idx {
            match d {
                Dec::Int(v) => {
                    let e = exp[i].rem_euclid(t) as u64;
                    if v.len() != exp.len() || v[i] != e {
                        return Some((i, format!("{e}"), format!("{:?}", v.get(i))));
                    }
                }
                Dec::Real(v) => {
                    if v.len() != exp.len() || !((v[i] - exp[i] as f64).abs() <= tol) {
                        return Some((i, format!("{} (+-{tol:.3e})", exp[i]), format!("{:?}", v.get(i))));
                    }
                }
            }
        }
        None
    }
    fn show(&self, d: &Dec) -> String {
        match d {
            Dec::Int(v) => clip(v),
            Dec::Real(v) => clip(&v.iter().map(|x| (x * 1e4).round() / 1e4).collect::<Vec<_>>()),
        }
    }
    fn show_exp(&self, exp: &[i64]) -> String {
        if self.scheme() == Scheme::CKKS {
            clip(exp)
        } else {
            let t = self.t() as i64;
            clip(&exp.iter().map(|x| x.rem_euclid(t)).collect::<Vec<_>>())
        }
    }
}

thread_local! {
    /// last system built on this thread by a size-extension section: (hash of the arguments, system)
    static SYS_CACHE: std::cell::RefCell<Option<(u64, std::rc::Rc<Sys>)>> = const { std::cell::RefCell::new(None) };
}

/// `Sys::new` is a pure function of its arguments (it installs its own entropy / noise script and every caller
/// re-seeds afterwards), so the size-extension sections, whose consecutive cases share a parameter set whose context
/// and keys cost far more than one case, keep the last one per thread. The original sections build it per case.
fn get_sys(pfx: &str, spec: &ParamSpec, level: usize, noise: Noise, seed: u64, with_keys: bool) -> Result<std::rc::Rc<Sys>, String> {
    if pfx.is_empty() {
        return Sys::new(spec, level, noise, seed, with_keys).map(std::rc::Rc::new);
    }
    let tag = h64(&(spec, level, noise, seed, with_keys));
    if let Some(s) = SYS_CACHE.with(|c| c.borrow().as_ref().filter(|(t, _)| *t == tag).map(|(_, s)| s.clone())) {
        return Ok(s);
    }
    // drop the old one first (a system at N = 4096 holds some MB of keys)
    SYS_CACHE.with(|c| *c.borrow_mut() = None);
    let s = std::rc::Rc::new(Sys::new(spec, level, noise, seed, with_keys)?);
    SYS_CACHE.with(|c| *c.borrow_mut() = Some((tag, s.clone())));
    Ok(s)
}

/// vectors of the large-degree sections are reported by their first 32 entries (the case replays the rest)
fn clip<T: std::fmt::Debug>(v: &[T]) -> String {
    if v.len() <= 64 {
        format!("{v:?}")
    } else {
        format!("{:?}.. ({} entries)", &v[..32], v.len())
    }
}

fn log2_exact(n: usize) -> usize {
    n.trailing_zeros() as usize
}

// ------------------------------------------------------------------------------------------------
// extract / assemble
// ------------------------------------------------------------------------------------------------

#[derive(Serialize, Deserialize, Clone, Debug)]
pub struct XCase {
    pub spec: ParamSpec,
    pub level: usize,
    pub noise: Noise,
    pub repr: Repr,
    pub msg: Msg,
}

fn lwe_shape_ok(l: &LWECiphertext, ct: &Ciphertext) -> bool {
    l.poly_modulus_degree() == ct.poly_modulus_degree()
        && l.coeff_modulus_size() == ct.coeff_modulus_size()
        && l.c0().len() == ct.coeff_modulus_size()
        && l.c1().len() == ct.coeff_modulus_size() * ct.poly_modulus_degree()
        && l.parms_id() == ct.parms_id()
        && l.scale() == ct.scale()
        && l.correction_factor() == ct.correction_factor()
}

fn run_extract(c: &XCase, seed: u64) -> CaseOut {
    run_extract_p("", c, seed)
}

/// `pfx` = "" for the section `extract`, "big:" / "chain:" for the size-extension sections (same check, own keys)
fn run_extract_p(pfx: &str, c: &XCase, seed: u64) -> CaseOut {
    let sys = match get_sys(pfx, &c.spec, c.level, c.noise, seed, false) {
        Ok(s) => s,
        Err(e) => return CaseOut::skip(&format!("parameter set not usable: {}", panic_class(&e))),
    };
    let sc = format!("{:?}", c.spec.scheme);
    let key = |what: &str| format!("{pfx}extract:{sc}:{:?}:{what}", c.repr);
    env(seed, h64(&("c19-extract", serde_json::to_string(c).unwrap())), c.noise.mode(), c.noise.mode());
    let m = sys.message(&c.msg, seed, 0);
    let Some(tol) = sys.judged(sys.v0, 16.0) else { return CaseOut::skip("a-priori noise bound exceeds the head-room") };
    let ct = match sys.encrypt(&m) {
        Ok(ct) => ct,
        Err(p) => return CaseOut::fail(key(&format!("encrypt:panic:{}", panic_class(&p))), "encryption of a valid message", p),
    };
    // the representation handed to extract_lwe
    let input = match guard(|| match (c.repr, ct.is_ntt_form()) {
        (Repr::Natural, _) => ct.clone(),
        (Repr::Other, true) => sys.kit.eval.transform_from_ntt_new(&ct),
        (Repr::Other, false) => sys.kit.eval.transform_to_ntt_new(&ct),
    }) {
        Ok(x) => x,
        Err(p) => return CaseOut::fail(key(&format!("transform:panic:{}", panic_class(&p))), "NTT transform of a fresh ciphertext", p),
    };
    if input.is_ntt_form() != (sys.natural_ntt() == (c.repr == Repr::Natural)) {
        return CaseOut::fail(key("repr"), "fresh ciphertext in the scheme's natural representation", format!("is_ntt_form={}", ct.is_ntt_form()));
    }
    let n = sys.n();
    let mut steps = 0u64;
    for i in 0..n {
        let lwe = match guard(|| sys.kit.eval.extract_lwe(&input, i)) {
            Ok(l) => l,
            Err(p) => return CaseOut::fail(key(&format!("extract:panic:{}", panic_class(&p))), format!("extract_lwe(term={i}) of a valid 2-component ciphertext"), p),
        };
        if !lwe_shape_ok(&lwe, &input) {
            return CaseOut::fail(key("lwe-meta"), format!("LWE metadata of the source ciphertext ({})", ct_meta(&input)), format!("{lwe:?}").chars().take(300).collect::<String>());
        }
        let (a, b) = match guard(|| (sys.kit.eval.assemble_lwe(&lwe), lwe.assemble_lwe())) {
            Ok(x) => x,
            Err(p) => return CaseOut::fail(key(&format!("assemble:panic:{}", panic_class(&p))), format!("assemble_lwe after extract_lwe(term={i})"), p),
        };
        if ct_fingerprint(&a) != ct_fingerprint(&b) {
            return CaseOut::fail(key("assemble-forms-differ"), "Evaluator::assemble_lwe == LWECiphertext::assemble_lwe", format!("{} vs {}", ct_meta(&a), ct_meta(&b)));
        }
        if a.is_ntt_form() || a.size() != 2 || a.parms_id() != input.parms_id() || !a.is_valid_for(&sys.kit.ctx) {
            return CaseOut::fail(key("assemble-meta"), "valid 2-component ciphertext in coefficient form at the source level", ct_meta(&a));
        }
        let d = match sys.decode(&a) {
            Ok(d) => d,
            Err(p) => return CaseOut::fail(key(&format!("decrypt:panic:{}", panic_class(&p))), format!("assembled ciphertext (term={i}) decrypts"), p),
        };
        steps += 1;
        // only the constant coefficient is specified
        let mut exp = vec![0i64; n];
        exp[0] = m[i];
        if let Some((_, e, o)) = sys.mismatch(&d, &exp, 0..1, tol) {
            return CaseOut::fail(
                key("wrong"),
                format!("message {} (level {}), term {i}: constant coefficient {e}", sys.show_exp(&m), c.level),
                format!("{o}; decoded {}", sys.show(&d)),
            );
        }
    }
    CaseOut::pass(true, h64(&(sc.as_str(), c.repr, matches!(c.msg, Msg::Dense), c.level)), steps)
}

// ------------------------------------------------------------------------------------------------
// field trace
// ------------------------------------------------------------------------------------------------

#[derive(Serialize, Deserialize, Clone, Copy, Debug, PartialEq, Eq, Hash)]
pub enum Pre {
    /// trace only
    None,
    /// divide_by_poly_modulus_degree_inplace(ct, None) first (only with l = 0: N * 1/N = 1)
    DivN,
    /// divide_by_poly_modulus_degree_inplace(ct, Some(c * 2^l)) first: overall factor c
    DivMul(u64),
}

#[derive(Serialize, Deserialize, Clone, Debug)]
pub struct TCase {
    pub spec: ParamSpec,
    pub level: usize,
    pub noise: Noise,
    pub l: usize,
    pub pre: Pre,
    pub msg: Msg,
}

fn run_trace(c: &TCase, seed: u64) -> CaseOut {
    run_trace_p("", c, seed)
}

fn run_trace_p(pfx: &str, c: &TCase, seed: u64) -> CaseOut {
    let sys = match get_sys(pfx, &c.spec, c.level, c.noise, seed, true) {
        Ok(s) => s,
        Err(e) => return CaseOut::skip(&format!("parameter set not usable: {}", panic_class(&e))),
    };
    let sc = format!("{:?}", c.spec.scheme);
    let pre = match c.pre {
        Pre::None => "plain",
        Pre::DivN => "divN",
        Pre::DivMul(_) => "divNmul",
    };
    let key = |what: &str| format!("{pfx}trace:{sc}:{pre}:{what}");
    let n = sys.n();
    let logn = log2_exact(n);
    if c.l > logn || (c.pre == Pre::DivN && c.l != 0) {
        return CaseOut::skip("outside the enumerated domain");
    }
    env(seed, h64(&("c19-trace", serde_json::to_string(c).unwrap())), c.noise.mode(), c.noise.mode());
    let m = sys.message(&c.msg, seed, 0);
    let stride = n >> c.l;
    // overall integer factor on the kept coefficients
    let factor: i64 = match c.pre {
        Pre::None => stride as i64,
        Pre::DivN => 1,
        Pre::DivMul(x) => x as i64,
    };
    let exp: Vec<i64> = (0..n).map(|i| if i % stride == 0 { factor * m[i] } else { 0 }).collect();
    let mult = match c.pre {
        Pre::DivMul(x) => x as f64,
        _ => 1.0,
    };
    let v = stride as f64 * mult * sys.v0 + stride as f64 * sys.eks;
    let maxabs = exp.iter().map(|x| x.abs()).max().unwrap() as f64;
    let Some(tol) = sys.judged(v, maxabs) else { return CaseOut::skip("a-priori noise bound exceeds the head-room") };
    let mut ct = match sys.encrypt(&m) {
        Ok(ct) => ct,
        Err(p) => return CaseOut::fail(key(&format!("encrypt:panic:{}", panic_class(&p))), "encryption of a valid message", p),
    };
    let before = (*ct.parms_id(), ct.is_ntt_form(), ct.scale().to_bits(), ct.correction_factor(), ct.size());
    if let Err(p) = guard(|| match c.pre {
        Pre::None => {}
        Pre::DivN => sys.kit.eval.divide_by_poly_modulus_degree_inplace(&mut ct, None),
        Pre::DivMul(x) => sys.kit.eval.divide_by_poly_modulus_degree_inplace(&mut ct, Some(x << c.l)),
    }) {
        return CaseOut::fail(key(&format!("divide:panic:{}", panic_class(&p))), "divide_by_poly_modulus_degree_inplace on a fresh ciphertext", p);
    }
    if let Err(p) = guard(|| sys.kit.eval.field_trace_inplace(&mut ct, sys.keys(), c.l)) {
        return CaseOut::fail(key(&format!("panic:{}", panic_class(&p))), format!("field_trace_inplace(l={}) with create_automorphism_keys on a fresh ciphertext", c.l), p);
    }
    let after = (*ct.parms_id(), ct.is_ntt_form(), ct.scale().to_bits(), ct.correction_factor(), ct.size());
    if before != after {
        return CaseOut::fail(key("meta"), format!("level, representation, scale, correction factor, size unchanged: {before:?}"), format!("{after:?}"));
    }
    let d = match sys.decode(&ct) {
        Ok(d) => d,
        Err(p) => return CaseOut::fail(key(&format!("decrypt:panic:{}", panic_class(&p))), "traced ciphertext decrypts", p),
    };
    if let Some((i, e, o)) = sys.mismatch(&d, &exp, 0..n, tol) {
        let class = if i % stride == 0 { "wrong-kept" } else { "wrong-zeroed" };
        return CaseOut::fail(
            key(class),
            format!("N={n} l={} level={} message {} -> {} (index {i}: {e})", c.l, c.level, sys.show_exp(&m), sys.show_exp(&exp)),
            format!("index {i}: {o}; decoded {}", sys.show(&d)),
        );
    }
    let nonzero = exp.iter().any(|&x| x != 0);
    CaseOut::pass(true, h64(&(sc.as_str(), pre, c.l, nonzero, c.level)), 1)
}

// ------------------------------------------------------------------------------------------------
// pack
// ------------------------------------------------------------------------------------------------

#[derive(Serialize, Deserialize, Clone, Copy, Debug, PartialEq, Eq, Hash)]
pub enum Idx {
    /// index j from the j-th ciphertext
    Diag,
    /// the same index from all
    Fixed(usize),
}

#[derive(Serialize, Deserialize, Clone, Copy, Debug, PartialEq, Eq, Hash)]
pub enum PMsg {
    /// ciphertext j encrypts its own dense generic polynomial
    Dense,
    /// for every j0 < k: ciphertext j0 encrypts +-X^idx(j0), all others encrypt 0  (k packings)
    UnitEach { neg: bool },
}

#[derive(Serialize, Deserialize, Clone, Debug)]
pub struct PCase {
    pub spec: ParamSpec,
    pub level: usize,
    pub noise: Noise,
    pub k: usize,
    pub idx: Idx,
    pub msg: PMsg,
}

fn run_pack(c: &PCase, seed: u64) -> CaseOut {
    run_pack_p("", c, seed)
}

fn run_pack_p(pfx: &str, c: &PCase, seed: u64) -> CaseOut {
    let sys = match get_sys(pfx, &c.spec, c.level, c.noise, seed, true) {
        Ok(s) => s,
        Err(e) => return CaseOut::skip(&format!("parameter set not usable: {}", panic_class(&e))),
    };
    let sc = format!("{:?}", c.spec.scheme);
    let n = sys.n();
    let k = c.k;
    if k == 0 || k > n || matches!(c.idx, Idx::Fixed(i) if i >= n) {
        return CaseOut::skip("outside the enumerated domain");
    }
    let kclass = if k == 1 {
        "k=1"
    } else if k.is_power_of_two() {
        "k=pow2"
    } else {
        "k=other"
    };
    let idxs = match c.idx {
        Idx::Diag => "diag",
        Idx::Fixed(_) => "fixed",
    };
    let key = |what: &str| format!("{pfx}pack:{sc}:{idxs}:{kclass}:{what}");
    let mut l = 0usize;
    while (1usize << l) < k {
        l += 1;
    }
    let stride = n >> l;
    let index_of = |j: usize| match c.idx {
        Idx::Diag => j,
        Idx::Fixed(i) => i,
    };
    env(seed, h64(&("c19-pack", serde_json::to_string(c).unwrap())), c.noise.mode(), c.noise.mode());
    let v = sys.v0 + n as f64 * (1u64 << l) as f64 * sys.eks;
    let Some(tol) = sys.judged(v, 16.0) else { return CaseOut::skip("a-priori noise bound exceeds the head-room") };

    let extract = |m: &[i64], i: usize| -> Result<LWECiphertext, CaseOut> {
        let ct = sys.encrypt(m).map_err(|p| CaseOut::fail(key(&format!("encrypt:panic:{}", panic_class(&p))), "encryption of a valid message", p))?;
        guard(|| sys.kit.eval.extract_lwe(&ct, i))
            .map_err(|p| CaseOut::fail(key(&format!("extract:panic:{}", panic_class(&p))), format!("extract_lwe(term={i}) of a fresh ciphertext"), p))
    };
    // one packing, all N coefficients compared
    let pack_and_check = |lwes: &[LWECiphertext], exp: &[i64], what: &dyn Fn() -> String| -> Option<CaseOut> {
        let ct = match guard(|| sys.kit.eval.pack_lwe_ciphertexts(lwes, sys.keys())) {
            Ok(ct) => ct,
            Err(p) => return Some(CaseOut::fail(key(&format!("panic:{}", panic_class(&p))), format!("pack_lwe_ciphertexts of {k} <= N = {n} LWEs of one level: {}", what()), p)),
        };
        let lw = &lwes[0];
        if ct.is_ntt_form() != sys.natural_ntt() || ct.size() != 2 || ct.parms_id() != lw.parms_id() || ct.scale() != lw.scale() || ct.correction_factor() != lw.correction_factor() || !ct.is_valid_for(&sys.kit.ctx) {
            return Some(CaseOut::fail(key("meta"), "valid 2-component ciphertext in the scheme's representation, level/scale/correction factor of the inputs", ct_meta(&ct)));
        }
        let d = match sys.decode(&ct) {
            Ok(d) => d,
            Err(p) => return Some(CaseOut::fail(key(&format!("decrypt:panic:{}", panic_class(&p))), "packed ciphertext decrypts", p)),
        };
        if let Some((i, e, o)) = sys.mismatch(&d, exp, 0..n, tol) {
            let class = if exp[i] != 0 {
                "wrong-value"
            } else if i % stride == 0 && i / stride < k {
                "wrong-slot"
            } else {
                "wrong-zero"
            };
            return Some(CaseOut::fail(
                key(class),
                format!("N={n} k={k} stride={stride} level={} {}: {} (index {i}: {e})", c.level, what(), sys.show_exp(exp)),
                format!("index {i}: {o}; decoded {}", sys.show(&d)),
            ));
        }
        None
    };

    let mut steps = 0u64;
    match c.msg {
        PMsg::Dense => {
            let mut lwes = vec![];
            let mut exp = vec![0i64; n];
            let mut vals = vec![];
            for j in 0..k {
                let m = sys.message(&Msg::Dense, seed, j);
                exp[j * stride] = m[index_of(j)];
                vals.push(m[index_of(j)]);
                match extract(&m, index_of(j)) {
                    Ok(l) => lwes.push(l),
                    Err(f) => return f,
                }
            }
            steps += 1;
            if let Some(f) = pack_and_check(&lwes, &exp, &|| format!("dense messages, extracted values {vals:?} (indices {idxs})")) {
                return f;
            }
        }
        PMsg::UnitEach { neg } => {
            let zero = vec![0i64; n];
            let mut zeros = vec![];
            let mut units = vec![];
            for j in 0..k {
                match extract(&zero, index_of(j)) {
                    Ok(l) => zeros.push(l),
                    Err(f) => return f,
                }
                let m = sys.message(&Msg::Unit { pos: index_of(j), neg }, seed, j);
                match extract(&m, index_of(j)) {
                    Ok(l) => units.push(l),
                    Err(f) => return f,
                }
            }
            for j0 in 0..k {
                let lwes: Vec<LWECiphertext> = (0..k).map(|j| if j == j0 { units[j].clone() } else { zeros[j].clone() }).collect();
                let mut exp = vec![0i64; n];
                exp[j0 * stride] = if neg { -1 } else { 1 };
                steps += 1;
                if let Some(f) = pack_and_check(&lwes, &exp, &|| format!("LWE {j0} holds {}1 (from X^{}), all others 0", if neg { "-" } else { "+" }, index_of(j0))) {
                    return f;
                }
            }
        }
    }
    CaseOut::pass(true, h64(&(sc.as_str(), idxs, kclass, l, matches!(c.msg, PMsg::Dense), c.level)), steps)
}

// ------------------------------------------------------------------------------------------------
// enumeration
// ------------------------------------------------------------------------------------------------

fn specs(cfg: &RunCfg) -> Vec<(ParamSpec, Vec<usize>, Vec<Noise>)> {
    let ns: &[usize] = if cfg.thorough() { &[4, 8, 16, 32, 64] } else { &[4, 8, 16] };
    let mut v = vec![];
    for &n in ns {
        // main family: 3 primes of 54/54/55 bits (the last one is the special prime), t in {257, 17}
        let q = chain(n, &[54, 54, 55]);
        for s in Scheme::all() {
            let ts: &[u64] = if s == Scheme::CKKS { &[0] } else { &[257, 17] };
            for &t in ts {
                // worst-case sampler scripts (all +max / alternating) on the small degrees
                let noises = if n <= 16 && t != 17 { vec![Noise::Real, Noise::AllMax, Noise::Alt] } else { vec![Noise::Real] };
                v.push((ParamSpec::new(s, n, q.clone(), t), vec![0, 1], noises));
            }
        }
        // the shape of the repository's unit tests: three 30-bit primes, t = 17 (CKKS: the second level
        // cannot hold scale 2^40 and is skipped by the noise/size bound)
        if n == 16 || (cfg.thorough() && n == 32) {
            let q = chain(n, &[30, 30, 30]);
            for s in Scheme::all() {
                v.push((ParamSpec::new(s, n, q.clone(), 17), vec![0, 1], vec![Noise::Real]));
            }
        }
    }
    v
}

fn unit_msgs(n: usize) -> Vec<Msg> {
    let mut v = vec![];
    for neg in [false, true] {
        for pos in 0..n {
            v.push(Msg::Unit { pos, neg });
        }
    }
    v.push(Msg::Dense);
    v
}

pub fn sections(cfg: &RunCfg) -> Vec<Box<dyn AnySection>> {
    let seed = cfg.seed;
    let mut out: Vec<Box<dyn AnySection>> = vec![];

    // (i) negacyclic_shift directly
    let mut sc: Vec<SCase> = vec![];
    let big = ntt_primes(64, 60, 2);
    for logn in 0..=6 {
        let n = 1usize << logn;
        for q in [2u64, 3, 97, big[0], (1u64 << 61) - 1] {
            sc.push(SCase { n, q: vec![q], variant: "single".into() });
        }
        for qs in [vec![97u64, 2], vec![big[0], big[1]], vec![3, big[1], 97]] {
            sc.push(SCase { n, q: qs.clone(), variant: "p".into() });
            sc.push(SCase { n, q: qs, variant: "ps".into() });
        }
    }
    out.push(E1::new(
        "shift",
        "negacyclic_shift/_p/_ps: N = 1,2,..,64 x every shift 0..2N-1 x every unit vector (coefficients 1, q-1, generic) + zero + dense; moduli 2, 3, 97, 60-bit prime, 2^61-1",
        sc.into_iter(),
        move |c: &SCase| run_shift(c, seed),
    ));

    let sp = specs(cfg);

    // (ii) extract / assemble
    let mut xc: Vec<XCase> = vec![];
    for (spec, levels, noises) in &sp {
        for &level in levels {
            for &noise in noises {
                for repr in [Repr::Natural, Repr::Other] {
                    for msg in unit_msgs(spec.n) {
                        xc.push(XCase { spec: spec.clone(), level, noise, repr, msg });
                    }
                }
            }
        }
    }
    out.push(
        E1::new(
            "extract",
            "N in {4,8,16} (thorough +32,64) x {BFV,BGV,CKKS} x q in {54/54/55-bit primes with t in {257,17}; 30/30/30-bit with t=17 at N=16 (thorough +32)} x sampler script {real; all-max, alternating at N<=16,t=257} x level {first, after one mod switch} x both input representations x every +-X^p and a dense message x EVERY extraction index i",
            xc.into_iter(),
            move |c: &XCase| run_extract(c, seed),
        )
        .deadline(Duration::from_secs(30)),
    );

    // (iii) field trace
    let mut tc: Vec<TCase> = vec![];
    for (spec, levels, noises) in &sp {
        let logn = log2_exact(spec.n);
        for &level in levels {
            for &noise in noises {
                for l in 0..=logn {
                    for msg in unit_msgs(spec.n) {
                        tc.push(TCase { spec: spec.clone(), level, noise, l, pre: Pre::None, msg });
                    }
                    let mut pres = vec![Pre::DivMul(1), Pre::DivMul(3)];
                    if l == 0 {
                        pres.push(Pre::DivN);
                    }
                    for pre in pres {
                        tc.push(TCase { spec: spec.clone(), level, noise, l, pre, msg: Msg::Dense });
                        tc.push(TCase { spec: spec.clone(), level, noise, l, pre, msg: Msg::Unit { pos: spec.n - (spec.n >> l), neg: true } });
                    }
                }
            }
        }
    }
    out.push(
        E1::new(
            "trace",
            "same parameter sets x EVERY l = 0..log2 N x every +-X^p and a dense message; plus divide_by_poly_modulus_degree_inplace(None | c*2^l, c in {1,3}) before the trace",
            tc.into_iter(),
            move |c: &TCase| run_trace(c, seed),
        )
        .deadline(Duration::from_secs(30)),
    );

    // (iv) pack
    let mut pc: Vec<PCase> = vec![];
    for (spec, levels, noises) in &sp {
        let n = spec.n;
        for &level in levels {
            for &noise in noises {
                for k in 1..=n {
                    pc.push(PCase { spec: spec.clone(), level, noise, k, idx: Idx::Diag, msg: PMsg::Dense });
                    for i0 in 0..n {
                        pc.push(PCase { spec: spec.clone(), level, noise, k, idx: Idx::Fixed(i0), msg: PMsg::Dense });
                    }
                    for neg in [false, true] {
                        pc.push(PCase { spec: spec.clone(), level, noise, k, idx: Idx::Diag, msg: PMsg::UnitEach { neg } });
                        pc.push(PCase { spec: spec.clone(), level, noise, k, idx: Idx::Fixed(n - 1), msg: PMsg::UnitEach { neg } });
                    }
                }
            }
        }
    }
    // simplest first: small N, small k
    pc.sort_by_key(|c| (c.spec.n, c.k));
    out.push(
        E1::new(
            "pack",
            "same parameter sets x EVERY k = 1..N x {index j from ciphertext j, EVERY fixed index} with dense messages; unit family (one LWE +-1, the others 0, every position) for index j and fixed index N-1",
            pc.into_iter(),
            move |c: &PCase| run_pack(c, seed),
        )
        .deadline(Duration::from_secs(60)),
    );
    size_sections(cfg, &mut out);
    out
}

// ------------------------------------------------------------------------------------------------
// enumeration of the size-extension sections (N >= 128; 2..19 primes)
// ------------------------------------------------------------------------------------------------

/// the boundary values of a dimension that is blocked / tiled / masked by 64 .. 4096, restricted to lo..=hi
fn edges(lo: usize, hi: usize) -> Vec<usize> {
    let mut v = vec![lo, hi.saturating_sub(1), hi, hi / 2, (hi / 2).saturating_sub(1), hi / 2 + 1];
    for b in [1usize, 2, 8, 16, 32, 64, 128, 256, 512, 1024, 2048, 4096] {
        v.extend([b.saturating_sub(1), b, b + 1]);
    }
    v.retain(|&x| x >= lo && x <= hi);
    v.sort();
    v.dedup();
    v
}

/// {BFV, BGV, CKKS} with three 60-bit primes (the last one is the special prime), t = 257
fn big_specs(n: usize) -> Vec<ParamSpec> {
    let q = chain(n, &[60, 60, 60]);
    Scheme::all().into_iter().map(|s| ParamSpec::new(s, n, q.clone(), 257)).collect()
}

/// {BFV, BGV, CKKS} at degree n with `total` primes: total-1 of 50 bits and a 51-bit special prime, t = 257;
/// with the data levels to visit (first, second, last)
fn chain_specs(n: usize, totals: &[usize]) -> Vec<(ParamSpec, Vec<usize>)> {
    let mut v = vec![];
    for &total in totals {
        let mut bits = vec![50usize; total - 1];
        bits.push(51);
        let q = chain(n, &bits);
        let mut levels = vec![0usize, 1, total - 2];
        levels.retain(|&l| l + 2 <= total);
        levels.sort();
        levels.dedup();
        for s in Scheme::all() {
            v.push((ParamSpec::new(s, n, q.clone(), 257), levels.clone()));
        }
    }
    v
}

fn size_sections(cfg: &RunCfg, out: &mut Vec<Box<dyn AnySection>>) {
    let seed = cfg.seed;
    let thorough = cfg.thorough();
    // large degree AND many primes at once: 10 primes in all (9 at the first level) at N = 256 (thorough +1024, 4096)
    let cross_ns: &[usize] = if thorough { &[256, 1024, 4096] } else { &[256] };
    let cross: Vec<(ParamSpec, Vec<usize>)> = cross_ns.iter().flat_map(|&n| chain_specs(n, &[10])).collect();

    // (v) negacyclic_shift at N >= 128
    {
        let big = ntt_primes(64, 60, 6);
        let mid = ntt_primes(64, 30, 6);
        let m61 = (1u64 << 61) - 1;
        // 18 component moduli of mixed sizes
        let pool: Vec<u64> = vec![big[0], 2, mid[0], 3, big[1], 97, m61, mid[1], 257, big[2], 65537, mid[2], big[3], mid[3], big[4], mid[4], big[5], mid[5]];
        let mut sc: Vec<BSCase> = vec![];
        let vecs = |sc: &mut Vec<BSCase>, n: usize, q: Vec<u64>, pcount: usize, variant: &str| {
            sc.push(BSCase { n, q, pcount, variant: variant.into(), family: "vec".into(), lo: 0, hi: 0, ncoef: 0 });
        };
        // unit family in chunks of `chunk` flat positions
        let units = |sc: &mut Vec<BSCase>, n: usize, q: Vec<u64>, pcount: usize, variant: &str, ncoef: usize, chunk: usize| {
            let total = n * q.len() * pcount;
            let mut lo = 0;
            while lo < total {
                let hi = (lo + chunk).min(total);
                sc.push(BSCase { n, q: q.clone(), pcount, variant: variant.into(), family: "unit".into(), lo, hi, ncoef });
                lo = hi;
            }
        };
        let singles = [2u64, 97, big[0], m61];
        for n in [128usize, 256] {
            for q in singles {
                vecs(&mut sc, n, vec![q], 1, "single");
                units(&mut sc, n, vec![q], 1, "single", 3, 64);
            }
            // every poly count 1..4 x every component count 1..18 (at N = 256 in the quick tier: the counts around 2, 8, 16)
            for pcount in 1..=4usize {
                for k in 1..=18usize {
                    if n == 256 && !thorough && !(pcount <= 3 && [1usize, 2, 3, 8, 9, 16, 17, 18].contains(&k)) {
                        continue;
                    }
                    if pcount == 1 {
                        vecs(&mut sc, n, pool[..k].to_vec(), 1, "p");
                    }
                    vecs(&mut sc, n, pool[..k].to_vec(), pcount, "ps");
                }
            }
        }
        // every unit vector of a 3-component polynomial / of two 2-component polynomials
        units(&mut sc, 128, pool[..3].to_vec(), 1, "p", 2, 64);
        units(&mut sc, 128, pool[..2].to_vec(), 2, "ps", 2, 64);
        vecs(&mut sc, 512, vec![big[0]], 1, "single");
        units(&mut sc, 512, vec![big[0]], 1, "single", 1, 64);
        vecs(&mut sc, 1024, vec![big[0]], 1, "single");
        vecs(&mut sc, 1024, pool[..2].to_vec(), 2, "ps");
        if thorough {
            for n in [512usize, 1024, 2048, 4096, 8192] {
                for q in singles {
                    if n < 8192 || q == big[0] || q == 97 {
                        vecs(&mut sc, n, vec![q], 1, "single");
                    }
                }
                let (ps, shapes): (&[usize], &[(usize, usize)]) = match n {
                    512 | 1024 => (&[2, 9, 18], &[(2, 1), (2, 2), (2, 3), (2, 9), (3, 1), (3, 2), (3, 3), (3, 9)]),
                    2048 | 4096 => (&[2, 9], &[(2, 2), (3, 3), (2, 9)]),
                    _ => (&[2], &[(2, 2)]),
                };
                for &k in ps {
                    vecs(&mut sc, n, pool[..k].to_vec(), 1, "p");
                }
                for &(pcount, k) in shapes {
                    vecs(&mut sc, n, pool[..k].to_vec(), pcount, "ps");
                }
            }
            for n in [512usize, 1024] {
                units(&mut sc, n, vec![97], 1, "single", 3, 64);
                units(&mut sc, n, vec![big[0]], 1, "single", 3, 64);
            }
            units(&mut sc, 512, pool[..2].to_vec(), 2, "ps", 1, 64);
            units(&mut sc, 2048, vec![big[0]], 1, "single", 3, 32);
            units(&mut sc, 2048, vec![97], 1, "single", 1, 32);
            units(&mut sc, 4096, vec![big[0]], 1, "single", 1, 32);
        }
        sc.sort_by_key(|c| (c.n * c.q.len() * c.pcount, c.family == "unit", c.lo));
        out.push(
            E1::new(
                "big:shift",
                "negacyclic_shift/_p/_ps at N = 128, 256: every shift 0..2N-1 x {9 structured vectors (zero, dense, sparse, all 1, all q-1, half-filled, runs of 64 / 63); every unit vector with coefficients generic, q-1, 1} for moduli 2, 97, 60-bit, 2^61-1; every poly count 1..4 x every component count 1..18 (N = 256 quick: polys 1..3, components 1,2,3,8,9,16,17,18) on the structured vectors; every unit vector of the flattened 1x3 / 2x2 arrays at N = 128; N = 512 (vectors + every unit, generic coefficient), N = 1024 (vectors). thorough: + N = 512..8192 vectors (single x 4 moduli (8192: 2); N <= 1024: p x {2,9,18} components, ps {2,3} polys x {1,2,3,9}; N = 2048, 4096: p x {2,9}, ps 2x2, 3x3, 2x9; N = 8192: p x 2, ps 2x2), every unit vector x every shift at N = 512, 1024, 2048 (3 coefficient values) and 4096 (generic coefficient), flattened 2x2 at N = 512",
                sc.into_iter(),
                move |c: &BSCase| run_bshift(c, seed),
            )
            .batch(2)
            .deadline(Duration::from_secs(600)),
        );
    }

    let big_ns: &[usize] = if thorough { &[128, 256, 512, 1024, 2048, 4096] } else { &[128, 256] };
    let chain_totals: Vec<usize> = if thorough { (2..=19).collect() } else { vec![2, 3, 4, 5, 6, 7, 8, 9, 10, 11, 16, 17, 18, 19] };
    let chain_ns: &[usize] = if thorough { &[8, 16] } else { &[8] };

    // (vi) extract / assemble
    {
        let mut xc: Vec<XCase> = vec![];
        for &n in big_ns {
            for spec in big_specs(n) {
                for level in [0usize, 1] {
                    for repr in [Repr::Natural, Repr::Other] {
                        let mut msgs = vec![Msg::Dense, Msg::Unit { pos: n - 1, neg: true }];
                        if n <= 512 {
                            msgs.push(Msg::Unit { pos: 64, neg: false });
                        }
                        for msg in msgs {
                            xc.push(XCase { spec: spec.clone(), level, noise: Noise::Real, repr, msg });
                        }
                    }
                }
            }
        }
        for (spec, levels) in &cross {
            for &level in levels {
                for repr in [Repr::Natural, Repr::Other] {
                    xc.push(XCase { spec: spec.clone(), level, noise: Noise::Real, repr, msg: Msg::Dense });
                }
            }
        }
        xc.sort_by_key(|c| c.spec.n * c.spec.n * c.spec.q.len());
        out.push(
            E1::new(
                "big:extract",
                "N in {128,256} (thorough +512,1024,2048,4096) x {BFV,BGV,CKKS} x q = three 60-bit primes, t = 257, CKKS scale 2^50 x level {first, after one mod switch} x both input representations x messages {dense, -X^(N-1), X^64 (N <= 512)} x EVERY extraction index i = 0..N-1; also ten primes (nine 50-bit + a 51-bit special prime) at N = 256 (thorough +1024, 4096) x level {first, second, last} x both representations, dense message, EVERY index",
                xc.into_iter(),
                move |c: &XCase| run_extract_p("big:", c, seed),
            )
            .batch(1)
            .deadline(Duration::from_secs(900)),
        );
        let mut xc: Vec<XCase> = vec![];
        for &n in chain_ns {
            for (spec, levels) in chain_specs(n, &chain_totals) {
                for &level in &levels {
                    for repr in [Repr::Natural, Repr::Other] {
                        for msg in [Msg::Dense, Msg::Unit { pos: n - 1, neg: true }, Msg::Unit { pos: 1, neg: false }] {
                            xc.push(XCase { spec: spec.clone(), level, noise: Noise::Real, repr, msg });
                        }
                    }
                }
            }
        }
        out.push(
            E1::new(
                "chain:extract",
                "N = 8 (thorough +16) x {BFV,BGV,CKKS} x 2,3,..,11,16,17,18,19 coefficient primes in all (thorough every count 2..19; 50-bit primes + a 51-bit special prime, so 1..18 primes at the first level) x level {first, second, last} x both input representations x messages {dense, -X^(N-1), X} x EVERY extraction index",
                xc.into_iter(),
                move |c: &XCase| run_extract_p("chain:", c, seed),
            )
            .deadline(Duration::from_secs(120)),
        );
    }

    // (vii) field trace
    {
        let trace_cases = |spec: &ParamSpec, levels: &[usize], units: &[usize]| -> Vec<TCase> {
            let n = spec.n;
            let mut tc = vec![];
            for &level in levels {
                for l in 0..=log2_exact(n) {
                    let mut msgs = vec![Msg::Dense];
                    for &pos in units {
                        msgs.push(Msg::Unit { pos, neg: false });
                        msgs.push(Msg::Unit { pos, neg: true });
                    }
                    for msg in msgs {
                        tc.push(TCase { spec: spec.clone(), level, noise: Noise::Real, l, pre: Pre::None, msg });
                    }
                    let mut pres = vec![Pre::DivMul(1), Pre::DivMul(3)];
                    if l == 0 {
                        pres.push(Pre::DivN);
                    }
                    for pre in pres {
                        tc.push(TCase { spec: spec.clone(), level, noise: Noise::Real, l, pre, msg: Msg::Dense });
                        tc.push(TCase { spec: spec.clone(), level, noise: Noise::Real, l, pre, msg: Msg::Unit { pos: n - (n >> l), neg: true } });
                    }
                }
            }
            tc
        };
        let mut tc: Vec<TCase> = vec![];
        for &n in big_ns {
            for spec in big_specs(n) {
                tc.extend(trace_cases(&spec, &[0, 1], &edges(0, n - 1)));
            }
        }
        for (spec, levels) in &cross {
            tc.extend(trace_cases(spec, levels, &[spec.n - 1]));
        }
        tc.sort_by_key(|c| c.spec.n * c.spec.q.len());
        out.push(
            E1::new(
                "big:trace",
                "N in {128,256} (thorough +512,..,4096), parameter sets of big:extract x level {first, second} x EVERY l = 0..log2 N x messages {dense; +-X^p for p in the boundary set {0,1,2,7,8,9,15,..,N/2-1,N/2,N/2+1,..,N-2,N-1} around the powers of two}; plus divide_by_poly_modulus_degree_inplace(None | c*2^l, c in {1,3}) before the trace; the ten-prime sets x level {first, second, last} x EVERY l x {dense, +-X^(N-1)} + pre-scalings",
                tc.into_iter(),
                move |c: &TCase| run_trace_p("big:", c, seed),
            )
            .deadline(Duration::from_secs(600)),
        );
        let mut tc: Vec<TCase> = vec![];
        for &n in chain_ns {
            for (spec, levels) in chain_specs(n, &chain_totals) {
                tc.extend(trace_cases(&spec, &levels, &[0, 1, n / 2, n - 1]));
            }
        }
        out.push(
            E1::new(
                "chain:trace",
                "parameter sets and levels of chain:extract (2..19 primes at N = 8, thorough +16) x EVERY l x messages {dense; +-X^p, p in {0,1,N/2,N-1}}; plus the pre-scalings of the section trace",
                tc.into_iter(),
                move |c: &TCase| run_trace_p("chain:", c, seed),
            )
            .deadline(Duration::from_secs(120)),
        );
    }

    // (viii) pack
    {
        let mut pc: Vec<PCase> = vec![];
        for &n in big_ns {
            let ks: Vec<usize> = if n <= 256 { (1..=n).collect() } else { edges(1, n) };
            let ek = edges(1, n);
            for spec in big_specs(n) {
                let p = |level: usize, k: usize, idx: Idx, msg: PMsg| PCase { spec: spec.clone(), level, noise: Noise::Real, k, idx, msg };
                for &k in &ks {
                    pc.push(p(0, k, Idx::Diag, PMsg::Dense));
                }
                // boundary counts: second level, fixed indices; up to 257 only beyond N = 256 (cost)
                for &k in ek.iter().filter(|&&k| n <= 256 || k <= 257) {
                    pc.push(p(1, k, Idx::Diag, PMsg::Dense));
                    pc.push(p(0, k, Idx::Fixed(n - 1), PMsg::Dense));
                    pc.push(p(1, k, Idx::Fixed(64), PMsg::Dense));
                }
                // one LWE +-1, the others 0, every position
                if n == 128 {
                    let uk: &[usize] = if thorough { &[63, 64, 65, 96, 127, 128] } else { &[65] };
                    for &k in uk {
                        pc.push(p(0, k, Idx::Diag, PMsg::UnitEach { neg: false }));
                        if thorough {
                            pc.push(p(1, k, Idx::Fixed(n - 1), PMsg::UnitEach { neg: true }));
                        }
                    }
                }
                if n == 256 && thorough {
                    for k in [65usize, 129, 256] {
                        pc.push(p(0, k, Idx::Diag, PMsg::UnitEach { neg: true }));
                    }
                }
            }
        }
        for (spec, levels) in &cross {
            let n = spec.n;
            let ks: Vec<usize> = if n <= 1024 { vec![1, 2, 63, 64, 65, 129, n - 1, n] } else { vec![1, 65, 257] };
            for &level in levels {
                for &k in &ks {
                    if level == 0 || k <= 65 {
                        pc.push(PCase { spec: spec.clone(), level, noise: Noise::Real, k, idx: Idx::Diag, msg: PMsg::Dense });
                    }
                }
            }
        }
        // simplest first; within one size the cases of one parameter set and level stay together (per-thread system cache)
        pc.sort_by_key(|c| (c.spec.n * c.spec.q.len(), matches!(c.msg, PMsg::UnitEach { .. }), c.spec.scheme as u8, c.level, c.k));
        out.push(
            E1::new(
                "big:pack",
                "N in {128,256}: parameter sets of big:extract x EVERY k = 1..N (first level, index j from ciphertext j, dense messages); boundary counts k in {1,2,3,7,8,9,15,16,17,31,..,N/2-1,N/2,N/2+1,N-1,N} also at the second level and with fixed index N-1 / 64; unit family (one LWE 1, the others 0, every position) at N = 128, k = 65. thorough: + N in {512,1024,2048,4096} with the boundary counts (second level / fixed index for k <= 257), unit family at N = 128 for k in {63,64,65,96,127,128} and N = 256 for k in {65,129,256}; the ten-prime sets: k in {1,2,63,64,65,129,N-1,N} at N = 256, 1024 (k <= 65 also at the second and last level), k in {1,65,257} at N = 4096",
                pc.into_iter(),
                move |c: &PCase| run_pack_p("big:", c, seed),
            )
            .batch(1)
            .deadline(Duration::from_secs(900)),
        );
        let mut pc: Vec<PCase> = vec![];
        for &n in chain_ns {
            for (spec, levels) in chain_specs(n, &chain_totals) {
                for &level in &levels {
                    for k in 1..=n {
                        let p = |idx: Idx, msg: PMsg| PCase { spec: spec.clone(), level, noise: Noise::Real, k, idx, msg };
                        pc.push(p(Idx::Diag, PMsg::Dense));
                        pc.push(p(Idx::Fixed(n - 1), PMsg::Dense));
                        pc.push(p(Idx::Diag, PMsg::UnitEach { neg: true }));
                    }
                }
            }
        }
        out.push(
            E1::new(
                "chain:pack",
                "parameter sets and levels of chain:extract (2..19 primes at N = 8, thorough +16) x EVERY k = 1..N x {index j from ciphertext j, fixed index N-1} with dense messages; unit family (one LWE -1, the others 0, every position) for index j",
                pc.into_iter(),
                move |c: &PCase| run_pack_p("chain:", c, seed),
            )
            .deadline(Duration::from_secs(120)),
        );
    }
}
