//! C16 — seeded expansion is reproducible, draws are fresh, samples are well-formed.
//!
//! E1 sections:
//!  (a) `stream_chunks`   chunkings of the byte stream by `fill_bytes` == one big read == blake3 recomputation
//!      `stream_words`    interleavings of next_u32 / next_u64 / fill_bytes against the cursor specification
//!      `stream_blocks`   first 2^12 blocks per seed distinct and equal to the recomputation; seeds differ
//!  (b) `fresh_histories` all histories of length <= 3 over 9 randomised operations per scheme (hook H1)
//!      `explicit_state`  the *_with_u_prng entry points: same generator state => same mask, different error
//!  (c) `cbd`, `cbd_small_moduli`, `ternary`, `uniform`   samplers as functions of scripted generator output

use crate::engine::*;
use std::time::Duration;

#[path = "c16_fresh.rs"]
pub mod fresh;
#[path = "c16_samplers.rs"]
pub mod samplers;
#[path = "c16_stream.rs"]
pub mod stream;

pub fn describe(rep: &Report) {
    rep.set_rule(
        "stream: case = (seed, family of chunkings | start offset + operation depth | block count), every chunking / operation \
         sequence of the family is executed on a fresh generator and compared read by read with blake3(seed||counter_le).xof(4096) \
         recomputed by the harness; non-trivial = a read crossed a 4096-byte refill resp. a word read skipped bytes. \
         freshness: case = (parameter set, history of <= 3 operations, save_seed); all mask polynomials (per RNS component), stored \
         seeds and secret keys of all produced objects must be pairwise distinct. samplers: case = (moduli, slice of the scripted \
         generator outputs); every coefficient is compared with the reference map in every RNS component.",
    );
    rep.assume("the `blake3` crate used by the harness is the reference for the hash itself (the subject uses the same crate; the check ties the stream to its definition, not blake3 to its specification)");
    rep.assume("chunk-independence for ALL compositions follows from the enumerated ones only if the generator state is a function of (seed, bytes consumed); the (offset, chunk) transition family covers every such state up to the limit");
    rep.assume("word reads are little-endian: next_u32/next_u64 read the buffer in native byte order, so on a big-endian machine seeded expansion would differ (not observable on this host)");
    rep.assume("freshness is checked under the scripted entropy of hook H1 (k-th generator seeded by blake3(base||k)); the OS entropy path (ChaCha20Rng::from_entropy) itself is not exercised");
    rep.assume("uniform sampler: the accept/reject rule is compared with the unbiased rule on scripted draws (lattice of top-bit patterns, all rejected remainders for small moduli, windows around every boundary); exact uniformity over all 2^64 draws follows from the rule, not from enumeration");
    if let Err(e) = crate::refmodel::blakestream::selfcheck() {
        rep.machinery_error(format!("C16 reference self-check failed: {e}"));
    }
}

pub fn sections(cfg: &RunCfg) -> Vec<Box<dyn AnySection>> {
    let thorough = cfg.thorough();
    let seed = cfg.seed;
    let mut v: Vec<Box<dyn AnySection>> = vec![];

    let (cases, bound) = stream::chunk_cases(thorough);
    v.push(E1::new("stream_chunks", &bound, cases.into_iter(), stream::check_chunks).deadline(Duration::from_secs(120)));
    let (cases, bound) = stream::word_cases(thorough);
    v.push(E1::new("stream_words", &bound, cases.into_iter(), stream::check_words).deadline(Duration::from_secs(120)));
    let (cases, bound) = stream::block_cases(thorough);
    v.push(E1::new("stream_blocks", &bound, cases.into_iter(), stream::check_blocks).deadline(Duration::from_secs(60)));

    v.extend(fresh::sections(thorough, seed));
    v.extend(samplers::sections(thorough));
    v
}
