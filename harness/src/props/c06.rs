//! C06 — results stay valid, API variants agree bit-for-bit, bad operands are refused.
//!  (a) E2 exploration (same as C02) with the forms/validity/refusal oracles on every transition
//!  (b) E1 corruption matrix: entry point x operand position x single-field corruption
use crate::e2::*;
use crate::engine::*;
use crate::he::*;
use heathcliff::*;
use num_complex::Complex;
use serde::{Deserialize, Serialize};

pub fn describe(rep: &Report) {
    rep.set_rule(
        "(a) every transition of the E2 exploration (programs to depth 2 + abstract fixpoint, see C02) is executed in its in-place, destination and \
         value-returning form from identical clones: results must be byte-identical incl. metadata, read-only operands unchanged, results \
         is_valid_for(context) with a buffer of exactly size*k*N words, and operand tuples the model declares ill-typed (different levels, \
         representation the operation does not accept, size overflow, missing key power) must be refused. (b) corruption matrix: case = \
         (scheme, entry point, operand position, corruption); a baseline call with valid operands must succeed, the same call with exactly one \
         field corrupted must be refused (panic or Err) and must leave the read-only operands untouched. non-trivial = baseline succeeded and the \
         corrupted call was executed.",
    );
    rep.assume("refusal = panic or Err; first operand of in-place forms is not required to be preserved on refusal");
    rep.assume("flipping only the NTT flag of a valid ciphertext is not a corruption (it is a valid object in the other representation) and is covered by (a)");
}

#[derive(Serialize, Deserialize, Clone, Copy, Debug, PartialEq, Eq, Hash)]
pub enum Corr {
    ResidueEqQ,
    ResidueMax,
    ForeignParms,
    KeyLevelParms,
    ZeroParms,
    Size1,
    Size17,
    BufferShort,
    BufferLong,
    DegreeField,
    CmsField,
    Scale0,
    Scale2,
    Cf0,
    CfT,
    CfT1,
    Cf2,
    Seeded,
    // plaintext corruptions
    PlainCoeffEqT,
    PlainTooLong,
    PlainNttForeign,
    PlainNttKeyLevel,
    PlainNttResidueEqQ,
    PlainNttShort,
    // key corruptions
    KeysSeeded,
    KeysForeign,
}

const CT_CORR: [Corr; 18] = [
    Corr::ResidueEqQ, Corr::ResidueMax, Corr::ForeignParms, Corr::KeyLevelParms, Corr::ZeroParms, Corr::Size1, Corr::Size17, Corr::BufferShort,
    Corr::BufferLong, Corr::DegreeField, Corr::CmsField, Corr::Scale0, Corr::Scale2, Corr::Cf0, Corr::CfT, Corr::CfT1, Corr::Cf2, Corr::Seeded,
];
const PT_CORR: [Corr; 6] = [Corr::PlainCoeffEqT, Corr::PlainTooLong, Corr::PlainNttForeign, Corr::PlainNttKeyLevel, Corr::PlainNttResidueEqQ, Corr::PlainNttShort];
const KEY_CORR: [Corr; 2] = [Corr::KeysSeeded, Corr::KeysForeign];

#[derive(Serialize, Deserialize, Clone, Copy, Debug, PartialEq, Eq, Hash)]
pub enum Op {
    Negate,
    Add,
    Sub,
    Multiply,
    Square,
    Relinearize,
    ModSwitchNext,
    ModSwitchTo,
    Transform,
    RescaleNext,
    ApplyGalois,
    Rotate,
    Conjugate,
    AddMany,
    AddPlain,
    SubPlain,
    MultiplyPlain,
    Decrypt,
    NoiseBudget,
    Encrypt,
    EncryptSymmetric,
    TransformPlainToNtt,
    ModSwitchPlainNext,
    KeySwitch,
    // fast-path shapes: the operation has nothing to do, the operand checks must still run
    RelinearizeSize2,
    ModSwitchToSame,
    AddManySingle,
    MultiplyManySingle,
    RescaleToSame,
    ModSwitchPlainToSame,
}

const OPS: [Op; 30] = [
    Op::Negate, Op::Add, Op::Sub, Op::Multiply, Op::Square, Op::Relinearize, Op::ModSwitchNext, Op::ModSwitchTo, Op::Transform, Op::RescaleNext,
    Op::ApplyGalois, Op::Rotate, Op::Conjugate, Op::AddMany, Op::AddPlain, Op::SubPlain, Op::MultiplyPlain, Op::Decrypt, Op::NoiseBudget, Op::Encrypt,
    Op::EncryptSymmetric, Op::TransformPlainToNtt, Op::ModSwitchPlainNext, Op::KeySwitch, Op::RelinearizeSize2, Op::ModSwitchToSame, Op::AddManySingle,
    Op::MultiplyManySingle, Op::RescaleToSame, Op::ModSwitchPlainToSame,
];

#[derive(Serialize, Deserialize, Clone, Debug)]
pub struct CCase {
    pub spec: ParamSpec,
    pub op: Op,
    /// 0/1 = ciphertext operand position, 2 = plaintext operand, 3 = key operand
    pub pos: u8,
    pub corr: Corr,
}

struct World {
    kit: Kit,
    a: Ciphertext,
    b: Ciphertext,
    a3: Ciphertext, // size 3 (product), for relinearize
    seeded: Ciphertext,
    plain: Plaintext,      // operand for add_plain etc. (scheme-appropriate form)
    plain_coef: Plaintext, // coefficient-form plaintext for encrypt (BFV/BGV) / NTT plaintext (CKKS)
    relin: RelinKeys,
    relin_seeded: RelinKeys,
    galois: GaloisKeys,
    galois_seeded: GaloisKeys,
    ksk: KSwitchKeys,
    foreign: std::sync::Arc<HeContext>,
    foreign_relin: RelinKeys,
    foreign_galois: GaloisKeys,
}

fn world(spec: &ParamSpec, seed: u64) -> Result<World, String> {
    env_real(seed, crate::engine::h64(&("c06-world", spec)));
    let kit = Kit::new(spec)?;
    let n = spec.n;
    let (pa, pb, plain, plain_coef);
    if spec.scheme == Scheme::CKKS {
        let enc = CKKSEncoder::new(kit.ctx.clone());
        let scale = (1u64 << 20) as f64;
        let v: Vec<Complex<f64>> = (0..n / 2).map(|i| Complex::new(1.0 + i as f64, -0.5)).collect();
        pa = enc.encode_c64_array_new(&v, None, scale);
        pb = enc.encode_c64_array_new(&v, None, scale);
        plain = pa.clone();
        plain_coef = pa.clone();
    } else {
        pa = kit.plain(&(0..n as u64).map(|i| (i + 1) % spec.t).collect::<Vec<_>>());
        pb = kit.plain(&[2, 1]);
        plain = pb.clone();
        plain_coef = pb.clone();
    }
    let a = kit.enc.encrypt_new(&pa);
    let b = kit.enc.encrypt_new(&pb);
    let a3 = kit.eval.multiply_new(&a, &b);
    let seeded = kit.enc.encrypt_symmetric_new(&pa);
    if !seeded.contains_seed() {
        return Err("parameter set too small to hold a seed".into());
    }
    let relin = kit.keygen.create_relin_keys(false);
    let relin_seeded = kit.keygen.create_relin_keys(true);
    let galois = kit.keygen.create_galois_keys(false);
    let galois_seeded = kit.keygen.create_galois_keys(true);
    let other = KeyGenerator::new(kit.ctx.clone());
    let ksk = kit.keygen.create_keyswitching_key(other.secret_key(), false);
    // a foreign context: same shape, different primes
    let mut fq = crate::refmodel::bigu::primes_1_mod(2 * n as u64, 41, 2 * spec.q.len() + 1);
    fq.retain(|p| !spec.q.contains(p));
    fq.truncate(spec.q.len());
    let fspec = ParamSpec { q: fq, ..spec.clone() };
    let foreign = fspec.context();
    let fk = KeyGenerator::new(foreign.clone());
    let foreign_relin = fk.create_relin_keys(false);
    let foreign_galois = fk.create_galois_keys(false);
    Ok(World { kit, a, b, a3, seeded, plain, plain_coef, relin, relin_seeded, galois, galois_seeded, ksk, foreign, foreign_relin, foreign_galois })
}

fn corrupt_ct(w: &World, c: &Ciphertext, corr: Corr) -> Option<Ciphertext> {
    let spec = &w.kit.spec;
    let cd = w.kit.ctx.get_context_data(c.parms_id())?;
    let q0 = cd.parms().coeff_modulus()[0].value();
    let mut x = c.clone();
    let rebuild = |size: usize, cms: usize, deg: usize, data: Vec<u64>| Ciphertext::from_members(size, cms, deg, data, *c.parms_id(), c.scale(), c.correction_factor(), c.is_ntt_form());
    let poly = c.poly_modulus_degree() * c.coeff_modulus_size();
    match corr {
        Corr::ResidueEqQ => x.data_mut()[0] = q0,
        Corr::ResidueMax => *x.data_mut().last_mut()? = u64::MAX,
        Corr::ForeignParms => x.set_parms_id(*w.foreign.first_parms_id()),
        Corr::KeyLevelParms => {
            if w.kit.ctx.key_parms_id() == w.kit.ctx.first_parms_id() {
                return None;
            }
            x.set_parms_id(*w.kit.ctx.key_parms_id())
        }
        Corr::ZeroParms => x.set_parms_id(PARMS_ID_ZERO),
        Corr::Size1 => x = rebuild(1, c.coeff_modulus_size(), c.poly_modulus_degree(), c.data()[..poly].to_vec()),
        Corr::Size17 => {
            let mut d = vec![];
            for _ in 0..17 {
                d.extend_from_slice(&c.data()[..poly]);
            }
            x = rebuild(17, c.coeff_modulus_size(), c.poly_modulus_degree(), d)
        }
        Corr::BufferShort => {
            x.data_mut().pop();
        }
        Corr::BufferLong => x.data_mut().push(0),
        Corr::DegreeField => x = rebuild(c.size(), c.coeff_modulus_size(), c.poly_modulus_degree() * 2, c.data().clone()),
        Corr::CmsField => x = rebuild(c.size(), c.coeff_modulus_size() + 1, c.poly_modulus_degree(), c.data().clone()),
        Corr::Scale0 => x.set_scale(0.0),
        Corr::Scale2 => {
            if spec.scheme == Scheme::CKKS {
                return None;
            }
            x.set_scale(2.0)
        }
        Corr::Cf0 => {
            if spec.scheme != Scheme::BGV {
                return None;
            }
            x.set_correction_factor(0)
        }
        Corr::CfT => {
            if spec.scheme != Scheme::BGV {
                return None;
            }
            x.set_correction_factor(spec.t)
        }
        Corr::CfT1 => {
            if spec.scheme != Scheme::BGV {
                return None;
            }
            x.set_correction_factor(spec.t + 1)
        }
        Corr::Cf2 => {
            if spec.scheme == Scheme::BGV {
                return None;
            }
            x.set_correction_factor(2)
        }
        Corr::Seeded => {
            if c.size() != 2 {
                return None;
            }
            x = w.seeded.clone()
        }
        _ => return None,
    }
    Some(x)
}

fn corrupt_pt(w: &World, p: &Plaintext, corr: Corr) -> Option<Plaintext> {
    let spec = &w.kit.spec;
    let mut x = p.clone();
    let ckks = spec.scheme == Scheme::CKKS;
    match corr {
        Corr::PlainCoeffEqT => {
            if ckks || p.is_ntt_form() {
                return None;
            }
            x.data_mut()[0] = spec.t
        }
        Corr::PlainTooLong => {
            if ckks || p.is_ntt_form() {
                return None;
            }
            x.resize(spec.n + 1);
            x.data_mut()[spec.n] = 1;
        }
        Corr::PlainNttForeign => {
            if !p.is_ntt_form() {
                return None;
            }
            x.set_parms_id(*w.foreign.first_parms_id())
        }
        Corr::PlainNttKeyLevel => {
            if !p.is_ntt_form() || w.kit.ctx.key_parms_id() == w.kit.ctx.first_parms_id() {
                return None;
            }
            x.set_parms_id(*w.kit.ctx.key_parms_id())
        }
        Corr::PlainNttResidueEqQ => {
            if !p.is_ntt_form() {
                return None;
            }
            let cd = w.kit.ctx.get_context_data(p.parms_id())?;
            x.data_mut()[0] = cd.parms().coeff_modulus()[0].value();
        }
        Corr::PlainNttShort => {
            if !p.is_ntt_form() {
                return None;
            }
            // keep the parms id, shorten the buffer: set_coeff_count via resize is guarded for NTT plaintexts, so pop from data
            x.data_mut().pop();
        }
        _ => return None,
    }
    Some(x)
}

/// Runs `op` on the given operands; Ok = computed, Err = refused. Only reference-taking forms are
/// used so that the operands can be compared afterwards.
#[allow(clippy::too_many_arguments)]
fn run(w: &World, op: Op, a: &Ciphertext, b: &Ciphertext, a3: &Ciphertext, p: &Plaintext, rk: &RelinKeys, gk: &GaloisKeys, ksk: &KSwitchKeys) -> Option<Result<(), String>> {
    let ev = &w.kit.eval;
    let scheme = w.kit.spec.scheme;
    let ckks = scheme == Scheme::CKKS;
    let r = |f: &dyn Fn()| guard(f);
    Some(match op {
        Op::Negate => r(&|| drop(ev.negate_new(a))),
        Op::Add => r(&|| drop(ev.add_new(a, b))),
        Op::Sub => r(&|| drop(ev.sub_new(a, b))),
        Op::Multiply => r(&|| drop(ev.multiply_new(a, b))),
        Op::Square => r(&|| drop(ev.square_new(a))),
        Op::Relinearize => r(&|| drop(ev.relinearize_new(a3, rk))),
        Op::ModSwitchNext => r(&|| drop(ev.mod_switch_to_next_new(a))),
        Op::ModSwitchTo => r(&|| drop(ev.mod_switch_to_new(a, w.kit.ctx.last_parms_id()))),
        Op::Transform => {
            if scheme == Scheme::BFV {
                r(&|| drop(ev.transform_to_ntt_new(a)))
            } else {
                r(&|| drop(ev.transform_from_ntt_new(a)))
            }
        }
        Op::RescaleNext => {
            if !ckks {
                return None;
            }
            r(&|| drop(ev.rescale_to_next_new(a)))
        }
        Op::ApplyGalois => r(&|| drop(ev.apply_galois_new(a, 3, gk))),
        Op::Rotate => {
            if ckks {
                r(&|| drop(ev.rotate_vector_new(a, 1, gk)))
            } else {
                r(&|| drop(ev.rotate_rows_new(a, 1, gk)))
            }
        }
        Op::Conjugate => {
            if ckks {
                r(&|| drop(ev.complex_conjugate_new(a, gk)))
            } else {
                r(&|| drop(ev.rotate_columns_new(a, gk)))
            }
        }
        Op::AddMany => r(&|| drop(ev.add_many_new(&[b.clone(), a.clone(), b.clone()]))),
        Op::AddPlain => r(&|| drop(ev.add_plain_new(a, p))),
        Op::SubPlain => r(&|| drop(ev.sub_plain_new(a, p))),
        Op::MultiplyPlain => r(&|| drop(ev.multiply_plain_new(a, p))),
        Op::Decrypt => r(&|| drop(w.kit.dec.decrypt_new(a))),
        Op::NoiseBudget => {
            if scheme != Scheme::BFV {
                return None;
            }
            r(&|| drop(w.kit.dec.invariant_noise_budget(a)))
        }
        Op::Encrypt => r(&|| drop(w.kit.enc.encrypt_new(p))),
        Op::EncryptSymmetric => r(&|| drop(w.kit.enc.encrypt_symmetric_new(p))),
        Op::TransformPlainToNtt => {
            if ckks {
                return None;
            }
            r(&|| drop(ev.transform_plain_to_ntt_new(p, w.kit.ctx.first_parms_id())))
        }
        Op::ModSwitchPlainNext => {
            if !p.is_ntt_form() {
                return None;
            }
            r(&|| drop(ev.mod_switch_to_next_plain_new(p)))
        }
        Op::KeySwitch => r(&|| drop(ev.apply_keyswitching_new(a, ksk))),
        Op::RelinearizeSize2 => r(&|| drop(ev.relinearize_new(a, rk))),
        Op::ModSwitchToSame => r(&|| drop(ev.mod_switch_to_new(a, w.a.parms_id()))),
        Op::AddManySingle => r(&|| drop(ev.add_many_new(std::slice::from_ref(a)))),
        Op::MultiplyManySingle => {
            if ckks {
                return None;
            }
            r(&|| {
                let mut d = Ciphertext::new();
                ev.multiply_many(std::slice::from_ref(a), rk, &mut d);
            })
        }
        Op::ModSwitchPlainToSame => {
            if !p.is_ntt_form() {
                return None;
            }
            let id = *p.parms_id();
            r(&|| drop(ev.mod_switch_plain_to_new(p, &id)))
        }
        Op::RescaleToSame => {
            if !ckks {
                return None;
            }
            r(&|| drop(ev.rescale_to_new(a, w.a.parms_id())))
        }
    })
}

/// An arithmetic-overflow panic exists only in builds with overflow checks (this harness, the
/// project's own test profile); without them the same input would silently be computed on, so it
/// does not count as a refusal. Index / unwrap / argument-check panics fire in every build profile.
fn is_crash(msg: &str) -> bool {
    msg.contains("attempt to") && msg.contains("overflow")
}

fn uses(op: Op) -> (bool, bool, bool, bool) {
    // (uses ct a / a3, uses ct b, uses plain, uses keys)
    match op {
        Op::Add | Op::Sub | Op::Multiply | Op::AddMany => (true, true, false, false),
        Op::AddPlain | Op::SubPlain | Op::MultiplyPlain => (true, false, true, false),
        Op::Encrypt | Op::EncryptSymmetric | Op::TransformPlainToNtt | Op::ModSwitchPlainNext | Op::ModSwitchPlainToSame => (false, false, true, false),
        Op::Relinearize | Op::ApplyGalois | Op::Rotate | Op::Conjugate | Op::KeySwitch | Op::RelinearizeSize2 => (true, false, false, true),
        // with a single operand multiply_many never touches the keys: only the ciphertext is an operand of that shape
        Op::MultiplyManySingle => (true, false, false, false),
        _ => (true, false, false, false),
    }
}

fn check(c: &CCase, seed: u64) -> CaseOut {
    let w = match world(&c.spec, seed) {
        Ok(w) => w,
        Err(e) => return CaseOut::skip(&format!("world: {e}")),
    };
    let (ua, ub, up, uk) = uses(c.op);
    // operand whose corruption is requested
    let applicable = match c.pos {
        0 => ua,
        1 => ub,
        2 => up,
        3 => uk,
        _ => false,
    };
    if !applicable {
        return CaseOut::skip("operand position not used by this entry point");
    }
    // plaintext operand in the form the entry point expects
    let plain = match c.op {
        Op::Encrypt | Op::EncryptSymmetric | Op::TransformPlainToNtt => w.plain_coef.clone(),
        Op::ModSwitchPlainNext | Op::ModSwitchPlainToSame => {
            if c.spec.scheme == Scheme::CKKS {
                w.plain.clone()
            } else {
                match guard(|| w.kit.eval.transform_plain_to_ntt_new(&w.plain_coef, w.kit.ctx.first_parms_id())) {
                    Ok(p) => p,
                    Err(e) => return CaseOut::fail(format!("corrupt:{:?}:baseline-plain-transform", c.spec.scheme), "valid plaintext transforms", e),
                }
            }
        }
        Op::MultiplyPlain if matches!(c.corr, Corr::PlainNttForeign | Corr::PlainNttKeyLevel | Corr::PlainNttResidueEqQ | Corr::PlainNttShort) && c.spec.scheme != Scheme::CKKS => {
            // NTT-form plaintext operand (accepted by multiply_plain)
            let lvl = *w.a.parms_id();
            match guard(|| w.kit.eval.transform_plain_to_ntt_new(&w.plain_coef, &lvl)) {
                Ok(p) => p,
                Err(e) => return CaseOut::fail(format!("corrupt:{:?}:baseline-plain-transform", c.spec.scheme), "valid plaintext transforms", e),
            }
        }
        _ => w.plain.clone(),
    };
    // baseline
    match run(&w, c.op, &w.a, &w.b, &w.a3, &plain, &w.relin, &w.galois, &w.ksk) {
        None => return CaseOut::skip("entry point not applicable to this scheme"),
        Some(Err(e)) => {
            return CaseOut::fail(format!("corrupt:{:?}:{:?}:baseline-refused:{}", c.spec.scheme, c.op, panic_class(&e)), "valid operands are accepted", e);
        }
        Some(Ok(())) => {}
    }
    // corrupted operands
    let (mut a, mut b, mut a3, mut p) = (w.a.clone(), w.b.clone(), w.a3.clone(), plain.clone());
    let (mut rk, mut gk, mut ksk) = (w.relin.clone(), w.galois.clone(), w.ksk.clone());
    match c.pos {
        0 => {
            if c.op == Op::Relinearize {
                match corrupt_ct(&w, &w.a3, c.corr) {
                    Some(x) => a3 = x,
                    None => return CaseOut::skip("corruption not applicable"),
                }
            } else {
                match corrupt_ct(&w, &w.a, c.corr) {
                    Some(x) => a = x,
                    None => return CaseOut::skip("corruption not applicable"),
                }
            }
        }
        1 => match corrupt_ct(&w, &w.b, c.corr) {
            Some(x) => b = x,
            None => return CaseOut::skip("corruption not applicable"),
        },
        2 => match corrupt_pt(&w, &plain, c.corr) {
            Some(x) => p = x,
            None => return CaseOut::skip("corruption not applicable"),
        },
        _ => match c.corr {
            Corr::KeysSeeded => {
                rk = w.relin_seeded.clone();
                gk = w.galois_seeded.clone();
                if c.op == Op::KeySwitch {
                    let other = KeyGenerator::new(w.kit.ctx.clone());
                    ksk = w.kit.keygen.create_keyswitching_key(other.secret_key(), true);
                }
            }
            Corr::KeysForeign => {
                rk = w.foreign_relin.clone();
                gk = w.foreign_galois.clone();
                if c.op == Op::KeySwitch {
                    return CaseOut::skip("no foreign key-switching key in the matrix");
                }
            }
            _ => return CaseOut::skip("corruption not applicable"),
        },
    }
    let before = (ct_fingerprint(&a), ct_fingerprint(&b), ct_fingerprint(&a3), pt_fingerprint(&p));
    let res = run(&w, c.op, &a, &b, &a3, &p, &rk, &gk, &ksk).unwrap();
    let after = (ct_fingerprint(&a), ct_fingerprint(&b), ct_fingerprint(&a3), pt_fingerprint(&p));
    let key = format!("corrupt:{:?}:{:?}:pos{}:{:?}", c.spec.scheme, c.op, c.pos, c.corr);
    if before != after {
        return CaseOut::fail(format!("{key}:operand-modified"), "read-only operands unchanged", "an operand changed");
    }
    match res {
        Err(e) if is_crash(&e) => CaseOut::fail(
            format!("{key}:crash:{}", panic_class(&e)),
            "an explicit refusal (error result or argument-check panic), not an arithmetic/indexing crash inside the computation",
            e,
        ),
        Err(e) => CaseOut::pass(true, h64(&panic_class(&e)), 2),
        Ok(()) => CaseOut::fail(format!("{key}:accepted"), "the corrupted operand is refused (panic or Err)", "the operation computed a result"),
    }
}


// ---------------------------------------------------------------------------------------------
// (c) residue corruption at EVERY position: the validity check is a loop over the whole buffer, and loops get blocked,
// unrolled and parallelised (seeded round 3). One word of one operand is set to exactly its modulus (the smallest invalid
// value; for a coefficient-form plaintext: t) at every position of the buffer (every position up to 4096 words, the
// boundary family beyond), and the entry point must refuse.
// ---------------------------------------------------------------------------------------------

#[derive(Serialize, Deserialize, Clone, Debug)]
pub struct PCase {
    pub spec: ParamSpec,
    pub op: Op,
    /// 0 = first ciphertext operand, 1 = second, 2 = plaintext operand, 3 = the size-3 operand of relinearize
    pub target: u8,
}

fn position_family(len: usize, n: usize) -> Vec<usize> {
    if len <= 4096 {
        return (0..len).collect();
    }
    let mut v: Vec<usize> = vec![0, 1, 2, len - 2, len - 1];
    let mut p = 4usize;
    while p < len {
        v.extend([p - 1, p, p + 1]);
        p *= 2;
    }
    let mut c = n;
    while c < len {
        v.extend([c - 1, c, c + 1]);
        c += n;
    }
    // blocks of 64 / 256 / 4096 words: the last block's first and last word
    for b in [64usize, 256, 4096] {
        let start = (len - 1) / b * b;
        v.extend([start, start.saturating_sub(1)]);
    }
    v.retain(|&x| x < len);
    v.sort_unstable();
    v.dedup();
    v
}

fn check_positions(c: &PCase, seed: u64) -> CaseOut {
    let w = match world(&c.spec, seed) {
        Ok(w) => w,
        Err(e) => return CaseOut::skip(&format!("world: {e}")),
    };
    let sch = c.spec.scheme;
    let n = c.spec.n;
    let plain = match c.op {
        Op::Encrypt | Op::EncryptSymmetric | Op::TransformPlainToNtt => w.plain_coef.clone(),
        Op::ModSwitchPlainNext => {
            if sch == Scheme::CKKS {
                w.plain.clone()
            } else {
                match guard(|| w.kit.eval.transform_plain_to_ntt_new(&w.plain_coef, w.kit.ctx.first_parms_id())) {
                    Ok(p) => p,
                    Err(e) => return CaseOut::fail(format!("positions:{sch:?}:baseline-plain-transform"), "valid plaintext transforms", e),
                }
            }
        }
        _ => w.plain.clone(),
    };
    match run(&w, c.op, &w.a, &w.b, &w.a3, &plain, &w.relin, &w.galois, &w.ksk) {
        None => return CaseOut::skip("entry point not applicable to this scheme"),
        Some(Err(e)) => return CaseOut::fail(format!("positions:{sch:?}:{:?}:baseline-refused:{}", c.op, panic_class(&e)), "valid operands are accepted", e),
        Some(Ok(())) => {}
    }
    // the operand to corrupt and the invalid value per position
    let (len, invalid): (usize, Box<dyn Fn(usize) -> u64>) = match c.target {
        2 => {
            let len = plain.data().len();
            if plain.is_ntt_form() {
                let Some(cd) = w.kit.ctx.get_context_data(plain.parms_id()) else { return CaseOut::skip("plaintext level unknown") };
                let mods: Vec<u64> = cd.parms().coeff_modulus().iter().map(|m| m.value()).collect();
                (len, Box::new(move |p| mods[(p / n) % mods.len()]))
            } else {
                let t = c.spec.t;
                (len, Box::new(move |_| t))
            }
        }
        t => {
            let ct = if t == 3 { &w.a3 } else if t == 1 { &w.b } else { &w.a };
            let Some(cd) = w.kit.ctx.get_context_data(ct.parms_id()) else { return CaseOut::skip("ciphertext level unknown") };
            let mods: Vec<u64> = cd.parms().coeff_modulus().iter().map(|m| m.value()).collect();
            (ct.data().len(), Box::new(move |p| mods[(p / n) % mods.len()]))
        }
    };
    let mut steps = 0u64;
    for pos in position_family(len, n) {
        let (mut a, mut b, mut a3, mut p) = (w.a.clone(), w.b.clone(), w.a3.clone(), plain.clone());
        let bad = invalid(pos);
        match c.target {
            0 => a.data_mut()[pos] = bad,
            1 => b.data_mut()[pos] = bad,
            2 => p.data_mut()[pos] = bad,
            _ => a3.data_mut()[pos] = bad,
        }
        let res = match run(&w, c.op, &a, &b, &a3, &p, &w.relin, &w.galois, &w.ksk) {
            Some(r) => r,
            None => return CaseOut::skip("entry point not applicable to this scheme"),
        };
        steps += 1;
        let key = format!("positions:{sch:?}:{:?}:target{}", c.op, c.target);
        let what = format!("word {pos} of {len} (component {}, coefficient {}) set to its modulus {bad}", (pos / n), pos % n);
        match res {
            Err(e) if is_crash(&e) => return CaseOut::fail(format!("{key}:crash:{}", panic_class(&e)), format!("{what}: an explicit refusal"), e),
            Err(_) => {}
            Ok(()) => return CaseOut::fail(format!("{key}:accepted"), format!("{what}: the operand is refused"), "the operation computed a result"),
        }
    }
    CaseOut::pass(true, h64(&(c.op, c.target, len)), steps)
}

fn position_cases(thorough: bool) -> Vec<PCase> {
    let mut specs = vec![
        ParamSpec::new(Scheme::BFV, 8, chain(8, &[40; 10]), 17),
        ParamSpec::new(Scheme::BGV, 64, chain(64, &[40, 40, 40, 40]), 257),
        ParamSpec::new(Scheme::CKKS, 256, chain(256, &[40, 40, 50]), 0),
        ParamSpec::new(Scheme::BFV, 1024, chain(1024, &[50, 50, 60]), 65537),
    ];
    if thorough {
        specs.push(ParamSpec::new(Scheme::CKKS, 8, chain(8, &[40; 18]), 0));
        specs.push(ParamSpec::new(Scheme::BGV, 4096, chain(4096, &[50, 50, 50, 60]), 65537));
        specs.push(ParamSpec::new(Scheme::BFV, 8192, chain(8192, &[55, 55, 60]), 65537));
    }
    let mut v = vec![];
    for spec in specs {
        for op in [Op::Negate, Op::Add, Op::Multiply, Op::ModSwitchNext, Op::Decrypt, Op::RelinearizeSize2, Op::AddManySingle, Op::Transform, Op::Rotate, Op::AddPlain, Op::KeySwitch] {
            v.push(PCase { spec: spec.clone(), op, target: 0 });
        }
        for op in [Op::Add, Op::Multiply, Op::AddMany] {
            v.push(PCase { spec: spec.clone(), op, target: 1 });
        }
        for op in [Op::AddPlain, Op::MultiplyPlain, Op::Encrypt, Op::TransformPlainToNtt, Op::ModSwitchPlainNext] {
            v.push(PCase { spec: spec.clone(), op, target: 2 });
        }
        v.push(PCase { spec, op: Op::Relinearize, target: 3 });
    }
    v
}

pub fn sections(cfg: &RunCfg) -> Vec<Box<dyn AnySection>> {
    let seed = cfg.seed;
    let mut v: Vec<Box<dyn AnySection>> = param_sets(cfg)
        .into_iter()
        .map(|(name, spec, depth, abs)| {
            Box::new(E2Section {
                name,
                spec,
                oracles: Oracles { ring: false, forms: true, budget: false },
                judged: vec!["forms", "valid", "refusal"],
                thorough: cfg.thorough(),
                seed,
                depth,
                abstract_closure: abs,
            }) as Box<dyn AnySection>
        })
        .collect();
    // (b) corruption matrix
    let mut specs = vec![
        ParamSpec::new(Scheme::BFV, 8, chain(8, &[40, 40, 40, 40]), 17),
        ParamSpec::new(Scheme::BGV, 8, chain(8, &[40, 40, 40, 40]), 17),
        ParamSpec::new(Scheme::CKKS, 8, chain(8, &[40, 40, 40, 40]), 0),
    ];
    if cfg.thorough() {
        specs.push(ParamSpec::new(Scheme::BFV, 16, chain(16, &[60, 30, 60]), 97));
        specs.push(ParamSpec::new(Scheme::BGV, 4, chain(4, &[50, 50, 50, 50, 50]), 257));
        specs.push(ParamSpec::new(Scheme::CKKS, 4, chain(4, &[60, 50, 40, 60]), 0));
    }
    let mut cases = vec![];
    for spec in specs {
        for op in OPS {
            for pos in 0..2u8 {
                for corr in CT_CORR {
                    cases.push(CCase { spec: spec.clone(), op, pos, corr });
                }
            }
            for corr in PT_CORR {
                cases.push(CCase { spec: spec.clone(), op, pos: 2, corr });
            }
            for corr in KEY_CORR {
                cases.push(CCase { spec: spec.clone(), op, pos: 3, corr });
            }
        }
    }
    v.push(E1::new(
        "corruption_matrix",
        "30 entry points (incl. 6 nothing-to-do shapes) x operand position x 26 single-field corruptions x {BFV, BGV, CKKS} (N=8, four 40-bit primes; thorough adds three more sets)",
        cases.into_iter(),
        move |c: &CCase| check(c, seed),
    ));
    v.push(
        E1::new(
            "positions",
            "one residue set to exactly its modulus (coefficient-form plaintext: t) at EVERY word position of the operand (every position up to 4096 words; beyond: 0,1,2, 2^j-1..2^j+1, every component boundary -1..+1, first / last word of the last 64- / 256- / 4096-word block, last two) x 20 (entry point, operand) pairs x {BFV N=8 with 10 primes, BGV N=64, CKKS N=256, BFV N=1024} (thorough: + CKKS N=8 with 18 primes, BGV N=4096, BFV N=8192): every call must refuse",
            position_cases(cfg.thorough()).into_iter(),
            move |c: &PCase| check_positions(c, seed),
        )
        .deadline(std::time::Duration::from_secs(300)),
    );
    v
}
